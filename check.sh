#!/bin/sh
# usage: check.sh <Cxx> <quick|thorough>
# Builds the checker if needed (offline) and decides the property on /repo's current working tree.
set -u
D="$(cd "$(dirname "$0")" && pwd)"
export GOFLAGS=-mod=mod GOPROXY=off GOSUMDB=off GOTOOLCHAIN=local GOWORK=off
if [ ! -x "$D/bin/shipverif" ] || [ -n "$(find "$D/checker" -name '*.go' -newer "$D/bin/shipverif" 2>/dev/null | head -1)" ]; then
  (cd "$D/checker" && go build -o "$D/bin/shipverif" ./cmd/shipverif) || { echo "checker build failed" >&2; exit 2; }
fi
V="$D"
if [ -n "${SHIPVERIF_REPO:-}" ] && [ "${SHIPVERIF_REPO}" != "/repo" ]; then
  # development runs against scratch copies must not touch the evidence of the real tree
  V="${TMPDIR:-/tmp}/shipverif-scratch"; mkdir -p "$V"; cp "$D/known_findings.json" "$V/" 2>/dev/null
fi
exec "$D/bin/shipverif" check "$1" --tier "${2:-quick}" --repo "${SHIPVERIF_REPO:-/repo}" --verif "$V"
