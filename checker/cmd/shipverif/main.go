// shipverif decides the structural clauses of the 20 ship-go properties by
// static analysis of /repo's current working tree (see /verif/DESIGN.md).
package main

import (
	"flag"
	"fmt"
	"os"
	"os/exec"
	"path/filepath"
	"sort"
	"strconv"
	"strings"

	"shipverif/internal/core"
	"shipverif/internal/rules"
)

func usage() {
	fmt.Fprintln(os.Stderr, "usage: shipverif check <Cxx|all> [--tier quick|thorough] [--repo DIR] [--verif DIR]")
	os.Exit(2)
}

// configurations analysed by the thorough tier (the default configuration
// is always analysed first; the others re-run the same rules and must agree).
var thoroughConfigs = [][]string{
	{"GOOS=linux", "GOARCH=386"},
	{"GOOS=darwin", "GOARCH=arm64"},
	{"GOOS=windows", "GOARCH=amd64"},
}

func main() {
	if len(os.Args) < 3 || os.Args[1] != "check" {
		usage()
	}
	prop := os.Args[2]
	fs := flag.NewFlagSet("check", flag.ExitOnError)
	tier := fs.String("tier", os.Getenv("VERIF_TIER"), "quick|thorough")
	repo := fs.String("repo", "/repo", "repository working tree to analyse")
	verif := fs.String("verif", "", "verif directory (default: parent of the binary's dir)")
	sub := fs.Bool("sub", false, "internal: sub-run for another configuration (prints violation keys only)")
	_ = fs.Parse(os.Args[3:])
	if *tier == "" {
		*tier = "quick"
	}
	if *tier != "quick" && *tier != "thorough" {
		usage()
	}
	if *verif == "" {
		exe, _ := os.Executable()
		*verif = filepath.Dir(filepath.Dir(exe))
	}
	seed, _ := strconv.ParseInt(os.Getenv("VERIF_SEED"), 10, 64)

	var props []string
	if prop == "all" {
		for k := range rules.Checks {
			props = append(props, k)
		}
		sort.Strings(props)
	} else {
		if rules.Checks[prop] == nil {
			fmt.Fprintf(os.Stderr, "unknown property %s\n", prop)
			os.Exit(2)
		}
		props = []string{prop}
	}

	var extraEnv []string
	if *sub {
		for _, kv := range strings.Fields(os.Getenv("SHIPVERIF_CONFIG")) {
			extraEnv = append(extraEnv, kv)
		}
	}
	kf, err := core.LoadKnown(filepath.Join(*verif, "known_findings.json"))
	if err != nil {
		fmt.Fprintln(os.Stderr, "known_findings.json:", err)
		os.Exit(2)
	}
	p, err := core.Load(*repo, extraEnv...)
	exit := 0
	for _, id := range props {
		r := core.NewReport(id, *tier)
		r.Configs = []string{"default"}
		if err != nil {
			// a tree that does not load cannot be shown to satisfy anything: fail closed
			r.Explanation = "load failed"
			r.Fail(id+".load", "load", "", err.Error())
		} else {
			func() {
				defer func() {
					if x := recover(); x != nil {
						r.Fail(id+".internal", "checker-panic", "", fmt.Sprint(x))
						if os.Getenv("SHIPVERIF_DEBUG") != "" {
							panic(x)
						}
					}
				}()
				rules.Checks[id](p, r)
			}()
		}
		if *sub {
			// print failing keys for the parent process
			for _, in := range r.Instances {
				if !in.OK {
					fmt.Printf("SUBFAIL\t%s\t%s\t%s\t%s\n", in.Rule, strings.TrimPrefix(in.Key, in.Rule+" "), in.Pos, in.Msg)
				}
			}
			fmt.Printf("SUBDONE\t%s\t%d\n", id, len(r.Instances))
			continue
		}
		if *tier == "thorough" && err == nil {
			runOtherConfigs(id, *repo, *verif, r)
		}
		if c := r.Finish(*verif, kf, seed); c > exit {
			exit = c
		}
	}
	os.Exit(exit)
}

// runOtherConfigs re-runs the property's rules under other build
// configurations in fresh processes (one at a time, to bound memory) and
// merges their failing instances into the report.
func runOtherConfigs(id, repo, verif string, r *core.Report) {
	exe, _ := os.Executable()
	for _, cfg := range thoroughConfigs {
		label := strings.Join(cfg, " ")
		cmd := exec.Command(exe, "check", id, "--tier", "quick", "--repo", repo, "--verif", verif, "--sub")
		cmd.Env = append(os.Environ(), "SHIPVERIF_CONFIG="+label)
		out, err := cmd.Output()
		done := false
		for _, line := range strings.Split(string(out), "\n") {
			f := strings.Split(line, "\t")
			switch f[0] {
			case "SUBFAIL":
				if len(f) >= 5 {
					// same key as in the default configuration merges; a new key is a new violation
					r.Add(f[1], f[2], f[3], false, "["+label+"] "+f[4])
				}
			case "SUBDONE":
				done = true
				if len(f) >= 3 {
					n, _ := strconv.Atoi(f[2])
					r.Counts["instances["+label+"]"] = n
				}
			}
		}
		if !done {
			msg := "sub-run did not complete"
			if err != nil {
				msg += ": " + err.Error()
			}
			r.Fail(id+".config", "config "+label, "", msg)
		}
		r.Configs = append(r.Configs, label)
	}
}
