package core

import (
	"go/constant"
	"go/types"

	"golang.org/x/tools/go/ssa"
)

// ---- calling contexts -------------------------------------------------------------------------------------
//
// Rules are written against one function, but maintainers move code into helpers. A CtxSite is an instruction
// together with the chain of static call sites that leads to it from the function a rule starts in; while a
// chain is bound (Bind), Canon resolves the helpers' parameters to the arguments of exactly those call sites,
// so value-identity and provenance arguments see through the helper as if it were inlined.

var paramBind = map[*ssa.Parameter][]ssa.Value{}

// BindCall binds the parameters of the static callee of site to the site's arguments until undo is called.
func BindCall(site ssa.Instruction) (undo func()) {
	c := Common(site)
	if c == nil {
		return func() {}
	}
	callee := c.StaticCallee()
	if callee == nil {
		return func() {}
	}
	var bound []*ssa.Parameter
	for i, pa := range callee.Params {
		if i < len(c.Args) {
			paramBind[pa] = append(paramBind[pa], c.Args[i])
			bound = append(bound, pa)
		}
	}
	return func() {
		for _, pa := range bound {
			st := paramBind[pa]
			if len(st) <= 1 {
				delete(paramBind, pa)
			} else {
				paramBind[pa] = st[:len(st)-1]
			}
		}
	}
}

func boundParam(pa *ssa.Parameter) (ssa.Value, bool) {
	st := paramBind[pa]
	if len(st) == 0 {
		return nil, false
	}
	return st[len(st)-1], true
}

// CtxSite: instruction In, reached from the root function through the static calls in Chain (outermost first).
type CtxSite struct {
	In    ssa.Instruction
	Chain []ssa.Instruction
}

// Root is the function the chain starts in.
func (c CtxSite) Root() *ssa.Function {
	if len(c.Chain) > 0 {
		return c.Chain[0].Parent()
	}
	return c.In.Parent()
}

// Bind binds the whole chain.
func (c CtxSite) Bind() (undo func()) {
	var undos []func()
	for _, cs := range c.Chain {
		undos = append(undos, BindCall(cs))
	}
	return func() {
		for i := len(undos) - 1; i >= 0; i-- {
			undos[i]()
		}
	}
}

// ExpandSites lists the instructions satisfying pred in root and in the functions root reaches through plain
// static calls (not go/defer) to functions accepted by local, up to depth levels, each with its call chain.
func ExpandSites(root *ssa.Function, local func(*ssa.Function) bool, depth int, pred func(ssa.Instruction) bool) []CtxSite {
	var out []CtxSite
	var visit func(fn *ssa.Function, chain []ssa.Instruction, d int, onStack map[*ssa.Function]bool)
	visit = func(fn *ssa.Function, chain []ssa.Instruction, d int, onStack map[*ssa.Function]bool) {
		if fn == nil || fn.Blocks == nil || onStack[fn] {
			return
		}
		onStack[fn] = true
		defer delete(onStack, fn)
		EachInstr(fn, func(in ssa.Instruction) {
			if pred(in) {
				out = append(out, CtxSite{In: in, Chain: append([]ssa.Instruction{}, chain...)})
			}
			if d <= 0 {
				return
			}
			if c, ok := in.(*ssa.Call); ok {
				if t := c.Call.StaticCallee(); t != nil && t != root && local(t) {
					visit(t, append(append([]ssa.Instruction{}, chain...), in), d-1, onStack)
				}
			}
		})
	}
	visit(root, nil, depth, map[*ssa.Function]bool{})
	return out
}

// GuardedCtx: every path from the entry of the root function to the site takes a guard edge - in the root
// before the first call of the chain, in an intermediate helper before the next call, or in the innermost
// function before the instruction. Each segment is evaluated with the bindings of the calls above it.
func GuardedCtx(c CtxSite, guard EdgeFilter) bool {
	var undos []func()
	defer func() {
		for i := len(undos) - 1; i >= 0; i-- {
			undos[i]()
		}
	}()
	for _, cs := range c.Chain {
		if Guarded(cs, guard) {
			return true
		}
		undos = append(undos, BindCall(cs))
	}
	return Guarded(c.In, guard)
}

// LiftEdge extends an edge predicate through verification helpers: an edge whose condition tests the boolean
// result - or the nil-ness of the error result - of a static call to a function accepted by local is a guard
// edge when the callee can produce that outcome only on returns that are themselves behind guard edges inside
// the callee (evaluated with the callee's parameters bound to this call's arguments).
func LiftEdge(guard EdgeFilter, local func(*ssa.Function) bool, depth int) EdgeFilter {
	var lift func(d int) EdgeFilter
	lift = func(d int) EdgeFilter {
		return func(b *ssa.BasicBlock, idx int) bool {
			if guard(b, idx) {
				return true
			}
			if d <= 0 {
				return false
			}
			i := BlockIf(b)
			if i == nil {
				return false
			}
			v, truth := Truth(i.Cond, idx)
			// outcome wanted from the callee: (bool result == truth) or (error result nil-ness)
			var res ssa.Value
			wantNil, isErr := false, false
			switch x := v.(type) {
			case *ssa.Call, *ssa.Extract:
				res = x
			case *ssa.BinOp:
				if x.Op.String() != "==" && x.Op.String() != "!=" {
					return false
				}
				switch {
				case IsNilConst(x.Y):
					res = x.X
				case IsNilConst(x.X):
					res = x.Y
				default:
					return false
				}
				isErr = true
				wantNil = truth == (x.Op.String() == "==")
			default:
				return false
			}
			ri := 0
			var call *ssa.Call
			switch x := res.(type) {
			case *ssa.Call:
				call = x
			case *ssa.Extract:
				c, ok := x.Tuple.(*ssa.Call)
				if !ok {
					return false
				}
				call, ri = c, x.Index
			default:
				return false
			}
			callee := call.Call.StaticCallee()
			if callee == nil || callee.Blocks == nil || !local(callee) || ri >= callee.Signature.Results().Len() {
				return false
			}
			rt := callee.Signature.Results().At(ri).Type()
			if isErr {
				if _, ok := rt.Underlying().(*types.Interface); !ok {
					return false
				}
			} else if bt, ok := rt.Underlying().(*types.Basic); !ok || bt.Kind() != types.Bool {
				return false
			}
			undo := BindCall(call)
			defer undo()
			inner := lift(d - 1)
			any, ok := false, true
			EachInstr(callee, func(in ssa.Instruction) {
				ret, isRet := in.(*ssa.Return)
				if !isRet || ret.Block() == callee.Recover {
					return
				}
				any = true
				rv := ResultOf(ret, ri)
				if isErr {
					neverNil := false
					if c, isCall := rv.(*ssa.Call); isCall {
						switch CalleeName(&c.Call) {
						case "errors.New", "fmt.Errorf":
							neverNil = true
						}
					}
					if !neverNil {
						// `if err != nil { return ..., err }`: the returned value is non-nil on this path
						rvv := rv
						neverNil = Guarded(ret, func(b *ssa.BasicBlock, idx int) bool {
							i := BlockIf(b)
							if i == nil {
								return false
							}
							cv, tr := Truth(i.Cond, idx)
							bo, ok := cv.(*ssa.BinOp)
							if !ok || (bo.Op.String() != "==" && bo.Op.String() != "!=") {
								return false
							}
							var other ssa.Value
							switch {
							case IsNilConst(bo.Y):
								other = bo.X
							case IsNilConst(bo.X):
								other = bo.Y
							default:
								return false
							}
							return other == rvv && tr == (bo.Op.String() == "!=")
						})
					}
					switch {
					case IsNilConst(rv) && !wantNil:
						return // this return yields nil, the edge needs non-nil
					case neverNil && wantNil:
						return // this return yields an error, the edge needs nil
					}
				} else if k := ConstOf(rv); k != nil && k.Kind() == constant.Bool && constant.BoolVal(k) != truth {
					return // this return cannot produce the edge's value
				}
				if !Guarded(ret, inner) {
					ok = false
				}
			})
			return any && ok
		}
	}
	return lift(depth)
}

// ConstUnder evaluates v to a constant under the current parameter bindings. Beyond Canon/ConstOf it selects
// the operand of a two-way phi whose controlling branch condition is itself a (bound) boolean constant:
//
//	role := A; if flag { role = B }   with flag bound to true at this call site  ->  B
func ConstUnder(v ssa.Value, depth int) constant.Value {
	if depth <= 0 || v == nil {
		return nil
	}
	v = Canon(v)
	if c := ConstOf(v); c != nil {
		return c
	}
	if u, ok := v.(*ssa.UnOp); ok && u.Op.String() == "!" {
		if c := ConstUnder(u.X, depth-1); c != nil && c.Kind() == constant.Bool {
			return constant.MakeBool(!constant.BoolVal(c))
		}
		return nil
	}
	phi, ok := v.(*ssa.Phi)
	if !ok {
		return nil
	}
	b := phi.Block()
	d := b.Idom()
	if d == nil {
		return nil
	}
	iff := BlockIf(d)
	if iff == nil {
		return nil
	}
	c := ConstUnder(iff.Cond, depth-1)
	if c == nil || c.Kind() != constant.Bool {
		return nil
	}
	taken := d.Succs[1]
	if constant.BoolVal(c) {
		taken = d.Succs[0]
	}
	var pick ssa.Value
	n := 0
	for i, pr := range b.Preds {
		feasible := false
		if pr == d {
			feasible = taken == b
		} else if taken != b && taken.Dominates(pr) {
			feasible = true
		}
		if feasible {
			pick = phi.Edges[i]
			n++
		}
	}
	if n != 1 {
		return nil
	}
	return ConstUnder(pick, depth-1)
}

// MayReachCtx: can an instruction satisfying pred be executed when fn is entered with the current parameter
// bindings? Branches whose condition evaluates to a constant under the bindings (a flag parameter passed as a
// literal) are followed only in the feasible direction; static calls to functions accepted by local are entered
// with their parameters bound to the call's arguments.
func MayReachCtx(fn *ssa.Function, local func(*ssa.Function) bool, pred func(ssa.Instruction) bool, depth int) bool {
	if fn == nil || len(fn.Blocks) == 0 {
		return false
	}
	seen := map[*ssa.BasicBlock]bool{}
	work := []*ssa.BasicBlock{fn.Blocks[0]}
	for len(work) > 0 {
		b := work[len(work)-1]
		work = work[:len(work)-1]
		if seen[b] {
			continue
		}
		seen[b] = true
		for _, in := range b.Instrs {
			if pred(in) {
				return true
			}
			if depth > 0 {
				var callee *ssa.Function
				switch x := in.(type) {
				case *ssa.Call:
					callee = x.Call.StaticCallee()
					if callee == nil {
						callee = ClosureArg(x.Call.Value)
					}
				case *ssa.Defer:
					callee = x.Call.StaticCallee()
				}
				if callee != nil && callee != fn && local(callee) {
					undo := BindCall(in)
					hit := MayReachCtx(callee, local, pred, depth-1)
					undo()
					if hit {
						return true
					}
				}
			}
		}
		if iff := BlockIf(b); iff != nil {
			if c := ConstUnder(iff.Cond, 6); c != nil && c.Kind() == constant.Bool {
				if constant.BoolVal(c) {
					work = append(work, b.Succs[0])
				} else {
					work = append(work, b.Succs[1])
				}
				continue
			}
		}
		work = append(work, b.Succs...)
	}
	return false
}
