package core

import (
	"go/constant"
	"go/types"

	"golang.org/x/tools/go/ssa"
)

// FlagOpts configures FlagSearch.
type FlagOpts struct {
	Mark    func(ssa.Instruction) bool // passing such an instruction sets the "marked" bit (nil: marked from the start)
	Stop    func(ssa.Instruction) bool // cuts the path (only once marked)
	Target  func(ssa.Instruction) bool // searched instruction (only counts once marked)
	Removed EdgeFilter
}

// FlagSearch explores fn from its entry, path-sensitively for boolean flags:
// the truth of every branch condition taken and of boolean phis (resolved
// per incoming edge) is remembered, so paths that contradict a flag they
// set or tested earlier are not followed. It returns a Target instruction
// reachable, after a Mark instruction, on a path not cut by Stop; nil if none.
func FlagSearch(fn *ssa.Function, o FlagOpts) ssa.Instruction {
	if len(fn.Blocks) == 0 {
		return nil
	}
	// tracked values: bool phis and branch conditions (bounded)
	idx := map[ssa.Value]int{}
	add := func(v ssa.Value) {
		if _, ok := idx[v]; !ok && len(idx) < 15 {
			idx[v] = len(idx)
		}
	}
	isBool := func(t types.Type) bool {
		b, ok := t.Underlying().(*types.Basic)
		return ok && b.Kind() == types.Bool
	}
	for _, b := range fn.Blocks {
		for _, in := range b.Instrs {
			if phi, ok := in.(*ssa.Phi); ok && isBool(phi.Type()) {
				add(phi)
			}
		}
	}
	conds := branchConds(fn)
	count := map[ssa.Value]int{}
	for _, v := range conds {
		count[v]++
	}
	for _, v := range conds {
		if count[v] >= 2 {
			add(v)
		}
	}
	get := func(asg uint32, v ssa.Value) (bool, bool) {
		if c, ok := v.(*ssa.Const); ok && c.Value != nil && c.Value.Kind() == constant.Bool {
			return constant.BoolVal(c.Value), true
		}
		k, ok := idx[v]
		if !ok {
			return false, false
		}
		switch (asg >> (2 * uint(k))) & 3 {
		case 1:
			return true, true
		case 2:
			return false, true
		}
		return false, false
	}
	set := func(asg uint32, v ssa.Value, known, val bool) uint32 {
		k, ok := idx[v]
		if !ok {
			return asg
		}
		asg &^= 3 << (2 * uint(k))
		if known {
			if val {
				asg |= 1 << (2 * uint(k))
			} else {
				asg |= 2 << (2 * uint(k))
			}
		}
		return asg
	}
	type state struct {
		n      node
		asg    uint32
		marked bool
	}
	start := state{node{fn.Blocks[0], -1}, 0, o.Mark == nil}
	seen := map[state]bool{start: true}
	work := []state{start}
	var found ssa.Instruction
	for len(work) > 0 && found == nil {
		s := work[len(work)-1]
		work = work[:len(work)-1]
		marked := s.marked
		cut := false
		for _, in := range s.n.b.Instrs {
			if !marked && o.Mark != nil && o.Mark(in) {
				marked = true
				continue
			}
			if marked {
				if o.Stop != nil && o.Stop(in) {
					cut = true
					break
				}
				if o.Target(in) {
					return in
				}
			}
		}
		if cut {
			continue
		}
		succNodes(s.n, o.Removed, func(i int, next node) {
			na := s.asg
			if iff := BlockIf(s.n.b); iff != nil {
				var sc *ssa.Phi
				if s.n.via >= 0 {
					if sc = shortCircuit(s.n.b); sc != nil {
						condOverride[sc] = sc.Edges[s.n.via]
					}
				}
				v, truth := Truth(iff.Cond, i)
				if sc != nil {
					delete(condOverride, sc)
				}
				if val, known := get(na, v); known && val != truth {
					return // contradicts a flag set or tested earlier
				}
				na = set(na, v, true, truth)
			}
			succ := next.b
			// resolve bool phis of succ for this edge (simultaneous assignment)
			predIdx := next.via
			if predIdx < 0 {
				for k, pb := range succ.Preds {
					if pb == s.n.b {
						predIdx = k
						break
					}
				}
			}
			nb := na
			for _, in := range succ.Instrs {
				phi, ok := in.(*ssa.Phi)
				if !ok {
					break
				}
				if _, tracked := idx[phi]; !tracked || predIdx < 0 {
					continue
				}
				val, known := get(na, phi.Edges[predIdx])
				nb = set(nb, phi, known, val)
			}
			ns := state{next, nb, marked}
			if !seen[ns] {
				seen[ns] = true
				work = append(work, ns)
			}
		})
	}
	return nil
}

// LoopEarlyExit reports an edge that leaves the natural loop with the given
// header from inside its body (break / return / goto), i.e. other than the
// header's own exit edge. body is the header's in-loop successor.
func LoopEarlyExit(header *ssa.BasicBlock) (from, to *ssa.BasicBlock) {
	// loop blocks: blocks that can reach header and are dominated by it
	inLoop := map[*ssa.BasicBlock]bool{header: true}
	for _, b := range header.Parent().Blocks {
		if header.Dominates(b) && b != header && ReachableFrom(b, nil)[header] {
			inLoop[b] = true
		}
	}
	for b := range inLoop {
		if b == header {
			continue
		}
		for _, s := range b.Succs {
			if !inLoop[s] {
				return b, s
			}
		}
	}
	return nil, nil
}
