package core

import (
	"golang.org/x/tools/go/ssa"
)

// LockInfo is the result of the interprocedural lock analysis of a set of
// functions (normally one package).
type LockInfo struct {
	Must      map[ssa.Instruction]LockSet // locks certainly held before the instruction (callers included)
	AcqBefore map[ssa.Instruction]LockSet // locks that may have been acquired on some path from an entry to the instruction (held or already released)
	Acquires  map[*ssa.Function]LockSet   // locks a function may acquire (transitively)
	EntryMust map[*ssa.Function]LockSet
	EntryAcq  map[*ssa.Function]LockSet
}

type callSite struct {
	caller *ssa.Function
	in     ssa.Instruction
}

// ExtraTargets, when set, resolves dynamic calls (interface invokes, function
// values) to possible callees, e.g. from a VTA call graph.
var ExtraTargets func(in ssa.Instruction) []*ssa.Function

// callTargets returns the functions (within set) that instruction in may
// transfer control to synchronously: static callee, immediately applied
// literal, or the literal handed to sync.Once.Do.
func callTargets(in ssa.Instruction, set map[*ssa.Function]bool) []*ssa.Function {
	if _, isGo := in.(*ssa.Go); isGo {
		return nil
	}
	c := Common(in)
	if c == nil {
		return nil
	}
	var out []*ssa.Function
	if f := c.StaticCallee(); f != nil {
		if set[f] {
			out = append(out, f)
		}
		if CalleeName(c) == "(*sync.Once).Do" && len(c.Args) == 2 {
			if cl := ClosureArg(c.Args[1]); cl != nil && set[cl] {
				out = append(out, cl)
			}
		}
	} else if cl := ClosureArg(c.Value); cl != nil && set[cl] {
		out = append(out, cl)
	} else if ExtraTargets != nil {
		for _, t := range ExtraTargets(in) {
			if set[t] {
				out = append(out, t)
			}
		}
	}
	return out
}

// AnalyzeLocks computes must-held and may-acquired-before lock sets for all
// instructions of fns. isEntry marks functions that can be entered from
// outside with no locks held (exported API, goroutine bodies, callbacks).
func AnalyzeLocks(fns []*ssa.Function, isEntry func(*ssa.Function) bool) *LockInfo {
	set := map[*ssa.Function]bool{}
	for _, f := range fns {
		set[f] = true
	}
	li := &LockInfo{Must: map[ssa.Instruction]LockSet{}, AcqBefore: map[ssa.Instruction]LockSet{}, Acquires: map[*ssa.Function]LockSet{}, EntryMust: map[*ssa.Function]LockSet{}, EntryAcq: map[*ssa.Function]LockSet{}}
	callers := map[*ssa.Function][]callSite{}
	goTargets := map[*ssa.Function]bool{}
	for _, f := range fns {
		EachInstr(f, func(in ssa.Instruction) {
			for _, t := range callTargets(in, set) {
				callers[t] = append(callers[t], callSite{f, in})
			}
			if g, ok := in.(*ssa.Go); ok {
				if t := g.Call.StaticCallee(); t != nil {
					goTargets[t] = true
				} else if cl := ClosureArg(g.Call.Value); cl != nil {
					goTargets[cl] = true
				}
			}
		})
	}
	// transitive acquire summaries
	for _, f := range fns {
		li.Acquires[f] = LockSet{}
	}
	for changed := true; changed; {
		changed = false
		for _, f := range fns {
			acq := li.Acquires[f]
			n := len(acq)
			EachInstr(f, func(in ssa.Instruction) {
				if _, isGo := in.(*ssa.Go); isGo {
					return
				}
				if id, op, _ := MutexOp(in); op > 0 {
					acq[id] = true
				}
				for _, t := range callTargets(in, set) {
					for k := range li.Acquires[t] {
						acq[k] = true
					}
				}
			})
			if len(acq) != n {
				changed = true
			}
		}
	}
	entry := func(f *ssa.Function) bool {
		return isEntry(f) || goTargets[f] || len(callers[f]) == 0
	}
	// must: start optimistic (nil = top) for non-entries
	top := map[*ssa.Function]bool{}
	for _, f := range fns {
		if entry(f) {
			li.EntryMust[f] = LockSet{}
		} else {
			top[f] = true
		}
		li.EntryAcq[f] = LockSet{}
	}
	per := map[*ssa.Function]map[ssa.Instruction]LockSet{}
	for iter := 0; iter < 20; iter++ {
		changed := false
		for _, f := range fns {
			if top[f] {
				continue
			}
			per[f] = Locksets(f, li.EntryMust[f])
		}
		for _, f := range fns {
			if entry(f) {
				continue
			}
			var meet LockSet
			have := false
			for _, cs := range callers[f] {
				if top[cs.caller] {
					continue
				}
				ls := per[cs.caller][cs.in]
				if ls == nil {
					ls = LockSet{}
				}
				if !have {
					meet, have = ls.Clone(), true
				} else {
					meet = meet.Intersect(ls)
				}
			}
			if !have {
				continue
			}
			if top[f] || !meet.Equal(li.EntryMust[f]) {
				li.EntryMust[f] = meet
				delete(top, f)
				changed = true
			}
		}
		if !changed {
			break
		}
	}
	for _, f := range fns {
		if top[f] {
			li.EntryMust[f] = LockSet{}
		}
		for in, ls := range Locksets(f, li.EntryMust[f]) {
			li.Must[in] = ls
		}
	}
	// may-acquired-before: forward union dataflow, interprocedural through entry sets
	acqBefore := func(f *ssa.Function, entrySet LockSet) map[ssa.Instruction]LockSet {
		res := map[ssa.Instruction]LockSet{}
		if len(f.Blocks) == 0 {
			return res
		}
		in := map[*ssa.BasicBlock]LockSet{f.Blocks[0]: entrySet.Clone()}
		work := []*ssa.BasicBlock{f.Blocks[0]}
		for len(work) > 0 {
			b := work[0]
			work = work[1:]
			cur := in[b].Clone()
			for _, ins := range b.Instrs {
				res[ins] = cur.Clone()
				if _, isGo := ins.(*ssa.Go); isGo {
					continue
				}
				if id, op, _ := MutexOp(ins); op > 0 {
					cur[id] = true
				}
				for _, t := range callTargets(ins, set) {
					for k := range li.Acquires[t] {
						cur[k] = true
					}
				}
			}
			for _, s := range b.Succs {
				old, ok := in[s]
				nw := cur.Clone()
				if ok {
					for k := range old {
						nw[k] = true
					}
				}
				if !ok || !nw.Equal(old) {
					in[s] = nw
					work = append(work, s)
				}
			}
		}
		return res
	}
	for iter := 0; iter < 20; iter++ {
		changed := false
		perA := map[*ssa.Function]map[ssa.Instruction]LockSet{}
		for _, f := range fns {
			perA[f] = acqBefore(f, li.EntryAcq[f])
		}
		for _, f := range fns {
			cur := li.EntryAcq[f]
			n := len(cur)
			for _, cs := range callers[f] {
				for k := range perA[cs.caller][cs.in] {
					cur[k] = true
				}
			}
			if len(cur) != n {
				changed = true
			}
		}
		if !changed {
			for _, f := range fns {
				for in, ls := range perA[f] {
					li.AcqBefore[in] = ls
				}
			}
			break
		}
	}
	return li
}

// MayLocks computes, for every instruction of fns, the locks that may be held
// before it on some path (callers within fns included; meet = union). Deferred
// unlocks keep the lock until the function returns. Goroutine bodies start
// with no locks.
func MayLocks(fns []*ssa.Function) map[ssa.Instruction]LockSet {
	set := map[*ssa.Function]bool{}
	for _, f := range fns {
		set[f] = true
	}
	entry := map[*ssa.Function]LockSet{}
	for _, f := range fns {
		entry[f] = LockSet{}
	}
	res := map[ssa.Instruction]LockSet{}
	intra := func(f *ssa.Function) {
		if len(f.Blocks) == 0 {
			return
		}
		in := map[*ssa.BasicBlock]LockSet{f.Blocks[0]: entry[f].Clone()}
		work := []*ssa.BasicBlock{f.Blocks[0]}
		for len(work) > 0 {
			b := work[0]
			work = work[1:]
			cur := in[b].Clone()
			for _, ins := range b.Instrs {
				old := res[ins]
				if old == nil {
					old = LockSet{}
					res[ins] = old
				}
				for k := range cur {
					old[k] = true
				}
				switch ins.(type) {
				case *ssa.Defer, *ssa.Go:
					continue
				}
				if id, op, read := MutexOp(ins); op != 0 {
					if read {
						id += "#R"
					}
					if op > 0 {
						cur[id] = true
					} else {
						delete(cur, id)
					}
				}
			}
			for _, s := range b.Succs {
				old, ok := in[s]
				if !ok {
					in[s] = cur.Clone()
					work = append(work, s)
					continue
				}
				grew := false
				for k := range cur {
					if !old[k] {
						old[k] = true
						grew = true
					}
				}
				if grew {
					work = append(work, s)
				}
			}
		}
	}
	for iter := 0; iter < 30; iter++ {
		for _, f := range fns {
			intra(f)
		}
		changed := false
		for _, f := range fns {
			EachInstr(f, func(in ssa.Instruction) {
				for _, t := range callTargets(in, set) {
					for k := range res[in] {
						if !entry[t][k] {
							entry[t][k] = true
							changed = true
						}
					}
				}
			})
		}
		if !changed {
			break
		}
	}
	return res
}
