// Package core loads /repo's current working tree into a type-checked SSA
// program and offers the shared helpers all rule engines use.
package core

import (
	"fmt"
	"go/token"
	"go/types"
	"os"
	"path/filepath"
	"sort"
	"strings"

	"golang.org/x/tools/go/callgraph"
	"golang.org/x/tools/go/callgraph/cha"
	"golang.org/x/tools/go/callgraph/vta"
	"golang.org/x/tools/go/packages"
	"golang.org/x/tools/go/ssa"
	"golang.org/x/tools/go/ssa/ssautil"
)

const ModulePath = "github.com/enbility/ship-go"

// Program is the resolved program all rules are decided on.
type Program struct {
	RepoDir string
	Fset    *token.FileSet
	Pkgs    []*packages.Package
	Prog    *ssa.Program
	byName  map[string]*ssa.Package // short name ("ship") -> package
	cg      *callgraph.Graph
	allFn   map[*ssa.Function]bool
	Config  string // GOOS/GOARCH label
}

// Load type-checks ./... of repoDir (tests excluded) and builds SSA for the
// whole program including dependencies. It fails on any type error, on a
// package count below the floor, or when an expected package is missing.
func Load(repoDir string, extraEnv ...string) (*Program, error) {
	env := os.Environ()
	drop := map[string]bool{"GOWORK": true, "GOFLAGS": true, "GOPROXY": true, "GOSUMDB": true, "GOTOOLCHAIN": true}
	var clean []string
	for _, e := range env {
		k := e
		if i := strings.IndexByte(e, '='); i >= 0 {
			k = e[:i]
		}
		if !drop[k] {
			clean = append(clean, e)
		}
	}
	clean = append(clean, "GOWORK=off", "GOFLAGS=-mod=mod", "GOPROXY=off", "GOSUMDB=off", "GOTOOLCHAIN=local")
	clean = append(clean, extraEnv...)
	fset := token.NewFileSet()
	cfg := &packages.Config{
		Mode:  packages.LoadAllSyntax,
		Dir:   repoDir,
		Fset:  fset,
		Env:   clean,
		Tests: false,
	}
	pkgs, err := packages.Load(cfg, "./...")
	if err != nil {
		return nil, fmt.Errorf("packages.Load: %w", err)
	}
	var errs []string
	packages.Visit(pkgs, nil, func(p *packages.Package) {
		for _, e := range p.Errors {
			errs = append(errs, e.Error())
		}
	})
	if len(errs) > 0 {
		sort.Strings(errs)
		if len(errs) > 10 {
			errs = errs[:10]
		}
		return nil, fmt.Errorf("type/load errors (the tree must compile): %s", strings.Join(errs, "; "))
	}
	if len(pkgs) < 9 {
		return nil, fmt.Errorf("only %d packages loaded from %s, expected >= 9", len(pkgs), repoDir)
	}
	prog, spkgs := ssautil.AllPackages(pkgs, ssa.InstantiateGenerics)
	prog.Build()
	p := &Program{RepoDir: repoDir, Fset: fset, Pkgs: pkgs, Prog: prog, byName: map[string]*ssa.Package{}}
	for i, sp := range spkgs {
		if sp == nil {
			return nil, fmt.Errorf("no SSA for package %s", pkgs[i].PkgPath)
		}
		if strings.HasPrefix(sp.Pkg.Path(), ModulePath+"/") {
			p.byName[strings.TrimPrefix(sp.Pkg.Path(), ModulePath+"/")] = sp
		}
	}
	for _, need := range []string{"api", "cert", "hub", "mdns", "model", "ship", "util", "ws"} {
		if p.byName[need] == nil {
			return nil, fmt.Errorf("package %s/%s not found in the loaded program", ModulePath, need)
		}
	}
	for _, e := range extraEnv {
		p.Config += e + " "
	}
	p.Config = strings.TrimSpace(p.Config)
	if p.Config == "" {
		p.Config = "default"
	}
	return p, nil
}

// Pkg returns the repo package with the given short name, or nil.
func (p *Program) Pkg(name string) *ssa.Package { return p.byName[name] }

// RepoPkgNames lists the short names of all loaded repo packages.
func (p *Program) RepoPkgNames() []string {
	var r []string
	for k := range p.byName {
		r = append(r, k)
	}
	sort.Strings(r)
	return r
}

// InRepo reports whether fn belongs to a (non-mock) repo package.
func (p *Program) InRepo(fn *ssa.Function) bool {
	pk := FuncPkg(fn)
	if pk == nil {
		return false
	}
	path := pk.Path()
	return strings.HasPrefix(path, ModulePath+"/") && path != ModulePath+"/mocks"
}

// PkgShort returns the short repo package name of fn ("ship"), or "".
func (p *Program) PkgShort(fn *ssa.Function) string {
	pk := FuncPkg(fn)
	if pk == nil {
		return ""
	}
	if strings.HasPrefix(pk.Path(), ModulePath+"/") {
		return strings.TrimPrefix(pk.Path(), ModulePath+"/")
	}
	return ""
}

// FuncPkg returns the types.Package a function (or closure) lives in.
func FuncPkg(fn *ssa.Function) *types.Package {
	for f := fn; f != nil; f = f.Parent() {
		if f.Pkg != nil {
			return f.Pkg.Pkg
		}
		if f.Object() != nil && f.Object().Pkg() != nil {
			return f.Object().Pkg()
		}
		if o := f.Origin(); o != nil && o != f {
			if o.Pkg != nil {
				return o.Pkg.Pkg
			}
		}
	}
	return nil
}

// AllFunctions returns every function of the program (cached).
func (p *Program) AllFunctions() map[*ssa.Function]bool {
	if p.allFn == nil {
		p.allFn = ssautil.AllFunctions(p.Prog)
	}
	return p.allFn
}

// FuncsOf returns all functions, methods and closures with a body in the
// given repo package, sorted by position for deterministic output.
func (p *Program) FuncsOf(pkg string) []*ssa.Function {
	sp := p.byName[pkg]
	if sp == nil {
		return nil
	}
	var out []*ssa.Function
	for fn := range p.AllFunctions() {
		if fn.Blocks == nil {
			continue
		}
		if fn.Synthetic != "" && !strings.HasPrefix(fn.Synthetic, "instance of") {
			continue
		}
		if tp := FuncPkg(fn); tp != nil && tp == sp.Pkg {
			out = append(out, fn)
		}
	}
	sort.Slice(out, func(i, j int) bool {
		if out[i].Pos() != out[j].Pos() {
			return out[i].Pos() < out[j].Pos()
		}
		return out[i].String() < out[j].String()
	})
	return out
}

// RepoFuncs returns FuncsOf for all non-mock repo packages.
func (p *Program) RepoFuncs() []*ssa.Function {
	var out []*ssa.Function
	for _, n := range p.RepoPkgNames() {
		if n == "mocks" {
			continue
		}
		out = append(out, p.FuncsOf(n)...)
	}
	return out
}

// Named returns the named type pkg.name or nil.
func (p *Program) Named(pkg, name string) *types.Named {
	sp := p.byName[pkg]
	if sp == nil {
		return nil
	}
	o := sp.Pkg.Scope().Lookup(name)
	if o == nil {
		return nil
	}
	n, _ := o.Type().(*types.Named)
	return n
}

// Field returns the struct field pkg.typ.field or nil.
func (p *Program) Field(pkg, typ, field string) *types.Var {
	n := p.Named(pkg, typ)
	if n == nil {
		return nil
	}
	st, ok := n.Underlying().(*types.Struct)
	if !ok {
		return nil
	}
	for i := 0; i < st.NumFields(); i++ {
		if st.Field(i).Name() == field {
			return st.Field(i)
		}
	}
	return nil
}

// Method returns the SSA function of method (*pkg.typ).name (or value receiver).
func (p *Program) Method(pkg, typ, name string) *ssa.Function {
	n := p.Named(pkg, typ)
	if n == nil {
		return nil
	}
	for _, t := range []types.Type{types.NewPointer(n), n} {
		ms := p.Prog.MethodSets.MethodSet(t)
		if sel := ms.Lookup(n.Obj().Pkg(), name); sel != nil {
			return p.Prog.MethodValue(sel)
		}
	}
	return nil
}

// Func returns the package-level function pkg.name or nil.
func (p *Program) Func(pkg, name string) *ssa.Function {
	sp := p.byName[pkg]
	if sp == nil {
		return nil
	}
	return sp.Func(name)
}

// IfaceMethod returns the *types.Func of interface method pkg.iface.name.
func (p *Program) IfaceMethod(pkg, iface, name string) *types.Func {
	n := p.Named(pkg, iface)
	if n == nil {
		return nil
	}
	it, ok := n.Underlying().(*types.Interface)
	if !ok {
		return nil
	}
	for i := 0; i < it.NumMethods(); i++ {
		if it.Method(i).Name() == name {
			return it.Method(i)
		}
	}
	return nil
}

// Const returns the typed constant pkg.name or nil.
func (p *Program) Const(pkg, name string) *types.Const {
	sp := p.byName[pkg]
	if sp == nil {
		return nil
	}
	c, _ := sp.Pkg.Scope().Lookup(name).(*types.Const)
	return c
}

// ConstsOfType lists all package-level constants of pkg with the given named type.
func (p *Program) ConstsOfType(pkg string, typ *types.Named) []*types.Const {
	sp := p.byName[pkg]
	if sp == nil {
		return nil
	}
	var out []*types.Const
	sc := sp.Pkg.Scope()
	for _, n := range sc.Names() {
		if c, ok := sc.Lookup(n).(*types.Const); ok && types.Identical(c.Type(), typ) {
			out = append(out, c)
		}
	}
	return out
}

// Pos renders a position relative to the repo root.
func (p *Program) Pos(pos token.Pos) string {
	if !pos.IsValid() {
		return "?"
	}
	ps := p.Fset.Position(pos)
	rel, err := filepath.Rel(p.RepoDir, ps.Filename)
	if err != nil || strings.HasPrefix(rel, "..") {
		rel = ps.Filename
	}
	return fmt.Sprintf("%s:%d", rel, ps.Line)
}

// FnName is the stable name used in reports and instance keys: package
// short name + receiver + name, closures get SSA's ordinal suffix.
func (p *Program) FnName(fn *ssa.Function) string {
	if fn == nil {
		return "<nil>"
	}
	s := fn.String()
	s = strings.ReplaceAll(s, ModulePath+"/", "")
	return s
}

// CallGraph returns the VTA call graph (seeded with CHA), built lazily.
func (p *Program) CallGraph() *callgraph.Graph {
	if p.cg == nil {
		p.cg = vta.CallGraph(p.AllFunctions(), cha.CallGraph(p.Prog))
		p.cg.DeleteSyntheticNodes()
	}
	return p.cg
}
