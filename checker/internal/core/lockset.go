package core

import (
	"go/types"
	"sort"
	"strings"

	"golang.org/x/tools/go/ssa"
)

// LockSet is a set of mutex identities (struct field or package variable).
type LockSet map[string]bool

func (l LockSet) Clone() LockSet {
	n := LockSet{}
	for k := range l {
		n[k] = true
	}
	return n
}
func (l LockSet) Intersect(o LockSet) LockSet {
	n := LockSet{}
	for k := range l {
		if o[k] {
			n[k] = true
		}
	}
	return n
}
func (l LockSet) Equal(o LockSet) bool {
	if len(l) != len(o) {
		return false
	}
	for k := range l {
		if !o[k] {
			return false
		}
	}
	return true
}
func (l LockSet) String() string {
	var s []string
	for k := range l {
		s = append(s, k)
	}
	sort.Strings(s)
	return "{" + strings.Join(s, ",") + "}"
}

// FieldID names a struct field as "pkg.Type.field".
func FieldID(f *types.Var, owner types.Type) string {
	n := NamedOf(owner)
	if n == nil {
		return f.Name()
	}
	pk := ""
	if n.Obj().Pkg() != nil {
		pk = n.Obj().Pkg().Name() + "."
	}
	return pk + n.Obj().Name() + "." + f.Name()
}

// MutexOp classifies a call as lock/unlock on a sync.Mutex / RWMutex that is
// a struct field or a package-level variable. op: +1 acquire, -1 release.
func MutexOp(in ssa.Instruction) (id string, op int, read bool) {
	c := Common(in)
	if c == nil || c.IsInvoke() {
		return "", 0, false
	}
	name := CalleeName(c)
	switch name {
	case "(*sync.Mutex).Lock", "(*sync.RWMutex).Lock":
		op = 1
	case "(*sync.RWMutex).RLock":
		op, read = 1, true
	case "(*sync.Mutex).Unlock", "(*sync.RWMutex).Unlock":
		op = -1
	case "(*sync.RWMutex).RUnlock":
		op, read = -1, true
	default:
		return "", 0, false
	}
	if len(c.Args) == 0 {
		return "", 0, false
	}
	switch a := c.Args[0].(type) {
	case *ssa.FieldAddr:
		return FieldID(FieldVar(a), a.X.Type()), op, read
	case *ssa.Global:
		return a.Pkg.Pkg.Name() + "." + a.Name(), op, read
	}
	return "?", op, read
}

// Locksets computes the must-lockset before every instruction of fn by
// forward dataflow (meet = intersection), given the lockset at entry.
// Deferred unlocks keep the lock until the function exits.
func Locksets(fn *ssa.Function, entry LockSet) map[ssa.Instruction]LockSet {
	res := map[ssa.Instruction]LockSet{}
	if len(fn.Blocks) == 0 {
		return res
	}
	in := map[*ssa.BasicBlock]LockSet{}
	in[fn.Blocks[0]] = entry.Clone()
	work := []*ssa.BasicBlock{fn.Blocks[0]}
	queued := map[*ssa.BasicBlock]bool{fn.Blocks[0]: true}
	for len(work) > 0 {
		b := work[0]
		work = work[1:]
		queued[b] = false
		cur := in[b].Clone()
		for _, ins := range b.Instrs {
			res[ins] = cur.Clone()
			if _, isDefer := ins.(*ssa.Defer); isDefer {
				continue
			}
			if _, isGo := ins.(*ssa.Go); isGo {
				continue
			}
			if id, op, read := MutexOp(ins); op != 0 {
				if read {
					id += "#R" // shared (read) mode of an RWMutex
				}
				if op > 0 {
					cur[id] = true
				} else {
					delete(cur, id)
				}
			}
		}
		for _, s := range b.Succs {
			old, ok := in[s]
			var nw LockSet
			if !ok {
				nw = cur.Clone()
			} else {
				nw = old.Intersect(cur)
			}
			if !ok || !nw.Equal(old) {
				in[s] = nw
				if !queued[s] {
					queued[s] = true
					work = append(work, s)
				}
			}
		}
	}
	return res
}
