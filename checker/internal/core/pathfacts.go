package core

import (
	"go/constant"

	"golang.org/x/tools/go/ssa"
)

// PathItem is one step of an enumerated path: an instruction, or a branch
// decision (Cond != nil) with the successor index taken.
type PathItem struct {
	In    ssa.Instruction
	Cond  ssa.Value // branch condition with negations stripped
	Truth bool      // Cond evaluates to Truth on this path
}

// EnumPathItems enumerates acyclic entry-to-return paths of fn as item
// sequences. Returns false if the bound was exceeded.
func EnumPathItems(fn *ssa.Function, max int, visit func(items []PathItem, blocks []*ssa.BasicBlock, ret *ssa.Return)) bool {
	return EnumPaths(fn, max, func(path []*ssa.BasicBlock, taken []int) {
		var items []PathItem
		var ret *ssa.Return
		infeasible := false
		for i, b := range path {
			for _, in := range b.Instrs {
				if iff, ok := in.(*ssa.If); ok {
					if i < len(taken) {
						// a short-circuit block stands for the operand supplied by the predecessor on this path
						var sc *ssa.Phi
						if i > 0 {
							if sc = shortCircuit(b); sc != nil {
								for k, pb := range b.Preds {
									if pb == path[i-1] {
										condOverride[sc] = sc.Edges[k]
										break
									}
								}
							}
						}
						v, t := Truth(iff.Cond, taken[i])
						if sc != nil {
							delete(condOverride, sc)
						}
						if c, ok := v.(*ssa.Const); ok && c.Value != nil && c.Value.Kind() == constant.Bool {
							if constant.BoolVal(c.Value) != t {
								infeasible = true
							}
							continue
						}
						items = append(items, PathItem{In: in, Cond: v, Truth: t})
					}
					continue
				}
				if r, ok := in.(*ssa.Return); ok {
					ret = r
				}
				items = append(items, PathItem{In: in})
			}
		}
		if ret != nil && !infeasible {
			visit(items, path, ret)
		}
	})
}
