package core

import "golang.org/x/tools/go/ssa"

// PathItem is one step of an enumerated path: an instruction, or a branch
// decision (Cond != nil) with the successor index taken.
type PathItem struct {
	In    ssa.Instruction
	Cond  ssa.Value // branch condition with negations stripped
	Truth bool      // Cond evaluates to Truth on this path
}

// EnumPathItems enumerates acyclic entry-to-return paths of fn as item
// sequences. Returns false if the bound was exceeded.
func EnumPathItems(fn *ssa.Function, max int, visit func(items []PathItem, blocks []*ssa.BasicBlock, ret *ssa.Return)) bool {
	return EnumPaths(fn, max, func(path []*ssa.BasicBlock, taken []int) {
		var items []PathItem
		var ret *ssa.Return
		for i, b := range path {
			for _, in := range b.Instrs {
				if iff, ok := in.(*ssa.If); ok {
					if i < len(taken) {
						v, t := Truth(iff.Cond, taken[i])
						items = append(items, PathItem{In: in, Cond: v, Truth: t})
					}
					continue
				}
				if r, ok := in.(*ssa.Return); ok {
					ret = r
				}
				items = append(items, PathItem{In: in})
			}
		}
		if ret != nil {
			visit(items, path, ret)
		}
	})
}
