package core

import (
	"go/types"
	"sort"

	"golang.org/x/tools/go/ssa"
)

// EnumPaths enumerates the acyclic entry-to-exit block paths of fn (a block
// occurs at most once per path, so loop bodies are traversed at most once).
// visit gets the block sequence and, per step, which successor index was
// taken (taken[i] is the index out of path[i]; the last block has none).
// It returns false when more than max paths exist (caller must fail closed).
func EnumPaths(fn *ssa.Function, max int, visit func(path []*ssa.BasicBlock, taken []int)) bool {
	if len(fn.Blocks) == 0 {
		return true
	}
	n := 0
	onPath := map[*ssa.BasicBlock]bool{}
	var path []*ssa.BasicBlock
	var taken []int
	ok := true
	var dfs func(b *ssa.BasicBlock)
	dfs = func(b *ssa.BasicBlock) {
		if !ok {
			return
		}
		path = append(path, b)
		onPath[b] = true
		progressed := false
		for i, s := range b.Succs {
			if onPath[s] {
				continue
			}
			progressed = true
			taken = append(taken, i)
			dfs(s)
			taken = taken[:len(taken)-1]
		}
		if len(b.Succs) == 0 || !progressed {
			if len(b.Succs) == 0 {
				n++
				if n > max {
					ok = false
				} else {
					visit(append([]*ssa.BasicBlock(nil), path...), append([]int(nil), taken...))
				}
			}
		}
		onPath[b] = false
		path = path[:len(path)-1]
	}
	dfs(fn.Blocks[0])
	return ok
}

// PhiOnPath resolves a phi's operand for the edge taken on the path.
func PhiOnPath(phi *ssa.Phi, path []*ssa.BasicBlock) ssa.Value {
	b := phi.Block()
	for i := 1; i < len(path); i++ {
		if path[i] == b {
			pred := path[i-1]
			for k, p := range b.Preds {
				if p == pred {
					return phi.Edges[k]
				}
			}
		}
	}
	return nil
}

// InLoop reports whether block b lies on a CFG cycle.
func InLoop(b *ssa.BasicBlock) bool {
	for _, s := range b.Succs {
		if ReachableFrom(s, nil)[b] {
			return true
		}
	}
	return false
}

// ---------- must-reach summaries ----------

// Must answers "does every entry-to-return path of fn pass an instruction
// satisfying pred, directly or through a static call to a repo function for
// which the same holds" with a bounded inlining depth.
type Must struct {
	P     *Program
	Pred  func(ssa.Instruction) bool
	Depth int
	// FollowGo: `go f()` counts as reaching f's body (the work is handed to a goroutine that always does it)
	FollowGo bool
	// Removed: edges that are not taken into account (exceptional exits the rule allows)
	Removed EdgeFilter
	memo    map[*ssa.Function]int // 0 unknown, 1 in progress, 2 yes, 3 no
}

func NewMust(p *Program, depth int, pred func(ssa.Instruction) bool) *Must {
	return &Must{P: p, Pred: pred, Depth: depth, memo: map[*ssa.Function]int{}}
}

// Instr reports whether instruction in itself satisfies the predicate or is
// a call (not go/defer-less: Call or Defer) whose static callee always does.
func (m *Must) Instr(in ssa.Instruction) bool {
	return m.instr(in, m.Depth)
}

func (m *Must) instr(in ssa.Instruction, depth int) bool {
	if m.Pred(in) {
		return true
	}
	switch in.(type) {
	case *ssa.Call, *ssa.Defer:
	case *ssa.Go:
		if !m.FollowGo {
			return false
		}
	default:
		return false
	}
	c := Common(in)
	if c == nil || depth <= 0 {
		return false
	}
	callee := c.StaticCallee()
	if callee == nil {
		// immediately invoked function literal
		if f := ClosureArg(c.Value); f != nil {
			callee = f
		}
	}
	if callee == nil || callee.Blocks == nil || !m.P.InRepo(callee) {
		return false
	}
	return m.fn(callee, depth-1)
}

// Fn reports whether all paths of fn pass the predicate.
func (m *Must) Fn(fn *ssa.Function) bool { return m.fn(fn, m.Depth) }

func (m *Must) fn(fn *ssa.Function, depth int) bool {
	switch m.memo[fn] {
	case 1:
		return false
	case 2:
		return true
	case 3:
		return false
	}
	m.memo[fn] = 1
	bad := MustPass(fn, nil, func(in ssa.Instruction) bool { return m.instr(in, depth) }, m.Removed)
	if bad == nil {
		m.memo[fn] = 2
		return true
	}
	m.memo[fn] = 3
	return false
}

// May answers "can fn reach an instruction satisfying pred" through static
// calls into repo functions (and function literals it creates or spawns).
type May struct {
	P    *Program
	Pred func(ssa.Instruction) bool
	memo map[*ssa.Function]int
	// FollowGo: also follow `go f()` and closures created in the function.
	FollowGo bool
}

func NewMay(p *Program, followGo bool, pred func(ssa.Instruction) bool) *May {
	return &May{P: p, Pred: pred, memo: map[*ssa.Function]int{}, FollowGo: followGo}
}

func (m *May) Fn(fn *ssa.Function) bool {
	switch m.memo[fn] {
	case 1:
		return false
	case 2:
		return true
	case 3:
		return false
	}
	m.memo[fn] = 1
	res := false
	EachInstr(fn, func(in ssa.Instruction) {
		if res {
			return
		}
		if m.Instr(in) {
			res = true
		}
	})
	if res {
		m.memo[fn] = 2
	} else {
		m.memo[fn] = 3
	}
	return res
}

func (m *May) Instr(in ssa.Instruction) bool {
	if m.Pred(in) {
		return true
	}
	if mc, ok := in.(*ssa.MakeClosure); ok && m.FollowGo {
		if f, ok := mc.Fn.(*ssa.Function); ok && m.Fn(f) {
			return true
		}
	}
	c := Common(in)
	if c == nil {
		return false
	}
	if _, isGo := in.(*ssa.Go); isGo && !m.FollowGo {
		return false
	}
	callee := c.StaticCallee()
	if callee == nil {
		if f := ClosureArg(c.Value); f != nil {
			callee = f
		}
	}
	if callee == nil || callee.Blocks == nil || !m.P.InRepo(callee) {
		return false
	}
	return m.Fn(callee)
}

// ---------- who-may-call / who-may-write ----------

// Site is an instruction with its enclosing function.
type Site struct {
	Fn *ssa.Function
	In ssa.Instruction
}

// Sites returns all instructions in the given functions satisfying pred,
// in deterministic order.
func Sites(fns []*ssa.Function, pred func(ssa.Instruction) bool) []Site {
	var out []Site
	for _, fn := range fns {
		EachInstr(fn, func(in ssa.Instruction) {
			if pred(in) {
				out = append(out, Site{fn, in})
			}
		})
	}
	sort.SliceStable(out, func(i, j int) bool { return out[i].In.Pos() < out[j].In.Pos() })
	return out
}

// IsFieldStore reports a store into field f.
func IsFieldStore(in ssa.Instruction, f *types.Var) bool {
	fv, _, _ := StoredField(in)
	return fv != nil && fv == f
}

// Enclosing returns the outermost named function a closure is nested in.
func Outermost(fn *ssa.Function) *ssa.Function {
	for fn.Parent() != nil {
		fn = fn.Parent()
	}
	return fn
}

// NestedIn reports whether fn is anc or a function literal nested in anc.
func NestedIn(fn, anc *ssa.Function) bool {
	for f := fn; f != nil; f = f.Parent() {
		if f == anc {
			return true
		}
	}
	return false
}
