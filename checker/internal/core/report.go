package core

import (
	"encoding/json"
	"fmt"
	"os"
	"path/filepath"
	"sort"
	"strings"
	"time"
)

// Instance is one rule instance (obligation) examined by a check.
type Instance struct {
	Rule string   `json:"rule"`           // e.g. "C11.R1 close-once-ownership"
	Key  string   `json:"key"`            // rule + construct, never a line number
	Pos  string   `json:"pos,omitempty"`  // file:line of the construct (informational)
	OK   bool     `json:"ok"`             // obligation discharged
	Msg  string   `json:"msg,omitempty"`  // why it holds / how it fails
	Path []string `json:"path,omitempty"` // call chain / path for path rules
}

// Report collects everything one property check examined.
type Report struct {
	Property    string
	Tier        string
	Explanation string
	Rules       map[string]string // rule id -> statement
	Instances   []Instance
	Counts      map[string]int
	Samples     []any
	Assumptions []string
	Exhaustive  bool
	Configs     []string
	start       time.Time
	seen        map[string]bool
}

func NewReport(prop, tier string) *Report {
	return &Report{Property: prop, Tier: tier, Rules: map[string]string{}, Counts: map[string]int{}, start: time.Now(), seen: map[string]bool{}}
}

// Rule declares a rule and its statement (shown in the evidence).
func (r *Report) Rule(id, statement string) { r.Rules[id] = statement }

// Add records a rule instance. Duplicate (rule,key,ok) instances are merged.
func (r *Report) Add(rule, key, pos string, ok bool, msg string, path ...string) {
	k := rule + "\x00" + key + "\x00" + fmt.Sprint(ok)
	if r.seen[k] {
		return
	}
	r.seen[k] = true
	r.Instances = append(r.Instances, Instance{Rule: rule, Key: rule + " " + key, Pos: pos, OK: ok, Msg: msg, Path: path})
}

// OKf / Fail are conveniences.
func (r *Report) OK(rule, key, pos, msg string) { r.Add(rule, key, pos, true, msg) }
func (r *Report) Fail(rule, key, pos, msg string, path ...string) {
	r.Add(rule, key, pos, false, msg, path...)
}

// Floor fails closed when a rule matched fewer instances than the mechanism
// needs in order to exist at all.
func (r *Report) Floor(rule string, min int) {
	n := 0
	for _, in := range r.Instances {
		if in.Rule == rule {
			n++
		}
	}
	if n < min {
		r.Fail(rule, "vacuous", "", fmt.Sprintf("rule matched %d instance(s), needs >= %d: the mechanism the property relies on is no longer recognisable", n, min))
	}
}

// Unresolved reports an anchor the rule could not find (fail closed).
func (r *Report) Unresolved(rule, what string) {
	r.Fail(rule, "anchor-unresolved "+what, "", "anchor not found in the resolved program: "+what)
}

func (r *Report) Sample(v any) {
	if len(r.Samples) < 40 {
		r.Samples = append(r.Samples, v)
	}
}

// KnownFindings is /verif/known_findings.json.
type KnownFindings struct {
	Known []KnownEntry `json:"known"`
	Fixed []FixedEntry `json:"fixed"`
}
type KnownEntry struct {
	Property string `json:"property"`
	Key      string `json:"key"`
	What     string `json:"what"`
}
type FixedEntry struct {
	Property string `json:"property"`
	Commit   string `json:"commit"`
	What     string `json:"what"`
}

func LoadKnown(path string) (*KnownFindings, error) {
	kf := &KnownFindings{}
	b, err := os.ReadFile(path)
	if err != nil {
		if os.IsNotExist(err) {
			return kf, nil
		}
		return nil, err
	}
	if err := json.Unmarshal(b, kf); err != nil {
		return nil, fmt.Errorf("%s: %w", path, err)
	}
	return kf, nil
}

func (k *KnownFindings) lookup(prop, key string) *KnownEntry {
	for i := range k.Known {
		if k.Known[i].Property == prop && k.Known[i].Key == key {
			return &k.Known[i]
		}
	}
	return nil
}

// Finish prints the verdict lines, writes the evidence file and replay
// files, and returns the process exit code.
func (r *Report) Finish(verifDir string, kf *KnownFindings, seed int64) int {
	sort.SliceStable(r.Instances, func(i, j int) bool {
		if r.Instances[i].Rule != r.Instances[j].Rule {
			return r.Instances[i].Rule < r.Instances[j].Rule
		}
		return r.Instances[i].Key < r.Instances[j].Key
	})
	evDir := filepath.Join(verifDir, "evidence")
	_ = os.MkdirAll(evDir, 0o755)
	vdir := filepath.Join(evDir, r.Property+".violations")
	_ = os.RemoveAll(vdir)

	obligations, discharged := 0, 0
	var violations, known []Instance
	perRule := map[string][2]int{}
	distinct := map[string]bool{}
	for _, in := range r.Instances {
		obligations++
		c := perRule[in.Rule]
		c[0]++
		if in.OK {
			discharged++
			c[1]++
		} else if kf.lookup(r.Property, in.Key) != nil {
			known = append(known, in)
		} else {
			violations = append(violations, in)
		}
		perRule[in.Rule] = c
		if in.Pos != "" || len(in.Path) > 0 {
			distinct[in.Key] = true
		}
	}
	for _, in := range known {
		fmt.Printf("KNOWN-FINDING: property=%s %s -- %s (%s)\n", r.Property, in.Key, in.Msg, in.Pos)
	}
	for i, in := range violations {
		_ = os.MkdirAll(vdir, 0o755)
		path := filepath.Join(vdir, fmt.Sprintf("%d.json", i+1))
		b, _ := json.MarshalIndent(map[string]any{"property": r.Property, "rule": in.Rule, "statement": r.Rules[in.Rule], "instance_key": in.Key, "pos": in.Pos, "msg": in.Msg, "path": in.Path}, "", " ")
		_ = os.WriteFile(path, b, 0o644)
		fmt.Printf("VIOLATION property=%s replay=%s\n", r.Property, path)
		fmt.Printf("  rule=%s key=%q at %s: %s\n", in.Rule, in.Key, in.Pos, in.Msg)
		for _, s := range in.Path {
			fmt.Printf("    %s\n", s)
		}
	}

	// evidence
	samples := r.Samples
	if len(samples) == 0 {
		for _, in := range r.Instances {
			if len(samples) >= 25 {
				break
			}
			samples = append(samples, in)
		}
	}
	rules := []map[string]any{}
	var ruleIDs []string
	for id := range r.Rules {
		ruleIDs = append(ruleIDs, id)
	}
	sort.Strings(ruleIDs)
	for _, id := range ruleIDs {
		c := perRule[id]
		rules = append(rules, map[string]any{"rule": id, "statement": r.Rules[id], "instances": c[0], "holding": c[1]})
	}
	kn := []string{}
	for _, in := range known {
		kn = append(kn, in.Key)
	}
	cov := map[string]any{
		"explanation":         r.Explanation,
		"obligations":         obligations,
		"discharged":          discharged,
		"evaluations":         obligations,
		"distinct_nontrivial": len(distinct),
		"rule":                "one evaluation = one rule instance (rule id + named construct) decided on the resolved program; non-trivial = the instance is anchored at a concrete source construct or path",
		"samples":             samples,
		"rules":               rules,
		"counts":              r.Counts,
		"known_findings":      kn,
		"configurations":      r.Configs,
		"exhaustive":          r.Exhaustive,
		"checker_cmd":         "bin/shipverif check " + r.Property + " --tier " + r.Tier,
		"trusted_base":        []string{"go/types", "go/ssa (x/tools v0.29.0)", "VTA/CHA call graph over-approximation", "contracts of stdlib, gorilla/websocket, go-avahi, zeroconf"},
	}
	ev := map[string]any{
		"property_id": r.Property,
		"tier":        r.Tier,
		"seed":        seed,
		"level":       "other",
		"coverage":    cov,
		"assumptions": append([]string{"static analysis of /repo's working tree; nothing from /repo is executed"}, r.Assumptions...),
		"wall_s":      time.Since(r.start).Seconds(),
		"violations":  len(violations),
	}
	b, _ := json.MarshalIndent(ev, "", " ")
	if err := os.WriteFile(filepath.Join(evDir, r.Property+".json"), b, 0o644); err != nil {
		fmt.Fprintln(os.Stderr, "cannot write evidence:", err)
		return 2
	}
	var rs []string
	for _, id := range ruleIDs {
		c := perRule[id]
		rs = append(rs, fmt.Sprintf("%s %d/%d", strings.SplitN(id, " ", 2)[0], c[1], c[0]))
	}
	fmt.Printf("%s tier=%s obligations=%d discharged=%d known=%d violations=%d [%s] %.1fs\n", r.Property, r.Tier, obligations, discharged, len(known), len(violations), strings.Join(rs, ", "), time.Since(r.start).Seconds())
	if len(violations) > 0 {
		return 1
	}
	return 0
}
