package core

import (
	"go/constant"
	"go/token"
	"go/types"
	"strings"

	"golang.org/x/tools/go/ssa"
)

// ---------- value canonicalisation ----------

// singleStore returns the only value stored into the alloc cell (spilled
// parameter / captured local), or nil if there is not exactly one store.
func singleStore(a *ssa.Alloc) ssa.Value {
	var val ssa.Value
	n := 0
	for _, ref := range *a.Referrers() {
		if st, ok := ref.(*ssa.Store); ok && st.Addr == a {
			n++
			val = st.Val
		}
	}
	if n == 1 {
		return val
	}
	return nil
}

// closureOf finds the MakeClosure that creates fn in its parent.
func closureOf(fn *ssa.Function) *ssa.MakeClosure {
	par := fn.Parent()
	if par == nil {
		return nil
	}
	for _, b := range par.Blocks {
		for _, in := range b.Instrs {
			if mc, ok := in.(*ssa.MakeClosure); ok && mc.Fn == fn {
				return mc
			}
		}
	}
	return nil
}

// Binding returns the value bound to a free variable at closure creation.
func Binding(fv *ssa.FreeVar) ssa.Value {
	fn := fv.Parent()
	mc := closureOf(fn)
	if mc == nil {
		return nil
	}
	for i, f := range fn.FreeVars {
		if f == fv && i < len(mc.Bindings) {
			return mc.Bindings[i]
		}
	}
	return nil
}

// Canon looks through conversions, interface boxing, spilled cells and
// closure captures, so that two SSA values denoting the same source value
// compare equal.
func Canon(v ssa.Value) ssa.Value {
	for i := 0; i < 32 && v != nil; i++ {
		switch x := v.(type) {
		case *ssa.ChangeType:
			v = x.X
		case *ssa.Convert:
			v = x.X
		case *ssa.MakeInterface:
			v = x.X
		case *ssa.ChangeInterface:
			v = x.X
		case *ssa.UnOp:
			if x.Op != token.MUL {
				return v
			}
			switch a := x.X.(type) {
			case *ssa.Alloc:
				if s := singleStore(a); s != nil {
					v = s
					continue
				}
				return v
			case *ssa.FreeVar:
				b := Binding(a)
				if al, ok := b.(*ssa.Alloc); ok {
					if s := singleStore(al); s != nil {
						v = s
						continue
					}
				}
				return v
			default:
				return v
			}
		case *ssa.FreeVar:
			if b := Binding(x); b != nil {
				v = b
				continue
			}
			return v
		case *ssa.Parameter:
			if b, ok := boundParam(x); ok {
				v = b
				continue
			}
			return v
		default:
			return v
		}
	}
	return v
}

// FieldVar returns the struct field a FieldAddr / Field instruction selects.
func FieldVar(v ssa.Value) *types.Var {
	switch x := v.(type) {
	case *ssa.FieldAddr:
		t := x.X.Type()
		if p, ok := t.Underlying().(*types.Pointer); ok {
			t = p.Elem()
		}
		if st, ok := t.Underlying().(*types.Struct); ok {
			return st.Field(x.Field)
		}
	case *ssa.Field:
		if st, ok := x.X.Type().Underlying().(*types.Struct); ok {
			return st.Field(x.Field)
		}
	}
	return nil
}

// LoadedField: if v (after Canon) is a load of a struct field, return the
// field and the base object value.
func LoadedField(v ssa.Value) (*types.Var, ssa.Value) {
	v = Canon(v)
	switch x := v.(type) {
	case *ssa.UnOp:
		if x.Op == token.MUL {
			if fa, ok := x.X.(*ssa.FieldAddr); ok {
				return FieldVar(fa), fa.X
			}
		}
	case *ssa.Field:
		return FieldVar(x), x.X
	}
	return nil, nil
}

// StoredField: if instr stores into a struct field, return field, base, value.
func StoredField(in ssa.Instruction) (*types.Var, ssa.Value, ssa.Value) {
	st, ok := in.(*ssa.Store)
	if !ok {
		return nil, nil, nil
	}
	if fa, ok := st.Addr.(*ssa.FieldAddr); ok {
		return FieldVar(fa), fa.X, st.Val
	}
	return nil, nil, nil
}

// ConstOf returns the constant value of v (after Canon) or nil.
func ConstOf(v ssa.Value) constant.Value {
	if c, ok := Canon(v).(*ssa.Const); ok && c.Value != nil {
		return c.Value
	}
	return nil
}

// IsNilConst reports whether v is the nil constant.
func IsNilConst(v ssa.Value) bool {
	c, ok := Canon(v).(*ssa.Const)
	return ok && c.Value == nil
}

// ---------- calls ----------

// Common returns the CallCommon of a Call / Go / Defer instruction.
func Common(in ssa.Instruction) *ssa.CallCommon {
	switch x := in.(type) {
	case *ssa.Call:
		return &x.Call
	case *ssa.Go:
		return &x.Call
	case *ssa.Defer:
		return &x.Call
	}
	return nil
}

// CalleeName gives "pkgpath.Func" or "(recv).Method" for a static callee,
// "iface:pkgpath.Iface.Method" for an invoke, "" otherwise.
func CalleeName(c *ssa.CallCommon) string {
	if c == nil {
		return ""
	}
	if c.IsInvoke() {
		m := c.Method
		recv := m.Type().(*types.Signature).Recv()
		tn := ""
		if recv != nil {
			if n, ok := recv.Type().(*types.Named); ok {
				tn = n.Obj().Name()
			}
		}
		pk := ""
		if m.Pkg() != nil {
			pk = m.Pkg().Path()
		}
		return "iface:" + pk + "." + tn + "." + m.Name()
	}
	if f := c.StaticCallee(); f != nil {
		if f.Object() != nil {
			return f.Object().(*types.Func).FullName()
		}
		if o := f.Origin(); o != nil && o.Object() != nil {
			return o.Object().(*types.Func).FullName()
		}
		return f.String()
	}
	return ""
}

// IsStaticCall reports whether in is a static call to the function with the
// given full name (types.Func.FullName form, e.g. "time.After",
// "(*sync.Mutex).Lock").
func IsStaticCall(in ssa.Instruction, fullName string) bool {
	c := Common(in)
	if c == nil || c.IsInvoke() {
		return false
	}
	return CalleeName(c) == fullName
}

// IsInvokeOf reports whether in invokes the given interface method (by
// identity of the *types.Func, or same name on an interface embedding it).
func IsInvokeOf(in ssa.Instruction, m *types.Func) bool {
	c := Common(in)
	if c == nil || !c.IsInvoke() || m == nil {
		return false
	}
	return c.Method == m || (c.Method.Name() == m.Name() && c.Method.Pkg() == m.Pkg() && types.Identical(c.Method.Type(), m.Type()))
}

// CallsMethodNamed reports an invoke or static method call whose method has the
// given name and whose receiver type is the named type pkgPath.typeName
// (pointer or value, interface or concrete).
func CallsMethodNamed(in ssa.Instruction, pkgPath, typeName, method string) bool {
	c := Common(in)
	if c == nil {
		return false
	}
	var fn *types.Func
	if c.IsInvoke() {
		fn = c.Method
	} else if f := c.StaticCallee(); f != nil {
		fn, _ = f.Object().(*types.Func)
	}
	if fn == nil || fn.Name() != method {
		return false
	}
	sig := fn.Type().(*types.Signature)
	if sig.Recv() == nil {
		return false
	}
	t := sig.Recv().Type()
	if p, ok := t.(*types.Pointer); ok {
		t = p.Elem()
	}
	n, ok := t.(*types.Named)
	if !ok || n.Obj().Pkg() == nil {
		return false
	}
	return n.Obj().Pkg().Path() == pkgPath && n.Obj().Name() == typeName
}

// ClosureArg: if v is a function literal (MakeClosure or plain *ssa.Function), return it.
func ClosureArg(v ssa.Value) *ssa.Function {
	switch x := v.(type) {
	case *ssa.MakeClosure:
		if f, ok := x.Fn.(*ssa.Function); ok {
			return unwrapBound(f)
		}
	case *ssa.Function:
		return unwrapBound(x)
	}
	return nil
}

// unwrapBound: a method value (x.m used as a func) is a synthetic "$bound" wrapper that only forwards to
// the method; rules want the method itself.
func unwrapBound(f *ssa.Function) *ssa.Function {
	if f.Synthetic == "" || len(f.Blocks) != 1 {
		return f
	}
	var target *ssa.Function
	n := 0
	for _, in := range f.Blocks[0].Instrs {
		if c, ok := in.(*ssa.Call); ok {
			n++
			target = c.Call.StaticCallee()
		}
	}
	if n == 1 && target != nil && target.Blocks != nil {
		return target
	}
	return f
}

// ---------- iteration ----------

// EachInstr calls f for every instruction of fn.
func EachInstr(fn *ssa.Function, f func(ssa.Instruction)) {
	for _, b := range fn.Blocks {
		for _, in := range b.Instrs {
			f(in)
		}
	}
}

// AnonsOf returns fn and all function literals nested in it.
func WithAnons(fn *ssa.Function) []*ssa.Function {
	out := []*ssa.Function{fn}
	for _, a := range fn.AnonFuncs {
		out = append(out, WithAnons(a)...)
	}
	return out
}

// ---------- CFG ----------

// If returns the terminating If of block b, or nil.
func BlockIf(b *ssa.BasicBlock) *ssa.If {
	if len(b.Instrs) == 0 {
		return nil
	}
	i, _ := b.Instrs[len(b.Instrs)-1].(*ssa.If)
	return i
}

// EdgeFilter says whether the CFG edge from->to (to == from.Succs[idx]) is removed.
type EdgeFilter func(from *ssa.BasicBlock, idx int) bool

// ReachableFrom returns blocks reachable from start (inclusive) with some edges removed.
func ReachableFrom(start *ssa.BasicBlock, removed EdgeFilter) map[*ssa.BasicBlock]bool {
	res := map[*ssa.BasicBlock]bool{start: true}
	st := node{start, -1}
	seen := map[node]bool{st: true}
	work := []node{st}
	for len(work) > 0 {
		n := work[len(work)-1]
		work = work[:len(work)-1]
		succNodes(n, removed, func(_ int, next node) {
			res[next.b] = true
			if !seen[next] {
				seen[next] = true
				work = append(work, next)
			}
		})
	}
	return res
}

// Guarded reports whether the instruction's block is unreachable from the
// function entry once all guard edges are removed, i.e. every path to the
// site takes at least one guard edge.
func Guarded(site ssa.Instruction, guard EdgeFilter) bool {
	fn := site.Parent()
	if len(fn.Blocks) == 0 {
		return false
	}
	return !ReachableFrom(fn.Blocks[0], guard)[site.Block()]
}

// condOverride: while a search traverses a "short-circuit" block (a block that
// only merges the value of an && / || expression in a phi and branches on
// it) entered through a known predecessor, the phi stands for the operand
// that predecessor supplies. Edge filters see that operand through Truth.
var condOverride = map[*ssa.Phi]ssa.Value{}

// Truth strips negations from a branch condition: returns the underlying
// value and whether taking successor idx makes that value true.
func Truth(cond ssa.Value, idx int) (ssa.Value, bool) {
	truth := idx == 0
	for i := 0; i < 16; i++ {
		if u, ok := cond.(*ssa.UnOp); ok && u.Op == token.NOT {
			cond = u.X
			truth = !truth
			continue
		}
		if phi, ok := cond.(*ssa.Phi); ok {
			if o, ok := condOverride[phi]; ok && o != nil {
				cond = o
				continue
			}
		}
		break
	}
	return cond, truth
}

// node is a CFG block, possibly specialised to the predecessor it was entered from.
type node struct {
	b   *ssa.BasicBlock
	via int // predecessor index for short-circuit blocks, -1 otherwise
}

// shortCircuit: b consists only of phis (and debug refs) followed by an If on one of its own bool phis (through negations).
func shortCircuit(b *ssa.BasicBlock) *ssa.Phi {
	iff := BlockIf(b)
	if iff == nil {
		return nil
	}
	c := iff.Cond
	for {
		if u, ok := c.(*ssa.UnOp); ok && u.Op == token.NOT {
			c = u.X
			continue
		}
		break
	}
	phi, ok := c.(*ssa.Phi)
	if !ok || phi.Block() != b {
		return nil
	}
	for _, in := range b.Instrs[:len(b.Instrs)-1] {
		switch x := in.(type) {
		case *ssa.Phi, *ssa.DebugRef:
		case *ssa.UnOp:
			if x.Op != token.NOT {
				return nil
			}
		default:
			return nil
		}
	}
	return phi
}

func enter(from *ssa.BasicBlock, succIdx int) node {
	s := from.Succs[succIdx]
	if shortCircuit(s) == nil {
		return node{s, -1}
	}
	// which predecessor slot does this edge occupy (duplicate edges keep their order)
	nth := 0
	for i := 0; i < succIdx; i++ {
		if from.Succs[i] == s {
			nth++
		}
	}
	for k, p := range s.Preds {
		if p == from {
			if nth == 0 {
				return node{s, k}
			}
			nth--
		}
	}
	return node{s, -1}
}

// succNodes enumerates the feasible, not removed out-edges of n.
func succNodes(n node, removed EdgeFilter, visit func(idx int, next node)) {
	var phi *ssa.Phi
	if n.via >= 0 {
		phi = shortCircuit(n.b)
	}
	if phi != nil {
		condOverride[phi] = phi.Edges[n.via]
		defer delete(condOverride, phi)
	}
	for i := range n.b.Succs {
		if phi != nil {
			// a constant operand decides the branch
			if iff := BlockIf(n.b); iff != nil {
				v, truth := Truth(iff.Cond, i)
				if c, ok := v.(*ssa.Const); ok && c.Value != nil && c.Value.Kind() == constant.Bool {
					if constant.BoolVal(c.Value) != truth {
						continue
					}
				}
			}
		}
		if removed != nil && removed(n.b, i) {
			continue
		}
		visit(i, enter(n.b, i))
	}
}

// PathSearch explores instruction-level paths. Starting after instruction
// `from` (or at the function entry when from == nil, fn must then be given),
// it follows the CFG; a path is cut when it meets an instruction for which
// stop() is true; it returns the first instruction for which target() is
// true that is reachable on an uncut path, or nil when none is.
func PathSearch(fn *ssa.Function, from ssa.Instruction, target, stop func(ssa.Instruction) bool, removed EdgeFilter) ssa.Instruction {
	type pt struct {
		n node
		i int
	}
	var start pt
	if from != nil {
		b := from.Block()
		idx := 0
		for k, in := range b.Instrs {
			if in == from {
				idx = k + 1
			}
		}
		start = pt{node{b, -1}, idx}
	} else {
		if len(fn.Blocks) == 0 {
			return nil
		}
		start = pt{node{fn.Blocks[0], -1}, 0}
	}
	seen := map[node]bool{}
	work := []pt{start}
	for len(work) > 0 {
		p := work[len(work)-1]
		work = work[:len(work)-1]
		cut := false
		for k := p.i; k < len(p.n.b.Instrs); k++ {
			in := p.n.b.Instrs[k]
			if stop != nil && stop(in) {
				cut = true
				break
			}
			if target(in) {
				return in
			}
		}
		if cut {
			continue
		}
		succNodes(p.n, removed, func(_ int, next node) {
			if !seen[next] {
				seen[next] = true
				work = append(work, pt{next, 0})
			}
		})
	}
	return nil
}

// IsExit reports a Return (normal function exit).
func IsReturn(in ssa.Instruction) bool { _, ok := in.(*ssa.Return); return ok }

// MustPass reports whether every path from `from` (nil = entry of fn) to a
// Return passes an instruction satisfying via. It returns the offending
// Return otherwise.
func MustPass(fn *ssa.Function, from ssa.Instruction, via func(ssa.Instruction) bool, removed EdgeFilter) ssa.Instruction {
	return PathSearch(fn, from, IsReturn, via, removed)
}

// Dominates reports whether instruction a dominates instruction b (same function).
func Dominates(a, b ssa.Instruction) bool {
	if a.Parent() != b.Parent() {
		return false
	}
	if a.Block() == b.Block() {
		for _, in := range a.Block().Instrs {
			if in == a {
				return true
			}
			if in == b {
				return false
			}
		}
	}
	return a.Block().Dominates(b.Block())
}

// ---------- misc ----------

// NamedOf returns the named type behind pointers.
func NamedOf(t types.Type) *types.Named {
	for {
		switch x := t.(type) {
		case *types.Pointer:
			t = x.Elem()
		case *types.Named:
			return x
		default:
			if a, ok := t.(*types.Alias); ok {
				t = types.Unalias(a)
				continue
			}
			return nil
		}
	}
}

// TypeIs reports whether t (behind pointers) is the named type pkgPath.name.
func TypeIs(t types.Type, pkgPath, name string) bool {
	n := NamedOf(t)
	if n == nil || n.Obj().Pkg() == nil {
		return n != nil && pkgPath == "" && n.Obj().Name() == name
	}
	return n.Obj().Pkg().Path() == pkgPath && n.Obj().Name() == name
}

// ShortPos trims a position string for keys (drops the line).
func FileOf(pos string) string {
	if i := strings.LastIndexByte(pos, ':'); i >= 0 {
		return pos[:i]
	}
	return pos
}

// ResultOf resolves the i-th result of a return. Functions with defers
// spill their results into a local cell that is stored right before
// `rundefers`; this looks through that spill.
func ResultOf(ret *ssa.Return, i int) ssa.Value {
	v := ret.Results[i]
	u, ok := v.(*ssa.UnOp)
	if !ok || u.Op != token.MUL {
		return v
	}
	al, ok := u.X.(*ssa.Alloc)
	if !ok {
		return v
	}
	b := ret.Block()
	for hops := 0; hops < 8 && b != nil; hops++ {
		start := len(b.Instrs) - 1
		for k := start; k >= 0; k-- {
			if st, ok := b.Instrs[k].(*ssa.Store); ok && st.Addr == al {
				return st.Val
			}
		}
		if len(b.Preds) == 1 {
			b = b.Preds[0]
		} else {
			b = nil
		}
	}
	return v
}

// GuardedPS is Guarded with path sensitivity for branch conditions that are
// tested more than once in the function: a path that takes the same SSA
// condition value once as true and once as false is infeasible and ignored.
func GuardedPS(site ssa.Instruction, guard EdgeFilter) bool {
	fn := site.Parent()
	if len(fn.Blocks) == 0 {
		return false
	}
	conds := branchConds(fn)
	count := map[ssa.Value]int{}
	for _, v := range conds {
		count[v]++
	}
	var multi []ssa.Value
	idx := map[ssa.Value]int{}
	for _, v := range conds { // deterministic order
		if count[v] >= 2 {
			if _, ok := idx[v]; !ok && len(multi) < 14 {
				idx[v] = len(multi)
				multi = append(multi, v)
			}
		}
	}
	type state struct {
		n   node
		asg uint32 // 2 bits per multi cond: 0 unknown, 1 true, 2 false
	}
	target := site.Block()
	start := state{node{fn.Blocks[0], -1}, 0}
	if start.n.b == target {
		return false
	}
	seen := map[state]bool{start: true}
	work := []state{start}
	reached := false
	for len(work) > 0 && !reached {
		s := work[len(work)-1]
		work = work[:len(work)-1]
		succNodes(s.n, guard, func(i int, next node) {
			na := s.asg
			if iff := BlockIf(s.n.b); iff != nil {
				var phi *ssa.Phi
				if s.n.via >= 0 {
					if phi = shortCircuit(s.n.b); phi != nil {
						condOverride[phi] = phi.Edges[s.n.via]
					}
				}
				v, truth := Truth(iff.Cond, i)
				if phi != nil {
					delete(condOverride, phi)
				}
				if k, ok := idx[v]; ok {
					cur := (na >> (2 * uint(k))) & 3
					want := uint32(2)
					if truth {
						want = 1
					}
					if cur != 0 && cur != want {
						return // infeasible
					}
					na |= want << (2 * uint(k))
				}
			}
			if next.b == target {
				reached = true
				return
			}
			ns := state{next, na}
			if !seen[ns] {
				seen[ns] = true
				work = append(work, ns)
			}
		})
	}
	return !reached
}

// branchConds lists the (negation-stripped) values functions branch on, in
// block order; a short-circuit block contributes the operands of its phi.
func branchConds(fn *ssa.Function) []ssa.Value {
	var out []ssa.Value
	strip := func(v ssa.Value) ssa.Value {
		for {
			if u, ok := v.(*ssa.UnOp); ok && u.Op == token.NOT {
				v = u.X
				continue
			}
			return v
		}
	}
	for _, b := range fn.Blocks {
		i := BlockIf(b)
		if i == nil {
			continue
		}
		if phi := shortCircuit(b); phi != nil {
			for _, e := range phi.Edges {
				if _, isConst := e.(*ssa.Const); !isConst {
					out = append(out, strip(e))
				}
			}
			continue
		}
		out = append(out, strip(i.Cond))
	}
	return out
}
