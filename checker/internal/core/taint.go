package core

import (
	"go/token"
	"go/types"

	"golang.org/x/tools/go/ssa"
)

// Taint is a small interprocedural forward value-flow analysis for string
// values: from a source value to sink operands, cut by sanitiser calls.
type Taint struct {
	P         *Program
	InScope   func(fn *ssa.Function) bool          // functions whose bodies are analysed
	Sanitizer func(c *ssa.CallCommon) bool         // the call's result is clean whatever its arguments
	Sinks     func(in ssa.Instruction) []ssa.Value // sink operands of an instruction
	memo      map[taintKey]*TaintResult
}

type taintKey struct {
	fn  *ssa.Function
	src ssa.Value
}

// TaintHit is one sink reached by the source, with the call chain.
type TaintHit struct {
	Sink  ssa.Instruction
	Chain []string
}

type TaintResult struct {
	Hits    []TaintHit
	Returns bool // the source reaches a return value
	busy    bool
}

func isStringy(t types.Type) bool {
	switch u := t.Underlying().(type) {
	case *types.Basic:
		return u.Info()&types.IsString != 0
	case *types.Slice:
		return isStringy(u.Elem())
	case *types.Interface:
		return true
	case *types.Tuple:
		for i := 0; i < u.Len(); i++ {
			if isStringy(u.At(i).Type()) {
				return true
			}
		}
	}
	return false
}

// From analyses how source value src (a Parameter or FreeVar of fn) flows.
func (t *Taint) From(fn *ssa.Function, src ssa.Value) *TaintResult {
	if t.memo == nil {
		t.memo = map[taintKey]*TaintResult{}
	}
	k := taintKey{fn, src}
	if r, ok := t.memo[k]; ok {
		return r
	}
	res := &TaintResult{busy: true}
	t.memo[k] = res
	tainted := map[ssa.Value]bool{src: true}
	work := []ssa.Value{src}
	push := func(v ssa.Value) {
		if v != nil && !tainted[v] {
			tainted[v] = true
			work = append(work, v)
		}
	}
	fname := t.P.FnName(fn)
	for len(work) > 0 {
		v := work[len(work)-1]
		work = work[:len(work)-1]
		refs := v.Referrers()
		if refs == nil {
			continue
		}
		for _, in := range *refs {
			// sinks
			for _, sv := range t.Sinks(in) {
				if sv == v {
					res.Hits = append(res.Hits, TaintHit{Sink: in, Chain: []string{fname + " @" + t.P.Pos(in.Pos())}})
				}
			}
			switch x := in.(type) {
			case *ssa.Phi, *ssa.Slice, *ssa.ChangeType, *ssa.Convert, *ssa.MakeInterface, *ssa.TypeAssert, *ssa.Extract, *ssa.Index, *ssa.IndexAddr, *ssa.Lookup:
				if val, ok := in.(ssa.Value); ok && isStringy(val.Type()) {
					push(val)
				} else if ia, ok := in.(*ssa.IndexAddr); ok {
					push(ia)
				}
			case *ssa.BinOp:
				if x.Op == token.ADD && isStringy(x.Type()) {
					push(x)
				}
			case *ssa.UnOp:
				if x.Op == token.MUL && isStringy(x.Type()) {
					push(x)
				}
			case *ssa.Store:
				if x.Val == v {
					switch a := x.Addr.(type) {
					case *ssa.Alloc:
						push(a)
					case *ssa.IndexAddr:
						push(a.X)
					}
				}
			case *ssa.Return:
				res.Returns = true
			case *ssa.MakeClosure:
				if cl, ok := x.Fn.(*ssa.Function); ok && t.InScope(cl) {
					for i, b := range x.Bindings {
						if b == v && i < len(cl.FreeVars) {
							sub := t.From(cl, cl.FreeVars[i])
							for _, h := range sub.Hits {
								res.Hits = append(res.Hits, TaintHit{Sink: h.Sink, Chain: append([]string{fname + " (closure)"}, h.Chain...)})
							}
						}
					}
				}
			case *ssa.Call, *ssa.Go, *ssa.Defer:
				c := Common(in)
				if t.Sanitizer(c) {
					continue
				}
				callee := c.StaticCallee()
				val, isVal := in.(ssa.Value)
				if callee != nil && callee.Blocks != nil && t.InScope(callee) {
					off := 0
					_ = off
					for i, a := range c.Args {
						if a != v || i >= len(callee.Params) {
							continue
						}
						sub := t.From(callee, callee.Params[i])
						for _, h := range sub.Hits {
							res.Hits = append(res.Hits, TaintHit{Sink: h.Sink, Chain: append([]string{fname + " @" + t.P.Pos(in.Pos())}, h.Chain...)})
						}
						if sub.Returns && isVal && isStringy(val.Type()) {
							push(val)
						}
					}
					continue
				}
				// unknown / external callee: string results derive from string arguments
				if isVal && isStringy(val.Type()) {
					push(val)
				}
			}
		}
	}
	res.busy = false
	return res
}
