package rules

import (
	"fmt"
	"go/constant"
	"go/token"
	"go/types"
	"sort"
	"strings"

	"golang.org/x/tools/go/ssa"

	"shipverif/internal/core"
)

func init() { register("C02", checkC02) }

const wsConnClose = "(*github.com/gorilla/websocket.Conn).Close"

// errNilEdge: edge on which the error result of call `c` (tuple index i, or
// the call itself when it returns a single error) was found nil.
func errNilEdge(c *ssa.Call, wantNil bool) core.EdgeFilter {
	return func(b *ssa.BasicBlock, idx int) bool {
		i := core.BlockIf(b)
		if i == nil {
			return false
		}
		v, truth := core.Truth(i.Cond, idx)
		bo, ok := v.(*ssa.BinOp)
		if !ok || (bo.Op != token.EQL && bo.Op != token.NEQ) {
			return false
		}
		var other ssa.Value
		if core.IsNilConst(bo.Y) {
			other = bo.X
		} else if core.IsNilConst(bo.X) {
			other = bo.Y
		} else {
			return false
		}
		if ex, ok := other.(*ssa.Extract); ok {
			if ex.Tuple != ssa.Value(c) {
				return false
			}
		} else if other != ssa.Value(c) {
			return false
		}
		isNil := truth == (bo.Op == token.EQL)
		return isNil == wantNil
	}
}

// firstPeerCert: v is PeerCertificates[0] of a tls.ConnectionState value.
func firstPeerCert(v ssa.Value) (ok bool, stateBase ssa.Value) {
	u, isU := core.Canon(v).(*ssa.UnOp)
	if !isU || u.Op != token.MUL {
		return false, nil
	}
	ia, isIA := u.X.(*ssa.IndexAddr)
	if !isIA {
		return false, nil
	}
	if k, isC := intConst(ia.Index); !isC || k != 0 {
		return false, nil
	}
	f, base := core.LoadedField(ia.X)
	if f == nil || f.Name() != "PeerCertificates" {
		// maybe a local copy of the slice
		if ex := core.Canon(ia.X); ex != nil {
			f, base = core.LoadedField(ex)
		}
	}
	if f == nil || f.Name() != "PeerCertificates" {
		return false, nil
	}
	return true, base
}

func checkC02(p *core.Program, r *core.Report) {
	const R1 = "C02.R1 identity-provenance"
	const R2 = "C02.R2 refusal-order"
	const R3 = "C02.R3 tls-server-config"
	const R4 = "C02.R4 ski-bound-to-key"
	r.Explanation = "C02 (peer identity bound to the certificate's SKI): TLS negotiation outcomes are run-time behaviour of crypto/tls; decided clauses: (R1) the SKI under which the hub creates and registers a connection derives only from cert.SkiFromCertificate applied to PeerCertificates[0] of this connection's TLS state (inbound), resp. is compared for equality with the dialled service's SKI before construction (outbound); (R2) construction of a SHIP connection is reachable only through the pass edges of the sub-protocol, client-certificate-present, SKI-extraction and (outbound) SKI-equality checks, and every refusing branch closes the socket and returns; (R3) the server's tls.Config requires a client certificate, TLS >= 1.2, the two SHIP cipher suites and a peer-certificate callback whose success return is dominated by a successful SKI extraction; (R4) SkiFromCertificate returns a SKI only on the edge where the certificate's SubjectKeyId equals the SHA-1 digest of its own public key, the generator derives the SubjectKeyId from that digest, and both sides render it with the same formatter. Not decided: negotiation results for every version/cipher offer."
	r.Rule(R1, "provenance of the remote SKI at both construction sites")
	r.Rule(R2, "guarded-by + must-close on every refusing branch, inbound and outbound")
	r.Rule(R3, "constant evaluation of the http.Server's tls.Config and of cert.CipherSuites; success of verifyPeerCertificate dominated by a successful SKI extraction")
	r.Rule(R4, "SkiFromCertificate success guarded by bytes.Equal(sha1(public key), SubjectKeyId); generator uses the same derivation")

	skiFn := p.Func("cert", "SkiFromCertificate")
	serve := p.Method("hub", "Hub", "ServeHTTP")
	a := findHub(p, r, R1)
	if skiFn == nil || serve == nil || a == nil {
		r.Unresolved(R1, "cert.SkiFromCertificate / hub.Hub.ServeHTTP")
		return
	}
	nws := p.Func("ws", "NewWebsocketConnection")
	isConstruct := func(in ssa.Instruction) bool {
		c := core.Common(in)
		return c != nil && (c.StaticCallee() == a.nch || c.StaticCallee() == nws)
	}
	hubLocal := func(f *ssa.Function) bool { return p.PkgShort(f) == "hub" && f.Blocks != nil }
	isSkiCall := func(in ssa.Instruction) bool {
		c, ok := in.(*ssa.Call)
		return ok && c.Call.StaticCallee() == skiFn
	}
	lift := func(e core.EdgeFilter) core.EdgeFilter { return core.LiftEdge(e, hubLocal, 2) }
	// ---------- inbound
	checkInboundIdentity(p, r, R1, R2)
	checkRefusalsClose(p, r, R2, serve, "inbound")
	checkSubprotocolConfig(p, r, R2, serve, a.dialFns)

	// ---------- outbound
	for _, d := range a.dialFns {
		outSki := core.ExpandSites(d, hubLocal, 2, isSkiCall)
		key := "outbound SKI extraction in " + p.FnName(d)
		if len(outSki) == 0 {
			r.Fail(R1, key, p.Pos(d.Pos()), "the dial function never validates the server certificate's SKI")
			continue
		}
		scSite := outSki[0]
		sc := scSite.In.(*ssa.Call)
		undoSc := scSite.Bind()
		okc, _ := firstPeerCert(sc.Call.Args[0])
		undoSc()
		if okc {
			r.OK(R1, key, p.Pos(sc.Pos()), "SkiFromCertificate(PeerCertificates[0])")
		} else {
			r.Fail(R1, key, p.Pos(sc.Pos()), "the outbound SKI check is not applied to the first peer certificate")
		}
		var svc ssa.Value
		for _, pa := range d.Params {
			if core.TypeIs(pa.Type(), apiPath, "ServiceDetails") {
				svc = pa
			}
		}
		// equality edge: presented == dialled
		eq := func(b *ssa.BasicBlock, idx int) bool {
			i := core.BlockIf(b)
			if i == nil || svc == nil {
				return false
			}
			v, truth := core.Truth(i.Cond, idx)
			bo, ok := v.(*ssa.BinOp)
			if !ok || (bo.Op != token.EQL && bo.Op != token.NEQ) {
				return false
			}
			if truth != (bo.Op == token.EQL) {
				return false
			}
			isDialled := func(x ssa.Value) bool {
				c, ok := core.Canon(x).(*ssa.Call)
				return ok && core.CallsMethodNamed(c, apiPath, "ServiceDetails", "SKI") && core.Canon(c.Call.Args[0]) == svc
			}
			isPresented := func(x ssa.Value) bool {
				// derives from the SKI extraction or from PeerCertificates[0].SubjectKeyId
				if derivesFrom(x, sc, 8) {
					return true
				}
				found := false
				var walk func(v ssa.Value, d int)
				walk = func(v ssa.Value, d int) {
					if d > 8 || found || v == nil {
						return
					}
					v = core.Canon(v)
					if f, base := core.LoadedField(v); f != nil && f.Name() == "SubjectKeyId" {
						if ok, _ := firstPeerCert(base); ok {
							found = true
						}
						return
					}
					switch x := v.(type) {
					case *ssa.Call:
						for _, a := range x.Call.Args {
							walk(a, d+1)
						}
					case *ssa.Slice:
						walk(x.X, d+1)
					case *ssa.MakeInterface:
						walk(x.X, d+1)
					case *ssa.Alloc:
						for _, ref := range *x.Referrers() {
							if ia, ok := ref.(*ssa.IndexAddr); ok {
								for _, r2 := range *ia.Referrers() {
									if st, ok := r2.(*ssa.Store); ok {
										walk(st.Val, d+1)
									}
								}
							}
						}
					}
				}
				walk(x, 0)
				return found
			}
			return (isDialled(bo.X) && isPresented(bo.Y)) || (isDialled(bo.Y) && isPresented(bo.X))
		}
		for _, s := range core.ExpandSites(d, hubLocal, 2, isConstruct) {
			c := core.Common(s.In)
			name := "NewWebsocketConnection"
			arg := c.Args[len(c.Args)-1]
			if c.StaticCallee() == a.nch {
				name, arg = "NewConnectionHandler", c.Args[4]
			}
			key := "outbound " + name + " SKI is the dialled service's"
			undo := s.Bind()
			call, isCall := core.Canon(arg).(*ssa.Call)
			dialled := isCall && core.CallsMethodNamed(call, apiPath, "ServiceDetails", "SKI") && core.Canon(call.Call.Args[0]) == svc
			undo()
			if dialled {
				r.OK(R1, key, p.Pos(s.In.Pos()), "created under the dialled SKI, which was compared with the presented one")
			} else {
				r.Fail(R1, key, p.Pos(s.In.Pos()), "the outbound connection is not created under the dialled service's SKI")
			}
			chk := []struct {
				name string
				e    core.EdgeFilter
				msg  string
			}{
				{"ski-extracted", errNilEdge(sc, true), "although the server certificate yields no valid SKI"},
				{"ski-equals-dialled", eq, "although the presented SKI differs from the dialled one"},
				{"server-cert-present", peerCertsPresentEdge(), "without a server certificate"},
			}
			for _, k := range chk {
				key := "outbound " + name + " guarded " + k.name
				if core.GuardedCtx(s, lift(k.e)) {
					r.OK(R2, key, p.Pos(s.In.Pos()), "construction only on the pass edge")
				} else {
					r.Fail(R2, key, p.Pos(s.In.Pos()), "an outbound SHIP connection is constructed (and SHIP messages are sent) "+k.msg)
				}
			}
		}
		checkRefusalsClose(p, r, R2, d, "outbound")
	}
	r.Floor(R1, 5)
	r.Floor(R2, 10)

	checkTLSConfig(p, r, R3, skiFn)
	checkSkiBinding(p, r, R4, skiFn)
	const R5 = "C02.R5 attributed-ski-is-the-certificates"
	r.Rule(R5, "the canonicalisation every hub identity goes through only removes separators and folds case (shared with C15.R2): anything more - e.g. a TrimLeft cutset that also eats leading '0' digits - attributes the connection to a string that is not the certificate's 40-digit SKI and refuses the genuine device on the outbound path")
	importRules(p, r, "C15", map[string]string{"C15.R2 internal-skis-canonical": R5}, func(key string) bool { return strings.Contains(key, "util.NormalizeSKI") })
}

// derivesFromThroughHub: like derivesFrom, but also follows results of hub
// helpers (ServiceForSKI(x) derives from x) and ServiceDetails.SKI() of NewServiceDetails(x).
func derivesFromThroughHub(p *core.Program, v, root ssa.Value, depth int) bool {
	return derivesFrom(v, root, depth)
}

func subprotocolEdge(p *core.Program) core.EdgeFilter {
	want := ""
	if c := p.Const("api", "ShipWebsocketSubProtocol"); c != nil {
		want = constant.StringVal(c.Val())
	}
	return func(b *ssa.BasicBlock, idx int) bool {
		i := core.BlockIf(b)
		if i == nil {
			return false
		}
		v, truth := core.Truth(i.Cond, idx)
		bo, ok := v.(*ssa.BinOp)
		if !ok || (bo.Op != token.EQL && bo.Op != token.NEQ) {
			return false
		}
		match := func(x, y ssa.Value) bool {
			c, ok := strConst(y)
			if !ok || c != want || want == "" {
				return false
			}
			call, ok := core.Canon(x).(*ssa.Call)
			return ok && core.CalleeName(&call.Call) == "(*github.com/gorilla/websocket.Conn).Subprotocol"
		}
		if !match(bo.X, bo.Y) && !match(bo.Y, bo.X) {
			return false
		}
		return truth == (bo.Op == token.EQL)
	}
}

// peerCertsPresentEdge: edge asserting len(PeerCertificates) != 0 (on any value named so, or a local copy).
func peerCertsPresentEdge() core.EdgeFilter {
	return func(b *ssa.BasicBlock, idx int) bool {
		i := core.BlockIf(b)
		if i == nil {
			return false
		}
		v, truth := core.Truth(i.Cond, idx)
		bo, ok := v.(*ssa.BinOp)
		if !ok {
			return false
		}
		lx := lenCallOf(bo.X)
		if lx == nil {
			return false
		}
		f, _ := core.LoadedField(lx)
		if f == nil || f.Name() != "PeerCertificates" {
			return false
		}
		k, isC := intConst(bo.Y)
		if !isC {
			return false
		}
		switch bo.Op {
		case token.EQL:
			return k == 0 && !truth
		case token.NEQ:
			return k == 0 && truth
		case token.GTR:
			return k == 0 && truth
		case token.LSS:
			return k == 1 && !truth
		}
		return false
	}
}

// checkRefusalsClose: every path of fn that returns without constructing a
// SHIP connection, after the websocket exists, closes the socket.
func checkRefusalsClose(p *core.Program, r *core.Report, rule string, fn *ssa.Function, dir string) {
	nch := p.Func("ship", "NewConnectionHandler")
	// the websocket exists after Upgrade / Dial succeeded: start from every instruction that obtains it
	var conns []ssa.Instruction
	core.EachInstr(fn, func(in ssa.Instruction) {
		c := core.Common(in)
		if c == nil {
			return
		}
		switch core.CalleeName(c) {
		case "(*github.com/gorilla/websocket.Upgrader).Upgrade", dialName:
			conns = append(conns, in)
		default:
			if isDialInstr(in) {
				conns = append(conns, in)
			}
		}
	})
	if len(conns) == 0 {
		r.Fail(rule, dir+" websocket acquisition in "+p.FnName(fn), p.Pos(fn.Pos()), "no Upgrade/Dial call found")
		return
	}
	mayClose := core.NewMay(p, true, func(in ssa.Instruction) bool { return core.IsStaticCall(in, wsConnClose) })
	closes := func(in ssa.Instruction) bool {
		switch in.(type) {
		case *ssa.Call, *ssa.Go, *ssa.Defer:
			return mayClose.Instr(in)
		}
		return false
	}
	mustConstruct := core.NewMust(p, 2, func(in ssa.Instruction) bool {
		c := core.Common(in)
		return c != nil && c.StaticCallee() == nch
	})
	constructs := func(in ssa.Instruction) bool {
		if _, isCall := in.(*ssa.Call); !isCall {
			return false
		}
		return mustConstruct.Instr(in)
	}
	last := conns[len(conns)-1]
	call := last.(*ssa.Call)
	// ignore the branch on which acquiring the socket failed (err != nil): nothing to close
	failed := errNilEdge(call, false)
	// for Dial there can be two attempts; the failure edge of either returns the error
	removed := failed
	if len(conns) == 2 {
		f1 := errNilEdge(conns[0].(*ssa.Call), false)
		removed = func(b *ssa.BasicBlock, idx int) bool {
			// only the second failure leaves without a socket; the first failure leads to the second attempt
			return failed(b, idx) || (f1(b, idx) && false)
		}
	}
	key := dir + " refusing paths of " + p.FnName(fn) + " close the socket"
	stop := func(in ssa.Instruction) bool { return closes(in) || constructs(in) }
	if bad := core.PathSearch(fn, last, core.IsReturn, stop, removed); bad != nil {
		r.Fail(rule, key, p.Pos(bad.Pos()), "a path that refuses the peer (returns without constructing a SHIP connection) leaves the websocket open")
	} else {
		r.OK(rule, key, p.Pos(last.Pos()), "every refusing path closes the websocket (or hands it to the closer)")
	}
}

func checkTLSConfig(p *core.Program, r *core.Report, R3 string, skiFn *ssa.Function) {
	// the tls.Config stored into an http.Server's TLSConfig field in package hub
	var cfg *ssa.Alloc
	var where *ssa.Function
	for _, fn := range p.FuncsOf("hub") {
		core.EachInstr(fn, func(in ssa.Instruction) {
			f, b, v := core.StoredField(in)
			if f == nil || f.Name() != "TLSConfig" || !core.TypeIs(b.Type(), "net/http", "Server") {
				return
			}
			if al, ok := core.Canon(v).(*ssa.Alloc); ok {
				cfg, where = al, fn
			}
		})
	}
	if cfg == nil {
		r.Fail(R3, "server tls.Config", "", "no tls.Config literal stored into an http.Server in package hub")
		return
	}
	fields := map[string]ssa.Value{}
	for _, ref := range *cfg.Referrers() {
		if fa, ok := ref.(*ssa.FieldAddr); ok {
			for _, r2 := range *fa.Referrers() {
				if st, ok := r2.(*ssa.Store); ok && st.Addr == ssa.Value(fa) {
					fields[core.FieldVar(fa).Name()] = st.Val
				}
			}
		}
	}
	num := func(name string) (int64, bool) {
		v, ok := fields[name]
		if !ok {
			return 0, true // absent = zero value
		}
		return intConst(v)
	}
	pos := p.Pos(cfg.Pos())
	if k, ok := num("ClientAuth"); ok && k >= 2 {
		r.OK(R3, "ClientAuth >= RequireAnyClientCert", pos, fmt.Sprintf("ClientAuth=%d", k))
	} else {
		r.Fail(R3, "ClientAuth >= RequireAnyClientCert", pos, fmt.Sprintf("the server does not require a client certificate (ClientAuth=%d): peers without a certificate reach the websocket handler", k))
	}
	if k, ok := num("MinVersion"); ok && k >= 0x0303 {
		r.OK(R3, "MinVersion >= TLS 1.2", pos, fmt.Sprintf("0x%04x", k))
	} else {
		r.Fail(R3, "MinVersion >= TLS 1.2", pos, fmt.Sprintf("the server accepts TLS below 1.2 (MinVersion=0x%04x)", k))
	}
	if v, ok := fields["InsecureSkipVerify"]; ok && isBoolConst(v, true) {
		// irrelevant for a server, ignore
	}
	// cipher suites
	csOK := false
	if v, ok := fields["CipherSuites"]; ok {
		if u, ok := core.Canon(v).(*ssa.UnOp); ok {
			if g, ok := u.X.(*ssa.Global); ok && g.Pkg.Pkg.Name() == "cert" {
				csOK = true
				suites := globalIntElems(p, g)
				want := []int64{0xc023, 0xc02b}
				sort.Slice(suites, func(i, j int) bool { return suites[i] < suites[j] })
				if len(suites) == 2 && suites[0] == want[0] && suites[1] == want[1] {
					r.OK(R3, "cert.CipherSuites are the SHIP suites", pos, "ECDHE-ECDSA-AES128-CBC-SHA256, ECDHE-ECDSA-AES128-GCM-SHA256")
				} else {
					r.Fail(R3, "cert.CipherSuites are the SHIP suites", pos, fmt.Sprintf("cipher suite list is %x", suites))
				}
			}
		}
	}
	if csOK {
		r.OK(R3, "CipherSuites = cert.CipherSuites", pos, "server offers only the SHIP suites")
	} else {
		r.Fail(R3, "CipherSuites = cert.CipherSuites", pos, "the server's cipher suites are not the SHIP list from package cert")
	}
	// VerifyPeerCertificate
	var vfn *ssa.Function
	if v, ok := fields["VerifyPeerCertificate"]; ok {
		if mc, ok := core.Canon(v).(*ssa.MakeClosure); ok {
			if bf, ok := mc.Fn.(*ssa.Function); ok {
				vfn = bf
				core.EachInstr(bf, func(in ssa.Instruction) {
					if c := core.Common(in); c != nil && c.StaticCallee() != nil && p.PkgShort(c.StaticCallee()) == "hub" {
						vfn = c.StaticCallee()
					}
				})
			}
		}
	}
	if vfn == nil {
		r.Fail(R3, "VerifyPeerCertificate set", pos, "no peer-certificate callback: certificates without a valid SKI pass the TLS handshake")
	} else {
		// success return (nil error) only after a successful SkiFromCertificate
		var skiCalls []*ssa.Call
		core.EachInstr(vfn, func(in ssa.Instruction) {
			if c, ok := in.(*ssa.Call); ok && c.Call.StaticCallee() == skiFn {
				skiCalls = append(skiCalls, c)
			}
		})
		success := func(b *ssa.BasicBlock, idx int) bool {
			for _, c := range skiCalls {
				if errNilEdge(c, true)(b, idx) {
					return true
				}
			}
			return false
		}
		isNilRet := func(in ssa.Instruction) bool {
			ret, ok := in.(*ssa.Return)
			if !ok || len(ret.Results) == 0 {
				return false
			}
			return core.IsNilConst(core.ResultOf(ret, len(ret.Results)-1))
		}
		key := "VerifyPeerCertificate succeeds only with a valid SKI (" + p.FnName(vfn) + ")"
		if len(skiCalls) == 0 {
			r.Fail(R3, key, p.Pos(vfn.Pos()), "the callback never extracts a SKI")
		} else if bad := core.FlagSearch(vfn, core.FlagOpts{Target: isNilRet, Removed: success}); bad != nil {
			r.Fail(R3, key, p.Pos(bad.Pos()), "the peer-certificate callback can return success although no presented certificate yielded a valid SKI")
		} else {
			r.OK(R3, key, p.Pos(vfn.Pos()), "nil is returned only after a successful SkiFromCertificate (flag-sensitive)")
		}
	}
	_ = where
}

// globalIntElems: integer constants stored into the elements of a package-level slice/array variable by the package initialiser.
func globalIntElems(p *core.Program, g *ssa.Global) []int64 {
	var out []int64
	init := g.Pkg.Func("init")
	if init == nil {
		return nil
	}
	core.EachInstr(init, func(in ssa.Instruction) {
		st, ok := in.(*ssa.Store)
		if !ok {
			return
		}
		ia, ok := st.Addr.(*ssa.IndexAddr)
		if !ok {
			return
		}
		// the array backing the slice stored into g
		al, ok := ia.X.(*ssa.Alloc)
		if !ok {
			return
		}
		feeds := false
		for _, ref := range *al.Referrers() {
			if sl, ok := ref.(*ssa.Slice); ok {
				for _, r2 := range *sl.Referrers() {
					if s2, ok := r2.(*ssa.Store); ok && s2.Addr == ssa.Value(g) {
						feeds = true
					}
				}
			}
		}
		if !feeds {
			return
		}
		if k, ok := intConst(st.Val); ok {
			out = append(out, k)
		}
	})
	return out
}

func checkSkiBinding(p *core.Program, r *core.Report, R4 string, skiFn *ssa.Function) {
	certParam := skiFn.Params[0]
	isSha1 := func(v ssa.Value) bool {
		found := false
		var walk func(v ssa.Value, d int)
		walk = func(v ssa.Value, d int) {
			if d > 8 || found || v == nil {
				return
			}
			v = core.Canon(v)
			switch x := v.(type) {
			case *ssa.Call:
				if hashed, ok := sha1Input(x); ok {
					// its input must come from the certificate
					if derivesFromCert(hashed, certParam, 10) {
						found = true
					}
					return
				}
				for _, a := range x.Call.Args {
					walk(a, d+1)
				}
			case *ssa.Slice:
				walk(x.X, d+1)
			case *ssa.Alloc:
				for _, ref := range *x.Referrers() {
					if st, ok := ref.(*ssa.Store); ok && st.Addr == ssa.Value(x) {
						walk(st.Val, d+1)
					}
				}
			case *ssa.UnOp:
				walk(x.X, d+1)
			}
		}
		walk(v, 0)
		return found
	}
	isSKIExt := func(v ssa.Value) bool {
		f, base := core.LoadedField(v)
		return f != nil && f.Name() == "SubjectKeyId" && core.Canon(base) == ssa.Value(certParam)
	}
	equalEdge := func(b *ssa.BasicBlock, idx int) bool {
		i := core.BlockIf(b)
		if i == nil {
			return false
		}
		v, truth := core.Truth(i.Cond, idx)
		c, ok := v.(*ssa.Call)
		if !ok || !truth {
			return false
		}
		n := core.CalleeName(&c.Call)
		if n != "bytes.Equal" && n != "crypto/subtle.ConstantTimeCompare" && n != "slices.Equal" {
			return false
		}
		a0, a1 := c.Call.Args[0], c.Call.Args[1]
		return (isSha1(a0) && isSKIExt(a1)) || (isSha1(a1) && isSKIExt(a0))
	}
	isSuccess := func(in ssa.Instruction) bool {
		ret, ok := in.(*ssa.Return)
		if !ok || len(ret.Results) != 2 {
			return false
		}
		return core.IsNilConst(core.ResultOf(ret, 1))
	}
	key := "cert.SkiFromCertificate returns a SKI only if it equals SHA-1(public key)"
	if bad := core.FlagSearch(skiFn, core.FlagOpts{Target: isSuccess, Removed: equalEdge}); bad != nil {
		r.Fail(R4, key, p.Pos(bad.Pos()), "a SKI is returned on a path that did not compare the certificate's SubjectKeyId with the SHA-1 digest of its own public key: a self-signed certificate carrying another device's SKI is attributed to that device")
	} else {
		r.OK(R4, key, p.Pos(skiFn.Pos()), "success only on the digest-equal edge")
	}
	// 20-byte length
	lenEdge := func(b *ssa.BasicBlock, idx int) bool {
		i := core.BlockIf(b)
		if i == nil {
			return false
		}
		v, truth := core.Truth(i.Cond, idx)
		bo, ok := v.(*ssa.BinOp)
		if !ok || (bo.Op != token.EQL && bo.Op != token.NEQ) {
			return false
		}
		lx := lenCallOf(bo.X)
		k, isC := intConst(bo.Y)
		return lx != nil && isSKIExt(lx) && isC && k == 20 && truth == (bo.Op == token.EQL)
	}
	key = "cert.SkiFromCertificate demands a 20-byte SKI"
	if bad := core.FlagSearch(skiFn, core.FlagOpts{Target: isSuccess, Removed: orEdges(lenEdge)}); bad != nil {
		// bytes.Equal with a [20]byte digest implies the length; accept when the equal edge already guards
		if core.FlagSearch(skiFn, core.FlagOpts{Target: isSuccess, Removed: equalEdge}) == nil {
			r.OK(R4, key, p.Pos(skiFn.Pos()), "implied by equality with the 20-byte digest")
		} else {
			r.Fail(R4, key, p.Pos(bad.Pos()), "a SKI of a length other than 20 bytes is accepted")
		}
	} else {
		r.OK(R4, key, p.Pos(skiFn.Pos()), "length checked")
	}
	// the returned string renders the extension bytes with %0x (lower-case hex)
	fmts := map[string]bool{}
	for _, fn := range append(p.FuncsOf("cert"), p.FuncsOf("hub")...) {
		core.EachInstr(fn, func(in ssa.Instruction) {
			c := core.Common(in)
			if c == nil || core.CalleeName(c) != "fmt.Sprintf" || len(c.Args) < 2 {
				return
			}
			f, ok := strConst(c.Args[0])
			if !ok {
				return
			}
			uses := false
			var walk func(v ssa.Value, d int)
			walk = func(v ssa.Value, d int) {
				if d > 6 || v == nil {
					return
				}
				v = core.Canon(v)
				if fl, _ := core.LoadedField(v); fl != nil && fl.Name() == "SubjectKeyId" {
					uses = true
				}
				switch x := v.(type) {
				case *ssa.Slice:
					walk(x.X, d+1)
				case *ssa.MakeInterface:
					walk(x.X, d+1)
				case *ssa.Alloc:
					for _, ref := range *x.Referrers() {
						if ia, ok := ref.(*ssa.IndexAddr); ok {
							for _, r2 := range *ia.Referrers() {
								if st, ok := r2.(*ssa.Store); ok {
									walk(st.Val, d+1)
								}
							}
						}
					}
				}
			}
			walk(c.Args[1], 0)
			if uses {
				fmts[f] = true
			}
		})
	}
	key = "SKI rendering"
	if len(fmts) == 1 && (fmts["%0x"] || fmts["%x"] || fmts["%02x"]) {
		r.OK(R4, key, "", "lower-case hex everywhere: "+fmt.Sprint(keysOf(fmts)))
	} else {
		r.Fail(R4, key, "", fmt.Sprintf("the SubjectKeyId is rendered with formats %v: reader and dial-side comparison (and the 40 lower-case hex digits form) disagree", keysOf(fmts)))
	}
	// generator
	gen := p.Func("cert", "CreateCertificate")
	if gen == nil {
		r.Unresolved(R4, "cert.CreateCertificate")
		return
	}
	n := 0
	core.EachInstr(gen, func(in ssa.Instruction) {
		f, _, v := core.StoredField(in)
		if f == nil || f.Name() != "SubjectKeyId" {
			return
		}
		n++
		key := "generator derives SubjectKeyId from SHA-1 of the public key"
		okg := false
		var walk func(v ssa.Value, d int)
		walk = func(v ssa.Value, d int) {
			if d > 8 || okg || v == nil {
				return
			}
			v = core.Canon(v)
			switch x := v.(type) {
			case *ssa.Call:
				if _, ok := sha1Input(x); ok {
					okg = true
					return
				}
				for _, a := range x.Call.Args {
					walk(a, d+1)
				}
			case *ssa.Slice:
				walk(x.X, d+1)
			case *ssa.Alloc:
				for _, ref := range *x.Referrers() {
					if st, ok := ref.(*ssa.Store); ok && st.Addr == ssa.Value(x) {
						walk(st.Val, d+1)
					}
				}
			case *ssa.UnOp:
				walk(x.X, d+1)
			}
		}
		walk(v, 0)
		// what is hashed must be the fixed-length key encoding a library function produced (ecdh PublicKey.Bytes,
		// elliptic.Marshal, the DER bit string): bytes assembled from big.Int.Bytes() drop leading zero bytes, so
		// about one key in 128 gets a SubjectKeyId the verifier's digest does not match
		if okg {
			var sum *ssa.Call
			core.EachInstr(gen, func(y ssa.Instruction) {
				if c, ok := y.(*ssa.Call); ok {
					if _, isSum := sha1Input(c); isSum {
						sum = c
					}
				}
			})
			if sum != nil {
				handBuilt := false
				seen := map[ssa.Value]bool{}
				var w2 func(v ssa.Value, d int)
				w2 = func(v ssa.Value, d int) {
					if d > 10 || v == nil || seen[v] || handBuilt {
						return
					}
					seen[v] = true
					switch x := core.Canon(v).(type) {
					case *ssa.Call:
						if core.CalleeName(&x.Call) == "(*math/big.Int).Bytes" {
							handBuilt = true
							return
						}
						if isBuiltin(x, "append") {
							for _, a := range x.Call.Args {
								w2(a, d+1)
							}
						}
					case *ssa.Slice:
						w2(x.X, d+1)
					case *ssa.Phi:
						for _, e := range x.Edges {
							w2(e, d+1)
						}
					case *ssa.Alloc:
						for _, ref := range *x.Referrers() {
							if st, ok := ref.(*ssa.Store); ok && st.Addr == ssa.Value(x) {
								w2(st.Val, d+1)
							}
						}
					case *ssa.UnOp:
						w2(x.X, d+1)
					}
				}
				hashedArg, _ := sha1Input(sum)
				w2(hashedArg, 0)
				if handBuilt {
					okg = false
					r.Fail(R4, "generator hashes the canonical key encoding", p.Pos(sum.Pos()), "the generator hashes bytes it assembled from big.Int.Bytes(): a coordinate with a leading zero byte is encoded shorter, the SubjectKeyId then differs from the SHA-1 of the certificate's public key and the library's own certificate is refused by every peer")
					return
				}
				r.OK(R4, "generator hashes the canonical key encoding", p.Pos(sum.Pos()), "library-produced fixed-length encoding")
			}
		}
		if okg {
			r.OK(R4, key, p.Pos(in.Pos()), "sha1.Sum(public key bytes)")
		} else {
			r.Fail(R4, key, p.Pos(in.Pos()), "the generator's SubjectKeyId is not the SHA-1 digest of the public key: the library's own certificates fail the binding check")
		}
	})
	if n == 0 {
		r.Fail(R4, "generator sets SubjectKeyId", p.Pos(gen.Pos()), "the generator does not set a SubjectKeyId")
	}
	_ = types.Typ
}

// derivesFromCert: v is computed from the certificate parameter (any field / method / decoding of it).
func derivesFromCert(v ssa.Value, cert ssa.Value, depth int) bool {
	if depth < 0 || v == nil {
		return false
	}
	v = core.Canon(v)
	if v == cert {
		return true
	}
	switch x := v.(type) {
	case *ssa.Call:
		for _, a := range x.Call.Args {
			if derivesFromCert(a, cert, depth-1) {
				return true
			}
		}
		if x.Call.IsInvoke() {
			return derivesFromCert(x.Call.Value, cert, depth-1)
		}
	case *ssa.UnOp:
		return derivesFromCert(x.X, cert, depth-1)
	case *ssa.FieldAddr:
		if derivesFromCert(x.X, cert, depth-1) {
			return true
		}
		// a local struct filled by asn1.Unmarshal(cert.Raw..., &local)
		if al, ok := x.X.(*ssa.Alloc); ok {
			return allocFilledFromCert(al, cert, depth-1)
		}
	case *ssa.Field:
		return derivesFromCert(x.X, cert, depth-1)
	case *ssa.Extract:
		return derivesFromCert(x.Tuple, cert, depth-1)
	case *ssa.Slice:
		return derivesFromCert(x.X, cert, depth-1)
	case *ssa.TypeAssert:
		return derivesFromCert(x.X, cert, depth-1)
	case *ssa.Alloc:
		return allocFilledFromCert(x, cert, depth-1)
	case *ssa.Phi:
		for _, e := range x.Edges {
			if derivesFromCert(e, cert, depth-1) {
				return true
			}
		}
	case *ssa.MakeInterface:
		return derivesFromCert(x.X, cert, depth-1)
	}
	return false
}

// allocFilledFromCert: a local whose address is passed to a decoder together with certificate data, or that stores certificate-derived values.
func allocFilledFromCert(al *ssa.Alloc, cert ssa.Value, depth int) bool {
	if depth < 0 {
		return false
	}
	for _, ref := range *al.Referrers() {
		switch y := ref.(type) {
		case *ssa.Store:
			if y.Addr == ssa.Value(al) && derivesFromCert(y.Val, cert, depth-1) {
				return true
			}
		case *ssa.MakeInterface:
			for _, r2 := range *y.Referrers() {
				if c, ok := r2.(*ssa.Call); ok {
					for _, a := range c.Call.Args {
						if a != ssa.Value(y) && derivesFromCert(a, cert, depth-1) {
							return true
						}
					}
				}
			}
		case *ssa.Call:
			for _, a := range y.Call.Args {
				if a != ssa.Value(al) && derivesFromCert(a, cert, depth-1) {
					return true
				}
			}
		}
	}
	return false
}

// checkSubprotocolConfig: the sub-protocol check relies on gorilla negotiating from the Upgrader's /
// Dialer's Subprotocols list: both literals must offer exactly the SHIP sub-protocol and the inbound
// Upgrade must not inject a Sec-WebSocket-Protocol response header of its own.
func checkSubprotocolConfig(p *core.Program, r *core.Report, rule string, serve *ssa.Function, dialFns []*ssa.Function) {
	want := ""
	if c := p.Const("api", "ShipWebsocketSubProtocol"); c != nil {
		want = constant.StringVal(c.Val())
	}
	offers := func(fn *ssa.Function, typeName string) (found bool, vals []string, pos token.Pos) {
		core.EachInstr(fn, func(in ssa.Instruction) {
			f, b, v := core.StoredField(in)
			if f == nil || f.Name() != "Subprotocols" || !core.TypeIs(b.Type(), "github.com/gorilla/websocket", typeName) {
				return
			}
			found, pos = true, in.Pos()
			// elements stored into the backing array of the slice
			if sl, ok := v.(*ssa.Slice); ok {
				if al, ok := sl.X.(*ssa.Alloc); ok {
					for _, ref := range *al.Referrers() {
						if ia, ok := ref.(*ssa.IndexAddr); ok {
							for _, r2 := range *ia.Referrers() {
								if st, ok := r2.(*ssa.Store); ok {
									if c, ok := strConst(st.Val); ok {
										vals = append(vals, c)
									} else {
										vals = append(vals, "?")
									}
								}
							}
						}
					}
				}
			}
		})
		return
	}
	judge := func(fn *ssa.Function, typeName, dir string) {
		found, vals, pos := offers(fn, typeName)
		key := dir + " " + typeName + ".Subprotocols in " + p.FnName(fn)
		if found && len(vals) == 1 && vals[0] == want && want != "" {
			r.OK(rule, key, p.Pos(pos), "offers exactly the SHIP sub-protocol")
		} else {
			r.Fail(rule, key, p.Pos(fn.Pos()), fmt.Sprintf("the websocket %s does not negotiate exactly the '%s' sub-protocol (Subprotocols=%v): the sub-protocol check below it no longer reflects what the peer offered", typeName, want, vals))
		}
	}
	judge(serve, "Upgrader", "inbound")
	for _, d := range dialFns {
		judge(d, "Dialer", "outbound")
	}
	core.EachInstr(serve, func(in ssa.Instruction) {
		if core.IsStaticCall(in, "(*github.com/gorilla/websocket.Upgrader).Upgrade") {
			c := core.Common(in)
			key := "inbound Upgrade response header"
			if core.IsNilConst(c.Args[len(c.Args)-1]) {
				r.OK(rule, key, p.Pos(in.Pos()), "no response header injected")
			} else {
				r.Fail(rule, key, p.Pos(in.Pos()), "Upgrade is given its own response header: a Sec-WebSocket-Protocol set there is reported by conn.Subprotocol() whatever the peer offered")
			}
		}
	})
}

// checkInboundIdentity: (R1) the inbound SKI is extracted from r.TLS.PeerCertificates[0] and both constructions
// are made under it; (R2, skipped when "") the constructions are reachable only over the pass edges of the
// SKI-extraction, sub-protocol and client-certificate checks. Shared by C02 and C01.R7.
func checkInboundIdentity(p *core.Program, r *core.Report, R1, R2 string) {
	skiFn := p.Func("cert", "SkiFromCertificate")
	serve := p.Method("hub", "Hub", "ServeHTTP")
	a := findHub(p, r, R1)
	if skiFn == nil || serve == nil || a == nil {
		r.Unresolved(R1, "cert.SkiFromCertificate / hub.Hub.ServeHTTP")
		return
	}
	nws := p.Func("ws", "NewWebsocketConnection")
	isConstruct := func(in ssa.Instruction) bool {
		c := core.Common(in)
		return c != nil && (c.StaticCallee() == a.nch || c.StaticCallee() == nws)
	}
	hubLocal := func(f *ssa.Function) bool { return p.PkgShort(f) == "hub" && f.Blocks != nil }
	isSkiCall := func(in ssa.Instruction) bool {
		c, ok := in.(*ssa.Call)
		return ok && c.Call.StaticCallee() == skiFn
	}
	lift := func(e core.EdgeFilter) core.EdgeFilter { return core.LiftEdge(e, hubLocal, 2) }
	var reqParam ssa.Value
	for _, pa := range serve.Params {
		if core.TypeIs(pa.Type(), "net/http", "Request") {
			reqParam = pa
		}
	}
	inSki := core.ExpandSites(serve, hubLocal, 2, isSkiCall)
	if len(inSki) != 1 {
		r.Fail(R1, "inbound SKI extraction", p.Pos(serve.Pos()), fmt.Sprintf("expected exactly one SkiFromCertificate call in the inbound handler, found %d", len(inSki)))
	} else {
		scSite := inSki[0]
		sc := scSite.In.(*ssa.Call)
		undo := scSite.Bind()
		ok, base := firstPeerCert(sc.Call.Args[0])
		fromReq := false
		if ok {
			// base = *r.TLS
			if f, b2 := core.LoadedField(base); f != nil && f.Name() == "TLS" && core.Canon(b2) == reqParam {
				fromReq = true
			}
		}
		undo()
		key := "inbound SKI taken from r.TLS.PeerCertificates[0]"
		if ok && fromReq {
			r.OK(R1, key, p.Pos(sc.Pos()), "the certificate whose key the peer proved possession of")
		} else {
			r.Fail(R1, key, p.Pos(sc.Pos()), "the inbound SKI is not extracted from the first peer certificate of this request's TLS state: only for that certificate possession of the key was proven; any other entry of the list is attacker-chosen data")
		}
		for _, s := range core.ExpandSites(serve, hubLocal, 2, isConstruct) {
			c := core.Common(s.In)
			arg := c.Args[len(c.Args)-1]
			name := "NewWebsocketConnection"
			if c.StaticCallee() == a.nch {
				arg, name = c.Args[4], "NewConnectionHandler"
			}
			key := "inbound " + name + " SKI derives from the extracted SKI"
			undo := s.Bind()
			der := derivesFromThroughHub(p, arg, sc, 12)
			undo()
			if der {
				r.OK(R1, key, p.Pos(s.In.Pos()), "identity = SkiFromCertificate(peer cert)")
			} else {
				r.Fail(R1, key, p.Pos(s.In.Pos()), "the connection is created under a SKI that does not derive from the presented certificate")
			}
			// R2 inbound guards
			chk := []struct {
				name string
				e    core.EdgeFilter
				msg  string
			}{
				{"ski-extracted", errNilEdge(sc, true), "without a successfully extracted SKI"},
				{"subprotocol", subprotocolEdge(p), "without the 'ship' websocket sub-protocol"},
				{"client-cert-present", peerCertsPresentEdge(), "without a client certificate"},
			}
			for _, k := range chk {
				if R2 == "" {
					break
				}
				key := "inbound " + name + " guarded " + k.name
				if core.GuardedCtx(s, lift(k.e)) {
					r.OK(R2, key, p.Pos(s.In.Pos()), "construction only on the pass edge")
				} else {
					r.Fail(R2, key, p.Pos(s.In.Pos()), "an inbound SHIP connection can be constructed "+k.msg)
				}
			}
		}
	}
}

// sha1Input: c is crypto/sha1.Sum(x), or a call of a module-local wrapper whose every return is sha1.Sum of one of
// its parameters; returns the hashed value (in terms of the caller).
func sha1Input(c *ssa.Call) (ssa.Value, bool) {
	if core.CalleeName(&c.Call) == "crypto/sha1.Sum" && len(c.Call.Args) == 1 {
		return c.Call.Args[0], true
	}
	t := c.Call.StaticCallee()
	if t == nil || t.Blocks == nil || len(t.Blocks) > 3 {
		return nil, false
	}
	var arg ssa.Value
	okAll, any := true, false
	core.EachInstr(t, func(in ssa.Instruction) {
		ret, isRet := in.(*ssa.Return)
		if !isRet || len(ret.Results) != 1 {
			return
		}
		any = true
		inner, ok := core.Canon(core.ResultOf(ret, 0)).(*ssa.Call)
		if !ok || core.CalleeName(&inner.Call) != "crypto/sha1.Sum" {
			okAll = false
			return
		}
		pa, ok := core.Canon(inner.Call.Args[0]).(*ssa.Parameter)
		if !ok {
			okAll = false
			return
		}
		for i, q := range t.Params {
			if q == pa && i < len(c.Call.Args) {
				arg = c.Call.Args[i]
			}
		}
	})
	if okAll && any && arg != nil {
		return arg, true
	}
	return nil, false
}
