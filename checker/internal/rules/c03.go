package rules

import (
	"fmt"
	"go/constant"
	"go/token"
	"go/types"
	"reflect"
	"sort"
	"strings"

	"golang.org/x/tools/go/ssa"

	"shipverif/internal/core"
)

func init() { register("C03", checkC03) }

// enumUse collects, for every string-typed named enum of package model, the
// constants package ship emits (stores into outgoing structs / passes as
// arguments) and the constants it compares incoming values against.
type enumUse struct {
	sent     map[string]map[string]token.Pos // type -> const value -> pos
	compared map[string]map[string]token.Pos
}

func collectEnumUse(p *core.Program) *enumUse {
	u := &enumUse{sent: map[string]map[string]token.Pos{}, compared: map[string]map[string]token.Pos{}}
	add := func(m map[string]map[string]token.Pos, t types.Type, c constant.Value, pos token.Pos) {
		n := core.NamedOf(t)
		if n == nil || n.Obj().Pkg() == nil || n.Obj().Pkg().Name() != "model" {
			return
		}
		if b, ok := n.Underlying().(*types.Basic); !ok || b.Info()&types.IsString == 0 {
			return
		}
		if c.Kind() != constant.String {
			return
		}
		k := n.Obj().Name()
		if m[k] == nil {
			m[k] = map[string]token.Pos{}
		}
		if _, ok := m[k][constant.StringVal(c)]; !ok {
			m[k][constant.StringVal(c)] = pos
		}
	}
	for _, fn := range p.FuncsOf("ship") {
		core.EachInstr(fn, func(in ssa.Instruction) {
			switch x := in.(type) {
			case *ssa.BinOp:
				if x.Op == token.EQL || x.Op == token.NEQ {
					if c, ok := x.Y.(*ssa.Const); ok && c.Value != nil {
						add(u.compared, c.Type(), c.Value, x.Pos())
					}
					if c, ok := x.X.(*ssa.Const); ok && c.Value != nil {
						add(u.compared, c.Type(), c.Value, x.Pos())
					}
				}
			case *ssa.Store:
				if c, ok := x.Val.(*ssa.Const); ok && c.Value != nil {
					add(u.sent, c.Type(), c.Value, x.Pos())
				}
			case *ssa.Call:
				for _, a := range x.Call.Args {
					if c, ok := a.(*ssa.Const); ok && c.Value != nil {
						add(u.sent, c.Type(), c.Value, x.Pos())
					}
				}
			}
		})
	}
	return u
}

func checkC03(p *core.Program, r *core.Report) {
	const R1 = "C03.R1 alphabet-agreement"
	const R2 = "C03.R2 trusted-implies-ready"
	const R3 = "C03.R3 progress-graph-acyclic-setup-once"
	r.Explanation = "C03 (two endpoints agree): the agreement/liveness statement over schedules of two processes is not static. Decided necessary conditions: (R1) alphabet agreement between the two roles of the same code: every discriminating wire constant package ship emits (hello phase, protocol handshake type, format, pin state, close phase) is one its own handlers compare against, the version numbers sent equal the ones demanded, every model message type sent is a type some handler decodes, and the string literals that recognise accessMethodsRequest / accessMethods are exactly the JSON member names of the model structs that produce them; (R2) the HelloState->ReadyInit decision has a positive edge for each of the three trust predicates, and the approve entry leads PendingListen->ReadyInit->ReadyListen (sends its ready); (R3) the extracted progress graph (non-terminal states) is acyclic for both roles, so every phase is passed at most once, the setup callback sits on the single Approved->Complete step and the SHIP-ID report always goes on to approve; (R4) a side that gives up closes the connection; (R5) the hello phase is only left towards HELLO_OK by the handler of a received ready hello. Not decided: agreement under delays, in-flight FIFO messages and timer interleavings."
	r.Rule(R1, "sent constants ⊆ compared constants per wire enum; sent version == demanded version; sent model types ⊆ decoded model types; access-method literals == JSON tags")
	r.Rule(R2, "each trust predicate has a positive edge straight to the ReadyInit setter; approve entry edges exist")
	r.Rule(R3, "extracted automaton without terminal states is a DAG per role; setup only on Approved->Complete")

	// ---- R1
	u := collectEnumUse(p)
	wire := []string{"ConnectionHelloPhaseType", "ProtocolHandshakeTypeType", "MessageProtocolFormatType", "PinStateType", "ConnectionClosePhaseType"}
	for _, t := range wire {
		sent, cmp := u.sent[t], u.compared[t]
		if len(sent) == 0 {
			r.Fail(R1, "enum "+t+" sent", "", "no constant of this wire enum is emitted any more")
			continue
		}
		var vals []string
		for v := range sent {
			vals = append(vals, v)
		}
		sort.Strings(vals)
		for _, v := range vals {
			key := fmt.Sprintf("enum %s value %q", t, v)
			if _, ok := cmp[v]; ok {
				r.OK(R1, key, p.Pos(sent[v]), "emitted and recognised")
			} else {
				r.Fail(R1, key, p.Pos(sent[v]), fmt.Sprintf("package ship emits %s %q but no handler compares against it: the peer role of the same code rejects or ignores it", t, v))
			}
		}
	}
	// versions: constants stored into model.Version fields vs compared
	checkVersionAgreement(p, r, R1)
	// model types sent vs decoded
	sentT, decT := map[string]token.Pos{}, map[string]token.Pos{}
	for _, fn := range p.FuncsOf("ship") {
		core.EachInstr(fn, func(in ssa.Instruction) {
			c, ok := in.(*ssa.Call)
			if !ok {
				return
			}
			for _, a := range c.Call.Args {
				if mi, ok := a.(*ssa.MakeInterface); ok {
					n := core.NamedOf(mi.X.Type())
					if n == nil || n.Obj().Pkg() == nil || n.Obj().Pkg().Name() != "model" {
						continue
					}
					if _, isStruct := n.Underlying().(*types.Struct); !isStruct {
						continue
					}
					if _, isPtr := mi.X.Type().(*types.Pointer); isPtr {
						decT[n.Obj().Name()] = in.Pos()
					} else {
						sentT[n.Obj().Name()] = in.Pos()
					}
				}
			}
		})
	}
	for _, t := range sortedKeys(sentT) {
		key := "message type " + t
		if t == "MessageProtocolHandshakeError" {
			// error notification: the receiving side fails to decode it as a handshake message and aborts, by design
			r.OK(R1, key, p.Pos(sentT[t]), "error notification (peer aborts on it)")
			continue
		}
		if _, ok := decT[t]; ok {
			r.OK(R1, key, p.Pos(sentT[t]), "sent and decoded")
		} else if t == "AccessMethodsRequest" {
			r.OK(R1, key, p.Pos(sentT[t]), "recognised by member-name literal (checked below)")
		} else {
			r.Fail(R1, key, p.Pos(sentT[t]), "package ship sends model."+t+" but never decodes it")
		}
	}
	checkAccessLiterals(p, r, R1)
	r.Floor(R1, 12)

	// ---- R2 / R3 on the automaton
	fr := getFSM(p, r, R2)
	if fr == nil {
		return
	}
	f := fr.f
	fsmCommon(fr, r)
	checkTrustDecision(p, r, f, R2)
	approve := ""
	if m := p.Method("ship", "ShipConnection", "ApprovePendingHandshake"); m != nil {
		approve = p.FnName(m)
	}
	need := [][2]string{{"SmeHelloStatePendingListen", "SmeHelloStateReadyInit"}, {"SmeHelloStateReadyInit", "SmeHelloStateReadyListen"}}
	for _, nd := range need {
		found := false
		for _, e := range f.edges {
			if e.role == 0 && f.stateName(e.from) == nd[0] && f.stateName(e.to) == nd[1] && e.entries[approve] {
				found = true
			}
		}
		key := "approve entry edge " + nd[0] + "->" + nd[1]
		if found {
			r.OK(R2, key, "", "present in the extracted automaton")
		} else {
			r.Fail(R2, key, "", "the user-approval entry no longer takes this step: an approving server never completes")
		}
	}
	checkRegisterTrust(p, r, R2)
	// complete path exists for both roles
	for role := int8(0); role < 2; role++ {
		reach := map[int8]bool{f.stIdx("CmiStateInitStart"): true}
		for changed := true; changed; {
			changed = false
			for _, e := range f.edges {
				if e.role == role && reach[e.from] && !reach[e.to] {
					reach[e.to] = true
					changed = true
				}
			}
		}
		key := "role " + f.roleName(role) + " InitStart ~> Complete"
		if reach[f.stIdx("SmeStateComplete")] {
			r.OK(R2, key, "", "completed state reachable in the extracted automaton")
		} else {
			r.Fail(R2, key, "", "the completed state is not reachable from the initial state")
		}
	}
	// R3 acyclicity
	for role := int8(0); role < 2; role++ {
		adj := map[int8][]int8{}
		for _, e := range f.edges {
			if e.role == role && !f.inT(e.from) && !f.inT(e.to) {
				adj[e.from] = append(adj[e.from], e.to)
			}
		}
		color := map[int8]int{}
		var cyc []string
		var dfs func(n int8, stack []int8)
		dfs = func(n int8, stack []int8) {
			color[n] = 1
			for _, m := range adj[n] {
				if color[m] == 1 && cyc == nil {
					for _, s := range append(stack, n, m) {
						cyc = append(cyc, f.stateName(s))
					}
				}
				if color[m] == 0 {
					dfs(m, append(stack, n))
				}
			}
			color[n] = 2
		}
		for i := range f.states {
			if color[int8(i)] == 0 {
				dfs(int8(i), nil)
			}
		}
		key := "progress graph acyclic role=" + f.roleName(role)
		if cyc == nil {
			r.OK(R3, key, "", "every phase is passed at most once")
		} else {
			r.Fail(R3, key, "", "the handshake can revisit a state: "+strings.Join(cyc, " -> "))
		}
	}
	nsetup := 0
	for _, k := range sortedKeys(f.effects) {
		if f.effects[k].kind == "setup" {
			nsetup++
		}
	}
	if nsetup == 1 {
		r.OK(R3, "single setup site", "", "one SetupRemoteDevice site")
	} else {
		r.Fail(R3, "single setup site", "", fmt.Sprintf("%d SetupRemoteDevice sites", nsetup))
	}
	for _, k := range sortedKeys(f.effects) {
		e := f.effects[k]
		if e.kind != "setup" {
			continue
		}
		st := map[string]bool{}
		for c := range e.cfgs {
			st[f.stateName(c.state)] = true
		}
		key := "setup only in state Approved (" + shortFn(e.fn) + ")"
		if len(st) == 1 && st["SmeStateApproved"] {
			r.OK(R3, key, p.Pos(e.pos), "the setup callback runs after the last progress state was entered; a timeout of the previous phase can no longer hit it")
		} else {
			r.Fail(R3, key, p.Pos(e.pos), "the remote device is set up while the connection is still in state(s) "+strings.Join(keysOf(st), ",")+": a timer of that phase can end the handshake in error while this side goes on to complete")
		}
		// exactly once: the run that sets the device up is the run that entered Approved - an entry that finds the
		// connection already in Approved (a timer expiry while the application's setup callback is still running)
		// must not reach the callback again
		stale := false
		for c := range e.cfgs {
			if !c.moved {
				stale = true
			}
		}
		key = "setup only by the run that entered Approved (" + shortFn(e.fn) + ")"
		if !stale {
			r.OK(R3, key, p.Pos(e.pos), "every run that reaches the setup callback stored the state first")
		} else {
			r.Fail(R3, key, p.Pos(e.pos), "an entry that starts with the connection already in state Approved reaches SetupRemoteDevice without a state change of its own (e.g. the dispatcher has a case for Approved): the phase timer is still running while the application's setup callback executes, so its expiry sets the remote device up a second time", "entries: "+shortFn(strings.Join(keysOf(e.entry), ", ")))
		}
	}
	// R5: HELLO_OK needs the remote side's "ready"
	const R5 = "C03.R5 hello-ok-needs-remote-ready"
	r.Rule(R5, "every transition into SmeHelloStateOk is made by a handler that decoded a received connectionHello (phase ready); entering the protocol handshake while the peer's hello is still in flight makes the late hello hit the protocol-handshake state and ends both sides")
	decodesHello := map[string]bool{}
	for _, fn := range p.FuncsOf("ship") {
		core.EachInstr(fn, func(in ssa.Instruction) {
			c, ok := in.(*ssa.Call)
			if !ok {
				return
			}
			for _, a := range c.Call.Args {
				if mi, ok := a.(*ssa.MakeInterface); ok {
					if n := core.NamedOf(mi.X.Type()); n != nil && n.Obj().Name() == "ConnectionHello" && n.Obj().Pkg() != nil && n.Obj().Pkg().Name() == "model" {
						if _, isPtr := mi.X.Type().(*types.Pointer); isPtr {
							decodesHello[p.FnName(fn)] = true
						}
					}
				}
			}
		})
	}
	nok := 0
	seenR5 := map[string]bool{}
	for _, e := range f.sortedEdges() {
		if f.stateName(e.to) != "SmeHelloStateOk" {
			continue
		}
		key := fmt.Sprintf("edge %s->SmeHelloStateOk in %s", f.stateName(e.from), shortFn(e.origin))
		if seenR5[key] {
			continue
		}
		seenR5[key] = true
		if decodesHello[e.origin] {
			nok++
			r.OK(R5, key, p.Pos(e.pos), "set by the handler of a received hello message")
		} else {
			r.Fail(R5, key, p.Pos(e.pos), "the connection moves to SmeHelloStateOk (and on into the protocol handshake) without having received the peer's ready hello on this path: a hello of the peer that is still in flight then arrives in the protocol-handshake state, is rejected, and both sides end although trust was granted", "history: server PendingListen, client's first ready (or its answer to a prolongation request) in flight; user approves; server sends ready, enters ServerListenProposal; the in-flight hello arrives -> 'Invalid protocol handshake request' -> Error on the server, transport closed, client ends too")
		}
	}
	if nok == 0 {
		r.Fail(R5, "message-driven edge into SmeHelloStateOk", "", "no hello handler sets SmeHelloStateOk")
	}

	// R6: what is done on the two edges of the "may we keep waiting for the user" predicate
	const R6 = "C03.R6 waiting-allowed-polarity"
	r.Rule(R6, "in the hello handlers, code reachable only on the AllowWaitingForTrust()==false edge never (re-)arms the wait timer or asks for prolongation, and code reachable only on the ==true edge never aborts")
	abortVal := f.states[f.stIdx("SmeHelloStateAbort")].Val()
	armFns := map[*ssa.Function]bool{}
	for _, k := range sortedKeys(f.effects) {
		if e := f.effects[k]; e.kind == "arm" {
			for _, fn := range p.FuncsOf("ship") {
				if p.FnName(fn) == e.fn {
					armFns[fn] = true
				}
			}
		}
	}
	isArmCall := func(in ssa.Instruction) bool {
		c := core.Common(in)
		if c == nil {
			return false
		}
		callee := c.StaticCallee()
		return callee != nil && armFns[callee]
	}
	isAbortCall := func(in ssa.Instruction) bool {
		c, ok := in.(*ssa.Call)
		if !ok {
			return false
		}
		for _, a := range c.Call.Args {
			if k := core.ConstOf(a); k != nil && types.Identical(a.Type(), f.stateType) && constant.Compare(k, token.EQL, abortVal) {
				return true
			}
		}
		return false
	}
	nAllow := 0
	for _, fn := range p.FuncsOf("ship") {
		for _, b := range fn.Blocks {
			iff := core.BlockIf(b)
			if iff == nil {
				continue
			}
			v, _ := core.Truth(iff.Cond, 0)
			call, ok := v.(*ssa.Call)
			if !ok || !core.IsInvokeOf(call, f.mAllow) {
				continue
			}
			nAllow++
			for idx, succ := range b.Succs {
				_, truth := core.Truth(iff.Cond, idx)
				// region: blocks dominated by the successor when it has this block as its only predecessor
				if len(succ.Preds) != 1 {
					continue
				}
				var bad ssa.Instruction
				for _, rb := range fn.Blocks {
					if !succ.Dominates(rb) {
						continue
					}
					for _, in := range rb.Instrs {
						if !truth && isArmCall(in) && bad == nil {
							bad = in
						}
						if truth && isAbortCall(in) && bad == nil {
							bad = in
						}
					}
				}
				edge := "not-allowed"
				if truth {
					edge = "allowed"
				}
				key := fmt.Sprintf("%s waiting-%s branch", shortFn(p.FnName(fn)), edge)
				if bad != nil && !truth {
					r.Fail(R6, key, p.Pos(bad.Pos()), "the wait timer is (re-)armed only when waiting for the user's decision is NOT allowed: a peer that accepted our prolongation request stops waiting after the first period, so a later approval finds the connection gone")
				} else if bad != nil {
					r.Fail(R6, key, p.Pos(bad.Pos()), "the handshake is aborted on the branch where waiting for the user's decision IS allowed")
				} else {
					r.OK(R6, key, p.Pos(iff.Pos()), "consistent with the predicate's meaning")
				}
			}
		}
	}
	if nAllow < 2 {
		r.Fail(R6, "AllowWaitingForTrust branches", "", "the hello handlers no longer consult AllowWaitingForTrust")
	}

	const R4 = "C03.R4 giving-up-closes"
	r.Rule(R4, "every path that enters a terminal state runs the close-once or spawns a goroutine that always runs it (same rule as C04.R4)")
	fsmTerminalRules(fr, r, "", R4)
	r.Floor(R4, 4)

	// R7: a timer armed from a waiting time the partner announced must fire before that time is over
	const R7 = "C03.R7 prolongation-before-partner-timeout"
	r.Rule(R7, "every handshake-timer duration that derives from the partner's announced waiting time (ConnectionHello.Waiting) is that time reduced by a positive constant: the prolongation request has to leave before the partner's own wait timer expires, else an approval given later than one waiting period finds the partner gone")
	checkWaitingReduced(p, r, R7)
	r.Floor(R7, 1)

	// R8: a side whose transport failed learns of it and ends (rules shared with C13.R2 / C13.R4)
	const R8 = "C03.R8 transport-loss-ends-the-connection"
	r.Rule(R8, "a failing transport write is reported to the SHIP layer on every path, and the SHIP layer's reaction reaches CloseConnection on every path (else one side stays completed on a dead transport while the peer has ended)")
	if a := findWS(p, r, R8); a != nil {
		checkWriteFailureReported(p, r, a, R8, "ws."+a.typ.Obj().Name())
	}
	checkShipReaction(p, r, R8)
	r.Floor(R8, 2)

	const R9 = "C03.R9 cancel-ends-both-waiting-states"
	r.Rule(R9, "the abort entry ends terminal from PendingListen and from ReadyListen, for both roles (a trusted or auto-accepting server waits in ReadyListen too): a cancel that is ignored lets both sides complete (rule shared with C10.R3)")
	checkAbortEntry(p, r, R9)
	const R10 = "C03.R10 no-lock-order-cycle"
	r.Rule(R10, "the lock-order graph of the repo has no cycle: an endpoint that deadlocks between its timer and its state mutex neither completes nor closes, while its peer gives up (rule shared with C08.R3)")
	importRules(p, r, "C08", map[string]string{"C08.R3 lock-order": R10}, nil)
	const R11 = "C03.R11 no-stale-timeout"
	r.Rule(R11, "a handshake timer that was stopped or replaced does not deliver its timeout (cancellation protocol of C14.R1-R3, R5): a stale timeout aborts a side that has just granted a prolongation, so a later approval completes nothing")
	importRules(p, r, "C14", map[string]string{"C14.R1 per-arm-token": R11, "C14.R2 non-lossy-stop": R11, "C14.R3 fire-revalidation": R11, "C14.R5 arm-always-arms": R11}, nil)
	const R14 = "C03.R14 each-learns-the-others-ship-id"
	r.Rule(R14, "a newly learned SHIP ID is stored and reported exactly once before the approval, and the report passes this connection's SKI and the id that was just stored (shared with C09.R1): each side learns the other's SHIP ID")
	importRules(p, r, "C09", map[string]string{"C09.R1 access-decision-table": R14}, func(key string) bool {
		return strings.Contains(key, "report arguments") || strings.Contains(key, "new-id-report")
	})
	const R13 = "C03.R13 giving-up-cannot-block"
	r.Rule(R13, "the hub aborts / closes a connection with none of its own mutexes held (shared with C08.R8): a cancel that lands while the transport close is being delivered ends the connection synchronously, the end report needs the registry mutex the cancelling goroutine holds - the giving-up side never closes, its peer has ended")
	importRules(p, r, "C08", map[string]string{"C08.R8 hub-calls-into-connections-are-open-calls": R13}, nil)
	const R12 = "C03.R12 trust-predicate-is-the-stored-flag"
	r.Rule(R12, "the predicate the handshake asks for trust returns exactly the trust flag stored for the SKI (shared with C01.R4): a predicate that also accepts e.g. the peer's announced auto-accept flag lets the server go ready after the user cancelled, and both sides complete")
	importRules(p, r, "C01", map[string]string{"C01.R4 hub-trust-writers": R12}, nil)
	_ = reflect.TypeOf
}

// checkWaitingReduced (C03.R7).
func checkWaitingReduced(p *core.Program, r *core.Report, R7 string) {
	ensureCallSites(p)
	fWaiting := p.Field("model", "ConnectionHelloType", "Waiting")
	if fWaiting == nil {
		r.Unresolved(R7, "model.ConnectionHelloType.Waiting")
		return
	}
	// arming functions: ship functions that start a goroutine waiting on time.After / a timer channel
	arm := map[*ssa.Function]bool{}
	for _, fn := range p.FuncsOf("ship") {
		core.EachInstr(fn, func(in ssa.Instruction) {
			g, ok := in.(*ssa.Go)
			if !ok {
				return
			}
			body := core.ClosureArg(g.Call.Value)
			if body == nil {
				body = g.Call.StaticCallee()
			}
			if body == nil || body.Blocks == nil {
				return
			}
			core.EachInstr(body, func(y ssa.Instruction) {
				if sel, ok := y.(*ssa.Select); ok {
					for _, st := range sel.States {
						if st.Dir == types.RecvOnly && isTimerChan(st.Chan) {
							arm[fn] = true
						}
					}
				}
			})
		})
	}
	if len(arm) == 0 {
		r.Unresolved(R7, "timer arming function of package ship")
		return
	}
	fromWaiting := func(v ssa.Value) bool {
		found := false
		seen := map[ssa.Value]bool{}
		var walk func(v ssa.Value, d int)
		walk = func(v ssa.Value, d int) {
			if v == nil || d > 10 || found || seen[v] {
				return
			}
			seen[v] = true
			if f, _ := core.LoadedField(v); f == fWaiting {
				found = true
				return
			}
			switch x := v.(type) {
			case *ssa.UnOp:
				walk(x.X, d+1)
			case *ssa.BinOp:
				walk(x.X, d+1)
				walk(x.Y, d+1)
			case *ssa.Convert:
				walk(x.X, d+1)
			case *ssa.ChangeType:
				walk(x.X, d+1)
			case *ssa.Phi:
				for _, e := range x.Edges {
					walk(e, d+1)
				}
			case *ssa.FieldAddr:
				if core.FieldVar(x) == fWaiting {
					found = true
				}
			case *ssa.Parameter:
				if b := core.Canon(x); b != ssa.Value(x) {
					walk(b, d+1)
				} else {
					// an unbound parameter of a helper: what its callers pass
					idx := -1
					for i, q := range x.Parent().Params {
						if q == x {
							idx = i
						}
					}
					for _, cs := range gCallSites[x.Parent()] {
						if c := core.Common(cs); c != nil && idx >= 0 && idx < len(c.Args) {
							walk(c.Args[idx], d+1)
						}
					}
				}
			case *ssa.Extract:
				walk(x.Tuple, d+1)
			case *ssa.Call:
				for _, a := range x.Call.Args {
					walk(a, d+1)
				}
			}
		}
		walk(v, 0)
		return found
	}
	// reduced: (something) - positive constant, on every incoming phi edge; helpers are followed
	var reduced func(v ssa.Value, d int) bool
	// reducedResult: every idx-th return value of the ship-local callee that derives from the waiting time is reduced
	reducedResult := func(x *ssa.Call, idx int, d int) bool {
		t := x.Call.StaticCallee()
		if t == nil || t.Blocks == nil || p.PkgShort(t) != "ship" {
			return false
		}
		undo := core.BindCall(x)
		defer undo()
		ok := true
		core.EachInstr(t, func(in ssa.Instruction) {
			if ret, isRet := in.(*ssa.Return); isRet && idx < len(ret.Results) {
				rv := core.ResultOf(ret, idx)
				if fromWaiting(rv) && !reduced(rv, d+1) {
					ok = false
				}
			}
		})
		return ok
	}
	reduced = func(v ssa.Value, d int) bool {
		if d > 6 {
			return false
		}
		switch x := v.(type) {
		case *ssa.BinOp:
			if x.Op == token.SUB {
				if k, ok := intConst(x.Y); ok && k > 0 {
					return true
				}
			}
			return false
		case *ssa.Phi:
			for _, e := range x.Edges {
				if fromWaiting(e) && !reduced(e, d+1) {
					return false
				}
			}
			return true
		case *ssa.Call:
			return reducedResult(x, 0, d)
		case *ssa.Extract:
			if c, ok := x.Tuple.(*ssa.Call); ok {
				return reducedResult(c, x.Index, d)
			}
			return false
		case *ssa.Convert:
			return reduced(x.X, d+1)
		case *ssa.ChangeType:
			return reduced(x.X, d+1)
		}
		return false
	}
	for _, fn := range p.FuncsOf("ship") {
		fn := fn
		core.EachInstr(fn, func(in ssa.Instruction) {
			c := core.Common(in)
			if c == nil || c.StaticCallee() == nil || !arm[c.StaticCallee()] {
				return
			}
			for _, a := range c.Args {
				if !core.TypeIs(a.Type(), "time", "Duration") || !fromWaiting(a) {
					continue
				}
				key := "timer armed from the partner's waiting time in " + shortFn(p.FnName(fn))
				if reduced(a, 0) {
					r.OK(R7, key, p.Pos(in.Pos()), "waiting time minus a positive constant")
				} else {
					r.Fail(R7, key, p.Pos(in.Pos()), "the timer is armed with the partner's full waiting time: the prolongation request is sent when the partner's own wait timer has already expired, so a user approval after more than one waiting period finds the connection aborted")
				}
			}
		})
	}
}

func checkVersionAgreement(p *core.Program, r *core.Report, R1 string) {
	ver := p.Named("model", "Version")
	if ver == nil {
		r.Unresolved(R1, "model.Version")
		return
	}
	st := ver.Underlying().(*types.Struct)
	sent := map[string]map[string]token.Pos{}
	cmp := map[string]map[string]token.Pos{}
	put := func(m map[string]map[string]token.Pos, f string, c constant.Value, pos token.Pos) {
		if m[f] == nil {
			m[f] = map[string]token.Pos{}
		}
		m[f][c.ExactString()] = pos
	}
	isVerField := func(v ssa.Value) string {
		var fv *types.Var
		switch x := v.(type) {
		case *ssa.FieldAddr:
			if core.NamedOf(x.X.Type()) == ver {
				fv = core.FieldVar(x)
			}
		case *ssa.Field:
			if core.NamedOf(x.X.Type()) == ver {
				fv = core.FieldVar(x)
			}
		case *ssa.UnOp:
			if fa, ok := x.X.(*ssa.FieldAddr); ok && core.NamedOf(fa.X.Type()) == ver {
				fv = core.FieldVar(fa)
			}
		}
		if fv != nil {
			return fv.Name()
		}
		return ""
	}
	_ = st
	for _, fn := range p.FuncsOf("ship") {
		core.EachInstr(fn, func(in ssa.Instruction) {
			switch x := in.(type) {
			case *ssa.Store:
				if f := isVerField(x.Addr); f != "" {
					if c := core.ConstOf(x.Val); c != nil {
						put(sent, f, c, x.Pos())
					}
				}
			case *ssa.BinOp:
				if x.Op == token.EQL || x.Op == token.NEQ {
					if f := isVerField(x.X); f != "" {
						if c := core.ConstOf(x.Y); c != nil {
							put(cmp, f, c, x.Pos())
						}
					}
				}
			}
		})
	}
	for _, f := range []string{"Major", "Minor"} {
		key := "version " + f
		s, c := sent[f], cmp[f]
		if len(s) == 0 && f == "Minor" {
			// zero value is sent when the field is not written
			s = map[string]token.Pos{"0": token.NoPos}
		}
		if len(s) == 1 && len(c) == 1 && reflect.DeepEqual(keysOfPos(s), keysOfPos(c)) {
			r.OK(R1, key, "", "sent "+keysOfPos(s)[0]+" == demanded "+keysOfPos(c)[0])
		} else {
			r.Fail(R1, key, "", fmt.Sprintf("protocol version %s sent %v but demanded %v", f, keysOfPos(s), keysOfPos(c)))
		}
	}
}

func keysOfPos(m map[string]token.Pos) []string {
	var ks []string
	for k := range m {
		ks = append(ks, k)
	}
	sort.Strings(ks)
	return ks
}

// checkAccessLiterals: string literals passed to strings.Contains in package
// ship of the form `"<name>":{` must name the JSON member of a model struct
// that package ship sends.
func checkAccessLiterals(p *core.Program, r *core.Report, R1 string) {
	tags := map[string]string{} // json member name -> model type
	sc := p.Pkg("model").Pkg.Scope()
	for _, n := range sc.Names() {
		tn, ok := sc.Lookup(n).(*types.TypeName)
		if !ok {
			continue
		}
		st, ok := tn.Type().Underlying().(*types.Struct)
		if !ok || st.NumFields() != 1 {
			continue
		}
		tag := reflect.StructTag(st.Tag(0)).Get("json")
		if i := strings.IndexByte(tag, ','); i >= 0 {
			tag = tag[:i]
		}
		if tag != "" {
			tags[tag] = n
		}
	}
	n := 0
	for _, fn := range p.FuncsOf("ship") {
		core.EachInstr(fn, func(in ssa.Instruction) {
			if !core.IsStaticCall(in, "strings.Contains") {
				return
			}
			c := core.ConstOf(core.Common(in).Args[1])
			if c == nil || c.Kind() != constant.String {
				return
			}
			lit := constant.StringVal(c)
			if !strings.HasPrefix(lit, "\"") || !strings.HasSuffix(lit, "\":{") {
				return
			}
			n++
			name := strings.TrimSuffix(strings.TrimPrefix(lit, "\""), "\":{")
			key := "member-name literal " + name
			if t, ok := tags[name]; ok {
				r.OK(R1, key, p.Pos(in.Pos()), "matches the JSON tag of model."+t)
			} else {
				r.Fail(R1, key, p.Pos(in.Pos()), "the literal used to recognise a message does not match the JSON member name of any model struct: the peer's message is never recognised")
			}
		})
	}
	if n < 2 {
		r.Fail(R1, "member-name literals", "", "the access-methods handler no longer recognises request and reply by member name")
	}
}

// checkTrustDecision: in the function where the HelloState->ReadyInit
// constant originates, each of the three trust predicates has an If whose
// positive successor leads (through jumps only) to the block with that setter call.
func checkTrustDecision(p *core.Program, r *core.Report, f *fsm, R2 string) {
	var origin string
	var pos token.Pos
	for _, e := range f.edges {
		if e.role == 0 && f.stateName(e.from) == "SmeHelloState" && f.stateName(e.to) == "SmeHelloStateReadyInit" {
			origin, pos = e.origin, e.pos
		}
	}
	if origin == "" {
		r.Fail(R2, "edge SmeHelloState->SmeHelloStateReadyInit", "", "no such edge in the extracted automaton: a trusting server can never become ready")
		return
	}
	var fn *ssa.Function
	for _, g := range p.FuncsOf("ship") {
		if p.FnName(g) == origin {
			fn = g
		}
	}
	if fn == nil {
		r.Unresolved(R2, "origin function "+origin)
		return
	}
	readyVal := f.states[f.stIdx("SmeHelloStateReadyInit")].Val()
	var target *ssa.BasicBlock
	core.EachInstr(fn, func(in ssa.Instruction) {
		c, ok := in.(*ssa.Call)
		if !ok {
			return
		}
		for _, a := range c.Call.Args {
			if k := core.ConstOf(a); k != nil && types.Identical(a.Type(), f.stateType) && constant.Compare(k, token.EQL, readyVal) {
				target = in.Block()
			}
		}
	})
	if target == nil {
		r.Unresolved(R2, "ReadyInit setter call in "+origin)
		return
	}
	leadsTo := func(b *ssa.BasicBlock) bool {
		for i := 0; i < 8; i++ {
			if b == target {
				return true
			}
			if len(b.Succs) == 1 {
				b = b.Succs[0]
				continue
			}
			return false
		}
		return false
	}
	found := map[string]bool{}
	for _, b := range fn.Blocks {
		i := core.BlockIf(b)
		if i == nil {
			continue
		}
		for idx := 0; idx < 2; idx++ {
			v, truth := core.Truth(i.Cond, idx)
			kind := ""
			if c, ok := v.(*ssa.Call); ok {
				if core.IsInvokeOf(c, f.mPaired) && truth {
					kind = "paired"
				}
				if core.IsInvokeOf(c, f.mAuto) && truth {
					kind = "autoaccept"
				}
			}
			if bo, ok := v.(*ssa.BinOp); ok && (bo.Op == token.EQL || bo.Op == token.NEQ) {
				isRole := func(x ssa.Value) bool { fl, _ := core.LoadedField(x); return fl == f.fRole }
				var other ssa.Value
				if isRole(bo.X) {
					other = bo.Y
				} else if isRole(bo.Y) {
					other = bo.X
				}
				if other != nil {
					if c := core.ConstOf(other); c != nil && constant.Compare(c, token.EQL, f.roleClient) && truth == (bo.Op == token.EQL) {
						kind = "role-client"
					}
				}
			}
			if kind != "" && leadsTo(b.Succs[idx]) {
				found[kind] = true
			}
		}
	}
	for _, k := range []string{"paired", "autoaccept", "role-client"} {
		key := "HelloState ready decision honours " + k
		if found[k] {
			r.OK(R2, key, p.Pos(pos), "positive edge leads to the ReadyInit setter")
		} else {
			r.Fail(R2, key, p.Pos(pos), "the ready-vs-pending decision no longer goes to ReadyInit when '"+k+"' holds: a trusted pair does not complete")
		}
	}
}
