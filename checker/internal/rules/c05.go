package rules

import (
	"fmt"
	"go/constant"
	"go/token"
	"go/types"
	"strings"

	"golang.org/x/tools/go/ssa"

	"shipverif/internal/core"
)

func checkC05(p *core.Program, r *core.Report) {
	const R1 = "C05.R1 double-connection-rule-antisymmetric"
	const R2 = "C05.R2 attempt-flag-released"
	const R3 = "C05.R3 reconnect-trigger"
	const R4 = "C05.R4 construct-run-register"
	const R5 = "C05.R5 connection-end-always-reported"
	r.Explanation = "C05 (mutually paired peers converge to one connection): convergence in bounded time over two processes is not static. Decided necessary conditions in package hub: (R1) the double-connection decision touches the two SKIs only through ordered comparisons, so with an existing connection it is a function of (incoming?, order(remote,local)); its acyclic paths are enumerated and evaluated on all abstract inputs: the initiator and the acceptor of the same physical connection decide alike (f(out,o) == f(in,flip o)) and of two simultaneous connections exactly one survives (f(out,LT) != f(out,GT)); keep-paths close the existing connection; (R2) after the attempt-running flag is set every path hands over to a function that clears it on all paths; (R3) the hub's HandleConnectionClosed reaches the re-announce routine on every path with handshakeCompleted or Trusted(), and that routine reaches both AnnounceMdnsEntry and RequestMdnsEntries; (R4) from each NewConnectionHandler in hub every path runs the handshake and stores the connection in the registry under its SKI, unconditionally; (R5) the SHIP close routine reports the connection end exactly once on every path (else the registry entry of a dead connection blocks every reconnect). Not decided: timing/back-off, convergence under disturbance sequences, payload flow."
	r.Rule(R1, "exhaustive evaluation of the keep/drop decision over {incoming,outgoing} x {remote<local, remote>local}")
	r.Rule(R2, "store true into connectionAttemptRunning => all paths reach (call or go) a function whose all paths store false")
	r.Rule(R3, "HandleConnectionClosed => checkAutoReannounce unless (not completed and not trusted); re-announce routine announces and requests entries")
	r.Rule(R4, "NewConnectionHandler => Run() => connections[conn.RemoteSKI()] = conn on all paths, store unconditional")
	r.Rule(R5, "shutdownOnce body: exactly one HandleConnectionClosed per path (shared with C11.R2)")
	a := findHub(p, r, R1)
	if a == nil {
		return
	}
	checkKeepRule(p, r, a, R1)

	// ---- R2
	fRun := p.Field("hub", "Hub", "connectionAttemptRunning")
	if fRun == nil {
		r.Unresolved(R2, "hub.Hub.connectionAttemptRunning")
	} else {
		// setter: function storing a parameter into the map
		setters := map[*ssa.Function]int{} // fn -> index of the bool parameter stored
		for _, fn := range a.fns {
			core.EachInstr(fn, func(in ssa.Instruction) {
				mu, ok := in.(*ssa.MapUpdate)
				if !ok {
					return
				}
				if f, _ := core.LoadedField(mu.Map); f != fRun {
					return
				}
				for i, pa := range fn.Params {
					if core.Canon(mu.Value) == ssa.Value(pa) {
						setters[fn] = i
					}
				}
			})
		}
		setsTo := func(in ssa.Instruction, val bool) bool {
			if mu, ok := in.(*ssa.MapUpdate); ok {
				if f, _ := core.LoadedField(mu.Map); f == fRun && isBoolConst(mu.Value, val) {
					return true
				}
			}
			c := core.Common(in)
			if c == nil {
				return false
			}
			if _, isGo := in.(*ssa.Go); isGo {
				return false
			}
			if idx, ok := setters[c.StaticCallee()]; ok && idx < len(c.Args) && isBoolConst(c.Args[idx], val) {
				return true
			}
			return false
		}
		clears := core.NewMust(p, 4, func(in ssa.Instruction) bool { return setsTo(in, false) })
		clears.FollowGo = true
		n := 0
		for _, fn := range a.fns {
			core.EachInstr(fn, func(in ssa.Instruction) {
				if !setsTo(in, true) {
					return
				}
				n++
				key := "attempt flag set in " + p.FnName(fn)
				if bad := core.PathSearch(fn, in, core.IsReturn, clears.Instr, nil); bad != nil {
					r.Fail(R2, key, p.Pos(in.Pos()), "after marking a connection attempt as running a path returns without handing over to code that always clears the mark: every later dial to this SKI is suppressed")
				} else {
					r.OK(R2, key, p.Pos(in.Pos()), "every path reaches a function that clears the flag on all its paths")
				}
			})
		}
		if n == 0 {
			r.Fail(R2, "attempt flag set sites", "", "the attempt-running flag is never set")
		}
	}

	// the attempt counter is only advanced on paths that also schedule the attempt it belongs to
	fCnt := p.Field("hub", "Hub", "connectionAttemptCounter")
	if fCnt != nil {
		bumps := core.NewMay(p, false, func(in ssa.Instruction) bool {
			mu, ok := in.(*ssa.MapUpdate)
			if !ok {
				return false
			}
			f, _ := core.LoadedField(mu.Map)
			return f == fCnt
		})
		mayDial := core.NewMay(p, true, func(in ssa.Instruction) bool { return core.IsStaticCall(in, dialName) })
		schedules := func(in ssa.Instruction) bool {
			switch in.(type) {
			case *ssa.Go, *ssa.Call:
				return mayDial.Instr(in)
			}
			return false
		}
		nb := 0
		for _, fn := range a.fns {
			// only the coordinating level: functions that both bump (through a callee) and schedule
			core.EachInstr(fn, func(in ssa.Instruction) {
				c, ok := in.(*ssa.Call)
				if !ok || c.Call.StaticCallee() == nil || !bumps.Fn(c.Call.StaticCallee()) || mayDial.Fn(c.Call.StaticCallee()) {
					return
				}
				has := false
				core.EachInstr(fn, func(y ssa.Instruction) {
					if schedules(y) {
						has = true
					}
				})
				if !has {
					return
				}
				nb++
				key := "attempt counter advanced in " + p.FnName(fn)
				if bad := core.PathSearch(fn, in, core.IsReturn, schedules, nil); bad != nil {
					r.Fail(R2, key, p.Pos(in.Pos()), "the attempt counter is advanced on a path that returns without scheduling an attempt: the attempt that is already pending no longer matches the counter when it fires and is dropped silently - nobody dials")
				} else {
					r.OK(R2, key, p.Pos(in.Pos()), "every path from the increment schedules the attempt")
				}
			})
		}
		if nb == 0 {
			r.Fail(R2, "attempt counter advance", "", "no coordinating function advances the attempt counter")
		}
	}

	// ---- R3
	hcc := p.Method("hub", "Hub", "HandleConnectionClosed")
	mAnn := p.IfaceMethod("api", "MdnsInterface", "AnnounceMdnsEntry")
	mReq := p.IfaceMethod("api", "MdnsInterface", "RequestMdnsEntries")
	if hcc == nil || mAnn == nil || mReq == nil {
		r.Unresolved(R3, "hub.HandleConnectionClosed / MdnsInterface")
	} else {
		isAnn := func(in ssa.Instruction) bool { return core.IsInvokeOf(in, mAnn) }
		isReq := func(in ssa.Instruction) bool { return core.IsInvokeOf(in, mReq) }
		mayAnn := core.NewMay(p, false, isAnn)
		mayReq := core.NewMay(p, false, isReq)
		// edge asserting Trusted() == false
		untrusted := func(b *ssa.BasicBlock, idx int) bool {
			i := core.BlockIf(b)
			if i == nil {
				return false
			}
			v, truth := core.Truth(i.Cond, idx)
			c, ok := v.(*ssa.Call)
			return ok && !truth && core.CallsMethodNamed(c, apiPath, "ServiceDetails", "Trusted")
		}
		reann := func(in ssa.Instruction) bool {
			if _, ok := in.(*ssa.Call); !ok {
				return false
			}
			return mayAnn.Instr(in) && mayReq.Instr(in)
		}
		key := "hub.HandleConnectionClosed re-announces unless untrusted-and-incomplete"
		if bad := core.MustPass(hcc, nil, reann, untrusted); bad != nil {
			r.Fail(R3, key, p.Pos(bad.Pos()), "a path of HandleConnectionClosed for a trusted or completed connection returns without re-announcing / re-requesting mDNS entries: the pair never reconnects")
		} else {
			r.OK(R3, key, p.Pos(hcc.Pos()), "every such path reaches the re-announce routine")
		}
		// the untrusted exit must also require !handshakeCompleted
		var completed ssa.Value
		for _, pa := range hcc.Params {
			if b, ok := pa.Type().Underlying().(*types.Basic); ok && b.Kind() == types.Bool {
				completed = pa
			}
		}
		notCompleted := func(b *ssa.BasicBlock, idx int) bool {
			i := core.BlockIf(b)
			if i == nil || completed == nil {
				return false
			}
			v, truth := core.Truth(i.Cond, idx)
			return core.Canon(v) == completed && !truth
		}
		key = "hub.HandleConnectionClosed re-announces after a completed handshake"
		if bad := core.MustPass(hcc, nil, reann, notCompleted); bad != nil {
			r.Fail(R3, key, p.Pos(bad.Pos()), "a completed connection's end does not always lead to the re-announce routine")
		} else {
			r.OK(R3, key, p.Pos(hcc.Pos()), "holds")
		}
		// routine: both invokes present, in a function comparing paired > connected
		found := false
		for _, fn := range a.fns {
			hasA, hasR := false, false
			core.EachInstr(fn, func(in ssa.Instruction) {
				if isAnn(in) {
					hasA = true
				}
				if isReq(in) {
					hasR = true
				}
			})
			if hasA && hasR {
				found = true
				// both under the same guard: request reachable from announce without branching away
				var ann ssa.Instruction
				core.EachInstr(fn, func(in ssa.Instruction) {
					if isAnn(in) {
						ann = in
					}
				})
				key := "re-announce routine " + p.FnName(fn) + " announces and requests"
				if bad := core.PathSearch(fn, ann, core.IsReturn, isReq, nil); bad != nil {
					r.Fail(R3, key, p.Pos(ann.Pos()), "after announcing, the routine can return without requesting the known mDNS entries")
				} else {
					r.OK(R3, key, p.Pos(ann.Pos()), "announce is always followed by the request for known entries")
				}
			}
		}
		if !found {
			r.Fail(R3, "re-announce routine", "", "no hub function both announces and requests mDNS entries")
		}
	}

	// ---- R4
	fConns := p.Field("hub", "Hub", "connections")
	run := p.Method("ship", "ShipConnection", "Run")
	if fConns == nil || run == nil {
		r.Unresolved(R4, "hub.Hub.connections / ship.ShipConnection.Run")
	} else {
		isRegStore := func(in ssa.Instruction) bool {
			mu, ok := in.(*ssa.MapUpdate)
			if !ok {
				return false
			}
			f, _ := core.LoadedField(mu.Map)
			return f == fConns
		}
		mustReg := core.NewMust(p, 3, isRegStore)
		n := 0
		for _, s := range core.Sites(a.fns, func(in ssa.Instruction) bool {
			c := core.Common(in)
			return c != nil && c.StaticCallee() == a.nch
		}) {
			n++
			conn := s.In.(ssa.Value)
			isRun := func(in ssa.Instruction) bool {
				c := core.Common(in)
				if c == nil || c.StaticCallee() != run {
					return false
				}
				if _, isGo := in.(*ssa.Go); isGo {
					return false
				}
				return core.Canon(c.Args[0]) == conn
			}
			isReg := func(in ssa.Instruction) bool {
				if _, ok := in.(*ssa.Call); !ok {
					return isRegStore(in)
				}
				c := core.Common(in)
				passes := false
				for _, a := range c.Args {
					if core.Canon(a) == conn {
						passes = true
					}
				}
				return passes && mustReg.Instr(in)
			}
			key := "construction in " + p.FnName(s.Fn)
			if bad := core.PathSearch(s.Fn, s.In, core.IsReturn, isRun, nil); bad != nil {
				r.Fail(R4, key+" runs", p.Pos(s.In.Pos()), "a constructed connection is not started on every path")
			} else {
				r.OK(R4, key+" runs", p.Pos(s.In.Pos()), "Run() on every path")
			}
			if bad := core.PathSearch(s.Fn, s.In, core.IsReturn, isReg, nil); bad != nil {
				r.Fail(R4, key+" registers", p.Pos(s.In.Pos()), "a constructed connection is not stored in the registry on every path (unregistered extra connection; the hub believes it is unconnected and dials again)")
			} else {
				r.OK(R4, key+" registers", p.Pos(s.In.Pos()), "stored into Hub.connections unconditionally")
			}
		}
		// both directions construct: the inbound handler and the dial function each reach a construction
		// (directly or through a shared package-local helper)
		hubLocal := func(f *ssa.Function) bool { return p.PkgShort(f) == "hub" && f.Blocks != nil }
		isNCH := func(in ssa.Instruction) bool {
			c := core.Common(in)
			return c != nil && c.StaticCallee() == a.nch
		}
		eff := 0
		roots := append([]*ssa.Function{}, a.dialFns...)
		if serve := p.Method("hub", "Hub", "ServeHTTP"); serve != nil {
			roots = append(roots, serve)
		}
		for _, root := range roots {
			if len(core.ExpandSites(root, hubLocal, 2, isNCH)) > 0 {
				eff++
			}
		}
		if eff < 2 {
			r.Fail(R4, "construction sites", "", "expected the inbound and the outbound construction site")
		}
		// the registry key is the connection's RemoteSKI
		for _, s := range core.Sites(a.fns, isRegStore) {
			mu := s.In.(*ssa.MapUpdate)
			key := "registry key in " + p.FnName(s.Fn)
			kc, ok := core.Canon(mu.Key).(*ssa.Call)
			if ok && kc.Call.IsInvoke() && kc.Call.Method.Name() == "RemoteSKI" && core.Canon(kc.Call.Value) == core.Canon(mu.Value) {
				r.OK(R4, key, p.Pos(s.In.Pos()), "connections[conn.RemoteSKI()] = conn")
			} else {
				r.Fail(R4, key, p.Pos(s.In.Pos()), "the registry entry is not stored under the connection's own RemoteSKI()")
			}
		}
	}
	// ---- R5
	checkShipCloseOnce(p, r, R5, R5)
	// ---- R6 registration is recorded; dialling is started for paired-or-queued peers
	const R6 = "C05.R6 registration-recorded-and-dial-gated"
	r.Rule(R6, "RegisterRemoteSKI records trust on every path; the dial gate passes exactly paired-or-queued SKIs (rule shared with C10.R1)")
	q := connStateEdge(p, "ConnectionStateQueued")
	gQueuedConst = p.Const("api", "ConnectionStateQueued")
	queuedEdgeGlobal = q
	checkDialGate(p, r, a, R6, orEdges(pairedEdge, q))

	// R7: the stored pairing state vetoes a dial only through the paired-or-queued gate
	const R7 = "C05.R7 no-stale-state-veto"
	r.Rule(R7, "in the functions on the way from an mDNS report to the dial, the stored pairing state of the SKI is compared with no constant other than Queued: states such as Completed or Error outlive the connection they described (a graceful close does not reset them), so a branch on them keeps two paired hubs from ever dialling again")
	mayDial := core.NewMay(p, true, func(in ssa.Instruction) bool { return core.IsStaticCall(in, dialName) })
	cq := p.Const("api", "ConnectionStateQueued")
	nchain := 0
	for _, fn := range a.fns {
		if fn.Parent() != nil || !mayDial.Fn(fn) {
			continue
		}
		nchain++
		fn := fn
		bad := false
		for _, g := range core.WithAnons(fn) {
			core.EachInstr(g, func(in ssa.Instruction) {
				bo, ok := in.(*ssa.BinOp)
				if !ok || (bo.Op != token.EQL && bo.Op != token.NEQ) {
					return
				}
				isState := func(v ssa.Value) bool {
					c, ok := core.Canon(v).(*ssa.Call)
					return ok && core.CallsMethodNamed(c, apiPath, "ConnectionStateDetail", "State")
				}
				var k constant.Value
				switch {
				case isState(bo.X):
					k = core.ConstOf(bo.Y)
				case isState(bo.Y):
					k = core.ConstOf(bo.X)
				default:
					return
				}
				if k == nil || cq == nil || constant.Compare(k, token.EQL, cq.Val()) {
					return
				}
				bad = true
				r.Fail(R7, "stored pairing state consulted in "+p.FnName(fn), p.Pos(in.Pos()), "on the way to the dial the stored pairing state is compared with a constant other than Queued ("+k.ExactString()+"): that state is not reset when the connection ends, so after a graceful close or an error both hubs skip every further attempt and stay unconnected")
			})
		}
		if !bad {
			r.OK(R7, "stored pairing state consulted in "+p.FnName(fn), p.Pos(fn.Pos()), "only == Queued (with the paired flag)")
		}
	}
	r.Counts["dial_chain_functions"] = nchain
	r.Floor(R7, 3)

	// R9: every reported service is considered, and what is dialled is a well-formed address
	const R9 = "C05.R9 every-visible-peer-is-tried"
	r.Rule(R9, "the loop over the reported mDNS entries has no early exit (a break on the first unpaired service drops the attempt for the paired peer behind it - map order is random, so both hubs can stall with zero connections); an IPv6 literal is bracketed exactly once on its way into the dial URL (net.JoinHostPort on an already bracketed host yields [[::1]]:port, which can never be dialled)")
	if rep := p.Method("hub", "Hub", "ReportMdnsEntries"); rep == nil {
		r.Unresolved(R9, "hub.Hub.ReportMdnsEntries")
	} else {
		nloop := 0
		seenFn := map[*ssa.Function]bool{}
		eachInstrWithCallees(p, rep, "hub", 1, func(in ssa.Instruction) { seenFn[in.Parent()] = true })
		for fn := range seenFn {
			for _, b := range fn.Blocks {
				isHeader := false
				for _, in := range b.Instrs {
					if nx, ok := in.(*ssa.Next); ok && !nx.IsString {
						if rg, ok := nx.Iter.(*ssa.Range); ok {
							if mt, ok := rg.X.Type().Underlying().(*types.Map); ok && core.TypeIs(mt.Elem(), apiPath, "MdnsEntry") {
								isHeader = true
							}
						}
					}
				}
				if !isHeader || core.BlockIf(b) == nil {
					continue
				}
				nloop++
				key := "loop over the reported entries in " + p.FnName(fn)
				if from, _ := core.LoopEarlyExit(b); from != nil {
					r.Fail(R9, key, p.Pos(from.Instrs[len(from.Instrs)-1].Pos()), "the loop over the reported mDNS entries can be left early: services iterated after that point - possibly the paired peer - get no connection attempt, and nothing triggers another one")
				} else {
					r.OK(R9, key, p.Pos(b.Instrs[0].Pos()), "every entry is visited")
				}
			}
		}
		if nloop == 0 {
			r.Fail(R9, "loop over the reported entries", p.Pos(rep.Pos()), "ReportMdnsEntries no longer iterates the reported entries")
		}
	}
	{
		ensureCallSites(p)
		nj := 0
		for _, fn := range a.fns {
			fn := fn
			core.EachInstr(fn, func(in ssa.Instruction) {
				if !core.IsStaticCall(in, "net.JoinHostPort") {
					return
				}
				nj++
				bracketed := false
				seen := map[ssa.Value]bool{}
				var walk func(v ssa.Value, d int)
				walk = func(v ssa.Value, d int) {
					if v == nil || d > 10 || seen[v] || bracketed {
						return
					}
					seen[v] = true
					switch x := core.Canon(v).(type) {
					case *ssa.BinOp:
						if c, ok := strConst(x.X); ok && strings.Contains(c, "[") {
							bracketed = true
						}
						walk(x.X, d+1)
						walk(x.Y, d+1)
					case *ssa.Phi:
						for _, e := range x.Edges {
							walk(e, d+1)
						}
					case *ssa.Parameter:
						idx := -1
						for i, q := range x.Parent().Params {
							if q == x {
								idx = i
							}
						}
						for _, cs := range gCallSites[x.Parent()] {
							if c := core.Common(cs); c != nil && idx >= 0 && idx < len(c.Args) {
								walk(c.Args[idx], d+1)
							}
						}
					}
				}
				walk(core.Common(in).Args[0], 0)
				key := "host passed to net.JoinHostPort in " + p.FnName(fn)
				if bracketed {
					r.Fail(R9, key, p.Pos(in.Pos()), "the host handed to net.JoinHostPort can already be a bracketed IPv6 literal: it is bracketed a second time and the resulting URL cannot be dialled - peers that see each other over IPv6 only never connect")
				} else {
					r.OK(R9, key, p.Pos(in.Pos()), "not bracketed before")
				}
			})
		}
		if nj == 0 {
			r.OK(R9, "dial URL host bracketing", "", "no net.JoinHostPort in package hub: the address is formatted as given")
		}
	}

	// R8: the registry never loses the entry of a live connection and never keeps one of a dead transport
	const R8 = "C05.R8 registry-and-liveness"
	r.Rule(R8, "the hub deletes a registry entry only under an identity check made in the same critical section as the lookup (shared with C11.R3); a dead transport is noticed: read errors are reported, the read deadline is only extended by received traffic (shared with C13.R2/R6)")
	importRules(p, r, "C11", map[string]string{"C11.R3 registry-identity-atomic": R8}, nil)
	importRules(p, r, "C13", map[string]string{"C13.R2 error-told-or-not": R8, "C13.R6 liveness-deadline": R8}, nil)
	// R10: the one connection carries every payload
	const R10 = "C05.R10 connection-carries-every-payload"
	r.Rule(R10, "the surviving connection carries SPINE payloads of any size: no receive-side message size limit (shared with C06.R7); a limit lets the handshake complete and then kills every connection at the first larger datagram, on every reconnect again")
	importRules(p, r, "C06", map[string]string{"C06.R7 no-message-size-limit": R10}, nil)
	// R11: a visible peer is reported with every address it can be dialled at
	const R11 = "C05.R11 visible-peer-keeps-its-addresses"
	r.Rule(R11, "the mDNS layer drops only IPv6 link-local addresses from a resolved entry and merges the rest (shared with C17.R2): a paired, visible peer whose only addresses were filtered out is dialled at its .local host name alone, which most resolvers cannot resolve - both hubs stay at zero connections")
	importRules(p, r, "C17", map[string]string{"C17.R2 address-hygiene": R11}, nil)
	// R13: only the user clears a registration
	const R13 = "C05.R13 registration-survives-faults"
	r.Rule(R13, "the trusted flag is cleared only by UnregisterRemoteSKI / CancelPairingWithSKI and set only by registration or hello-ok (shared with C01.R4): a transport fault or peer restart while one side waits for the other's trust must not unregister the peer")
	importRules(p, r, "C01", map[string]string{"C01.R4 hub-trust-writers": R13}, nil)
	// R12: a report of the peer's mDNS entry never replaces the peer's registration
	const R12 = "C05.R12 registration-survives-any-spelling"
	r.Rule(R12, "every access to the per-SKI service record uses the normalised SKI (shared with C15.R1): ReportMdnsEntries passes the SKI as the peer announces it, so a lookup under the raw spelling misses the trusted record and the fresh one stored under the canonical key replaces it - a peer that announces its SKI in upper case loses its registration with every report")
	importRules(p, r, "C15", map[string]string{"C15.R1 normalise-before-use": R12}, func(key string) bool {
		return strings.Contains(key, "remoteServices") || !strings.Contains(key, " -> ")
	})
}

// checkKeepRule discovers the double-connection decision function and
// evaluates it on all abstract inputs.
func checkKeepRule(p *core.Program, r *core.Report, a *hubAnchors, R1 string) {
	fLocal := p.Field("hub", "Hub", "localService")
	fConns := p.Field("hub", "Hub", "connections")
	if fLocal == nil || fConns == nil {
		r.Unresolved(R1, "hub.Hub.localService / connections")
		return
	}
	isStrCmp := strOrderCmp
	cands := decisionFuncs(a)
	if len(cands) != 1 {
		r.Fail(R1, "decision function", "", fmt.Sprintf("expected exactly one boolean hub function comparing SKIs by order, found %d", len(cands)))
		return
	}
	fn := cands[0]
	name := p.FnName(fn)
	var incoming, remoteSvc ssa.Value
	for _, pa := range fn.Params {
		if b, ok := pa.Type().Underlying().(*types.Basic); ok && b.Kind() == types.Bool {
			incoming = pa
		}
		if core.TypeIs(pa.Type(), apiPath, "ServiceDetails") {
			remoteSvc = pa
		}
	}
	if incoming == nil || remoteSvc == nil {
		r.Unresolved(R1, "incoming flag / remote service parameter of "+name)
		return
	}
	isLocal := func(v ssa.Value) bool {
		c, ok := core.Canon(v).(*ssa.Call)
		if !ok || !core.CallsMethodNamed(c, apiPath, "ServiceDetails", "SKI") {
			return false
		}
		f, _ := core.LoadedField(c.Call.Args[0])
		return f == fLocal
	}
	isRemote := func(v ssa.Value) bool {
		c, ok := core.Canon(v).(*ssa.Call)
		return ok && core.CallsMethodNamed(c, apiPath, "ServiceDetails", "SKI") && core.Canon(c.Call.Args[0]) == remoteSvc
	}
	// evaluate a string comparison under order (remote ? local): +1 remote>local, -1 remote<local
	evalCmp := func(bo *ssa.BinOp, order int) (bool, bool) {
		var l, rr int // positions: remote=+order... assign numeric values
		val := func(v ssa.Value) (int, bool) {
			if isRemote(v) {
				return order, true
			}
			if isLocal(v) {
				return 0, true
			}
			return 0, false
		}
		var ok1, ok2 bool
		l, ok1 = val(bo.X)
		rr, ok2 = val(bo.Y)
		if !ok1 || !ok2 {
			return false, false
		}
		switch bo.Op {
		case token.GTR:
			return l > rr, true
		case token.LSS:
			return l < rr, true
		case token.GEQ:
			return l >= rr, true
		case token.LEQ:
			return l <= rr, true
		}
		return false, false
	}
	existingNil := func(cond ssa.Value) (bool, bool) { // (matches, condMeansNil)
		bo, ok := cond.(*ssa.BinOp)
		if !ok || (bo.Op != token.EQL && bo.Op != token.NEQ) {
			return false, false
		}
		var other ssa.Value
		if core.IsNilConst(bo.Y) {
			other = bo.X
		} else if core.IsNilConst(bo.X) {
			other = bo.Y
		} else {
			return false, false
		}
		if !core.TypeIs(other.Type(), apiPath, "ShipConnectionInterface") {
			return false, false
		}
		return true, bo.Op == token.EQL
	}
	mClose := p.IfaceMethod("api", "ShipConnectionInterface", "CloseConnection")
	type verdict struct {
		vals       map[bool]bool
		closesOld  map[bool]bool // per verdict: existing connection closed on all such paths
		unresolved bool
	}
	results := map[[2]int]*verdict{}
	complete := true
	for _, inc := range []int{0, 1} {
		for _, order := range []int{-1, 1} {
			vd := &verdict{vals: map[bool]bool{}, closesOld: map[bool]bool{true: true, false: true}}
			results[[2]int{inc, order}] = vd
			ok := core.EnumPathItems(fn, 4096, func(items []core.PathItem, blocks []*ssa.BasicBlock, ret *ssa.Return) {
				feasible := true
				closes := false
				var evalBoolB func(v ssa.Value, blocks []*ssa.BasicBlock, depth int) (bool, bool)
				evalBoolB = func(v ssa.Value, blocks []*ssa.BasicBlock, depth int) (bool, bool) {
					if depth > 8 {
						return false, false
					}
					if phi, ok := v.(*ssa.Phi); ok {
						if nv := core.PhiOnPath(phi, blocks); nv != nil {
							return evalBoolB(nv, blocks, depth+1)
						}
						return false, false
					}
					if u, ok := v.(*ssa.UnOp); ok && u.Op == token.NOT {
						x, k := evalBoolB(u.X, blocks, depth+1)
						return !x, k
					}
					if core.Canon(v) == incoming {
						return inc == 1, true
					}
					if c := core.ConstOf(v); c != nil && c.Kind() == constant.Bool {
						return constant.BoolVal(c), true
					}
					if m, meansNil := existingNil(v); m {
						return !meansNil, true // an existing connection is present
					}
					if bo := isStrCmp(v); bo != nil {
						x, known := evalCmp(bo, order)
						if !known {
							vd.unresolved = true
						}
						return x, known
					}
					// a boolean helper of the package: evaluate its paths with its parameters bound to this call
					if call, ok := v.(*ssa.Call); ok {
						t := call.Call.StaticCallee()
						if t == nil || t.Pkg != fn.Pkg || t.Blocks == nil || t.Signature.Results().Len() != 1 {
							return false, false
						}
						undo := core.BindCall(call)
						defer undo()
						outs := map[bool]bool{}
						unknown := false
						okEnum := core.EnumPathItems(t, 1024, func(items2 []core.PathItem, blocks2 []*ssa.BasicBlock, ret2 *ssa.Return) {
							for _, it := range items2 {
								if it.Cond == nil {
									continue
								}
								if x, known := evalBoolB(it.Cond, blocks2, depth+1); known && x != it.Truth {
									return // infeasible under this abstract input
								}
							}
							res, known := evalBoolB(core.ResultOf(ret2, 0), blocks2, depth+1)
							if !known {
								unknown = true
								return
							}
							outs[res] = true
						})
						if !okEnum || unknown || len(outs) != 1 {
							return false, false
						}
						for res := range outs {
							return res, true
						}
					}
					return false, false
				}
				evalBool := func(v ssa.Value, depth int) (bool, bool) { return evalBoolB(v, blocks, depth) }
				for _, it := range items {
					if it.Cond == nil {
						if core.IsInvokeOf(it.In, mClose) {
							closes = true
						}
						continue
					}
					if x, known := evalBool(it.Cond, 0); known && x != it.Truth {
						feasible = false
					}
				}
				if !feasible {
					return
				}
				res, known := evalBool(core.ResultOf(ret, 0), 0)
				if !known {
					vd.unresolved = true
					return
				}
				vd.vals[res] = true
				if !closes {
					vd.closesOld[res] = false
				}
			})
			if !ok {
				complete = false
			}
		}
	}
	if !complete {
		r.Fail(R1, name+" paths", p.Pos(fn.Pos()), "too many paths to enumerate")
		return
	}
	val := func(inc, order int) (bool, bool) {
		vd := results[[2]int{inc, order}]
		if vd.unresolved || len(vd.vals) != 1 {
			return false, false
		}
		for v := range vd.vals {
			return v, true
		}
		return false, false
	}
	names := map[int]string{-1: "remote<local", 1: "remote>local"}
	allOK := true
	for _, inc := range []int{0, 1} {
		for _, order := range []int{-1, 1} {
			_, ok := val(inc, order)
			key := fmt.Sprintf("%s decision determined for incoming=%v %s", name, inc == 1, names[order])
			if ok {
				r.OK(R1, key, p.Pos(fn.Pos()), "single verdict")
			} else {
				allOK = false
				r.Fail(R1, key, p.Pos(fn.Pos()), "the keep/drop verdict is not a function of (incoming, SKI order) - it depends on something else or compares unknown values")
			}
		}
	}
	if !allOK {
		return
	}
	for _, order := range []int{-1, 1} {
		o, _ := val(0, order)
		i, _ := val(1, -order)
		key := fmt.Sprintf("%s both ends of one connection agree (%s at the initiator)", name, names[order])
		if o == i {
			r.OK(R1, key, p.Pos(fn.Pos()), fmt.Sprintf("initiator keeps=%v, acceptor keeps=%v", o, i))
		} else {
			r.Fail(R1, key, p.Pos(fn.Pos()), fmt.Sprintf("for the same physical connection the initiator decides keep=%v but the acceptor decides keep=%v: the hubs drop both connections or keep two", o, i))
		}
	}
	lo, _ := val(0, -1)
	hi, _ := val(0, 1)
	key := name + " exactly one of two simultaneous connections survives"
	if lo != hi {
		r.OK(R1, key, p.Pos(fn.Pos()), fmt.Sprintf("outgoing kept iff local>remote: keep(remote<local)=%v keep(remote>local)=%v", lo, hi))
	} else {
		r.Fail(R1, key, p.Pos(fn.Pos()), "the decision does not depend on the SKI order: both simultaneous connections are kept or both dropped")
	}
	// keep => the existing connection gets closed
	okClose := true
	for _, vd := range results {
		if vd.vals[true] && !vd.closesOld[true] {
			okClose = false
		}
	}
	key = name + " keep closes the existing connection"
	if okClose {
		r.OK(R1, key, p.Pos(fn.Pos()), "every keep path closes the old connection")
	} else {
		r.Fail(R1, key, p.Pos(fn.Pos()), "a keep verdict leaves the existing connection open: two connections to one SKI")
	}
	// callers: both construction paths consult it before constructing
	for _, s := range core.Sites(a.fns, func(in ssa.Instruction) bool {
		c := core.Common(in)
		return c != nil && c.StaticCallee() == a.nch
	}) {
		key := "decision consulted before construction in " + p.FnName(s.Fn)
		keepEdge := func(b *ssa.BasicBlock, idx int) bool {
			i := core.BlockIf(b)
			if i == nil {
				return false
			}
			v, truth := core.Truth(i.Cond, idx)
			c, ok := v.(*ssa.Call)
			return ok && truth && c.Call.StaticCallee() == fn
		}
		if guardedUp(p, s.In, keepEdge, 2) {
			r.OK(R1, key, p.Pos(s.In.Pos()), "construction only on the keep edge")
		} else {
			r.Fail(R1, key, p.Pos(s.In.Pos()), "a connection is constructed without (or against) the double-connection decision")
		}
	}
	_ = fConns
}

// strOrderCmp: v is an ordered comparison (<, >, <=, >=) of two strings.
func strOrderCmp(v ssa.Value) *ssa.BinOp {
	bo, ok := v.(*ssa.BinOp)
	if !ok {
		return nil
	}
	switch bo.Op {
	case token.GTR, token.LSS, token.GEQ, token.LEQ:
	default:
		return nil
	}
	if b, ok := bo.X.Type().Underlying().(*types.Basic); !ok || b.Info()&types.IsString == 0 {
		return nil
	}
	return bo
}

// decisionFuncs: the hub's double-connection decision - top-level boolean functions taking the remote
// ServiceDetails that compare strings by order.
func decisionFuncs(a *hubAnchors) []*ssa.Function {
	var cands []*ssa.Function
	for _, fn := range a.fns {
		if fn.Signature.Results().Len() != 1 || !types.Identical(fn.Signature.Results().At(0).Type(), types.Typ[types.Bool]) {
			continue
		}
		has := false
		core.EachInstr(fn, func(in ssa.Instruction) {
			if v, ok := in.(ssa.Value); ok && strOrderCmp(v) != nil {
				has = true
			}
			// ... or delegates the comparison to a boolean helper of the package
			if c, ok := in.(*ssa.Call); ok {
				if t := c.Call.StaticCallee(); t != nil && t.Pkg == fn.Pkg && t.Blocks != nil && t.Signature.Results().Len() == 1 &&
					types.Identical(t.Signature.Results().At(0).Type(), types.Typ[types.Bool]) {
					core.EachInstr(t, func(y ssa.Instruction) {
						if v, ok := y.(ssa.Value); ok && strOrderCmp(v) != nil {
							has = true
						}
					})
				}
			}
		})
		hasSvc := false
		for _, pa := range fn.Params {
			if core.TypeIs(pa.Type(), apiPath, "ServiceDetails") {
				hasSvc = true
			}
		}
		if has && hasSvc && fn.Parent() == nil {
			cands = append(cands, fn)
		}
	}
	return cands
}

// guardedUp: every path to the instruction takes a guard edge - inside its own function, or (for a helper)
// before every plain call of that function, up to depth levels.
func guardedUp(p *core.Program, in ssa.Instruction, guard core.EdgeFilter, depth int) bool {
	if core.Guarded(in, guard) {
		return true
	}
	ensureCallSites(p)
	sites := gCallSites[in.Parent()]
	if depth == 0 || len(sites) == 0 {
		return false
	}
	for _, cs := range sites {
		if _, isCall := cs.(*ssa.Call); !isCall {
			return false
		}
		if !guardedUp(p, cs, guard, depth-1) {
			return false
		}
	}
	return true
}
