package rules

import (
	"fmt"
	"go/constant"
	"go/token"
	"go/types"

	"golang.org/x/tools/go/ssa"

	"shipverif/internal/core"
)

func init() { register("C06", checkC06) }

func checkC06(p *core.Program, r *core.Report) {
	const R1 = "C06.R1 deliver-xor-buffer"
	const R2 = "C06.R2 buffer-fifo-flushed-once"
	const R3 = "C06.R3 single-fifo-writer"
	const R4 = "C06.R4 no-early-delivery"
	r.Explanation = "C06 (SPINE payloads exactly once, in order, after completion): end-to-end exactly-once over real histories needs execution; decided clauses: (R1) in the incoming-frame entry every data path does exactly one of deliver / append to the pre-completion buffer (or returns after a failed envelope parse), deliver only with the reader set, append only without, the bytes are the payload of the parsed envelope, and the envelope is decoded into a fresh local value (a reused target would alias buffered payloads); (R2) all accesses to the buffer hold bufferMux, appends are tail appends stored back, the flush delivers the elements by ascending index of the buffer and empties it on all paths, and the approving function calls the flush synchronously after installing the reader; (R3) the outgoing queue has one consumer function started by exactly one go statement outside loops, all producers hold one mutex, and the consumer writes the dequeued value itself; (R4) delivery happens only through the installed reader (automaton rule C01.R3). Not decided: content fidelity (C07), histories across goroutines."
	r.Rule(R1, "path enumeration of HandleIncomingWebsocketMessage: deliver + append == 1 on data paths, 0 otherwise; guards; provenance; fresh decode target")
	r.Rule(R2, "spineBuffer accesses under bufferMux; tail append; flush by ascending index; emptied; synchronous flush after reader store")
	r.Rule(R3, "shipWriteChannel: one receiver function, one non-loop go, producers share a mutex, consumer writes what it dequeued")
	r.Rule(R4, "HandleShipPayloadMessage only via the dataReader field when it is set (extracted automaton)")

	fReader := p.Field("ship", "ShipConnection", "dataReader")
	fBuf := p.Field("ship", "ShipConnection", "spineBuffer")
	mDeliver := p.IfaceMethod("api", "ShipConnectionDataReaderInterface", "HandleShipPayloadMessage")
	entry := p.Method("ship", "ShipConnection", "HandleIncomingWebsocketMessage")
	shipData := p.Named("model", "ShipData")
	if fReader == nil || fBuf == nil || mDeliver == nil || entry == nil || shipData == nil {
		r.Unresolved(R1, "dataReader / spineBuffer / HandleShipPayloadMessage / HandleIncomingWebsocketMessage / model.ShipData")
		return
	}
	shipFns := p.FuncsOf("ship")
	isDeliver := func(in ssa.Instruction) bool { return core.IsInvokeOf(in, mDeliver) }
	isBufStore := func(in ssa.Instruction) bool { return core.IsFieldStore(in, fBuf) }
	// bufferingCall: a call of a ship helper that stores into the buffer exactly once on each of its paths, the
	// stored value being built from one of its parameters; returns the argument passed for that parameter
	bufferingCall := func(in ssa.Instruction) (ssa.Value, bool) {
		c, ok := in.(*ssa.Call)
		if !ok {
			return nil, false
		}
		t := c.Call.StaticCallee()
		if t == nil || t.Blocks == nil || p.PkgShort(t) != "ship" {
			return nil, false
		}
		mn, mx, complete := pathCount(t, func(y ssa.Instruction) int {
			if isBufStore(y) {
				return 1
			}
			return 0
		})
		if !complete || mn != 1 || mx != 1 {
			return nil, false
		}
		var arg ssa.Value
		core.EachInstr(t, func(y ssa.Instruction) {
			if !isBufStore(y) {
				return
			}
			_, _, v := core.StoredField(y)
			for i, pa := range t.Params {
				if i < len(c.Call.Args) && derivesFrom(v, pa, 8) {
					if _, isBytes := pa.Type().Underlying().(*types.Slice); isBytes {
						arg = c.Call.Args[i]
					}
				}
			}
		})
		return arg, arg != nil
	}
	// parse call: result tuple whose first element is *model.ShipData
	isParse := func(in ssa.Instruction) bool {
		c, ok := in.(*ssa.Call)
		if !ok {
			return false
		}
		tup, ok := c.Type().(*types.Tuple)
		return ok && tup.Len() == 2 && core.NamedOf(tup.At(0).Type()) == shipData
	}
	readerNil := func(cond ssa.Value, truth bool) (bool, bool) {
		bo, ok := cond.(*ssa.BinOp)
		if !ok || (bo.Op != token.EQL && bo.Op != token.NEQ) {
			return false, false
		}
		var other ssa.Value
		if core.IsNilConst(bo.Y) {
			other = bo.X
		} else if core.IsNilConst(bo.X) {
			other = bo.Y
		} else {
			return false, false
		}
		if f, _ := core.LoadedField(other); f != fReader {
			return false, false
		}
		return true, truth == (bo.Op == token.EQL)
	}
	bad := map[string]string{}
	npaths, ndata := 0, 0
	complete := core.EnumPathItems(entry, 4096, func(items []core.PathItem, blocks []*ssa.BasicBlock, ret *ssa.Return) {
		npaths++
		d, b := 0, 0
		var parse *ssa.Call
		errEdge := false
		nilKnown, isNil := false, false
		for _, it := range items {
			if it.Cond != nil {
				if m, n := readerNil(it.Cond, it.Truth); m {
					nilKnown, isNil = true, n
				}
				if bo, ok := it.Cond.(*ssa.BinOp); ok && parse != nil && (bo.Op == token.NEQ || bo.Op == token.EQL) {
					var other ssa.Value
					if core.IsNilConst(bo.Y) {
						other = bo.X
					} else if core.IsNilConst(bo.X) {
						other = bo.Y
					}
					if ex, ok := other.(*ssa.Extract); ok && ex.Tuple == ssa.Value(parse) && ex.Index == 1 {
						if it.Truth == (bo.Op == token.NEQ) {
							errEdge = true
						}
					}
				}
				continue
			}
			if isParse(it.In) {
				parse = it.In.(*ssa.Call)
			}
			if isDeliver(it.In) {
				d++
				if !(nilKnown && !isNil) {
					bad["deliver-guard"] = "a payload is delivered on a path that did not find the reader set"
				}
				if parse == nil || !derivesFrom(core.Common(it.In).Args[0], parse, 8) {
					bad["deliver-provenance"] = "the delivered bytes are not the payload of the parsed envelope"
				}
			}
			if arg, ok := bufferingCall(it.In); ok {
				b++
				if !(nilKnown && isNil) {
					bad["buffer-guard"] = "a payload is buffered on a path that did not find the reader unset"
				}
				if parse == nil || !derivesFrom(arg, parse, 8) {
					bad["buffer-provenance"] = "the buffered bytes are not the payload of the parsed envelope"
				}
			}
			if isBufStore(it.In) {
				b++
				if !(nilKnown && isNil) {
					bad["buffer-guard"] = "a payload is buffered on a path that did not find the reader unset"
				}
				_, _, v := core.StoredField(it.In)
				if parse == nil || !derivesFrom(v, parse, 8) {
					bad["buffer-provenance"] = "the buffered bytes are not the payload of the parsed envelope"
				}
			}
		}
		switch {
		case parse != nil && !errEdge:
			ndata++
			if d+b != 1 {
				bad["exactly-one"] = fmt.Sprintf("a data path delivers %d times and buffers %d times (must be exactly one of them): payload dropped or duplicated", d, b)
			}
		default:
			if d+b != 0 {
				bad["none-on-non-data"] = "a payload is delivered/buffered on a path without a successfully parsed data envelope"
			}
		}
	})
	r.Counts["entry_paths"] = npaths
	r.Counts["data_paths"] = ndata
	en := shortFn(p.FnName(entry))
	if !complete {
		r.Fail(R1, en+" paths", p.Pos(entry.Pos()), "too many paths")
	}
	if ndata < 2 {
		r.Fail(R1, en+" data-paths", p.Pos(entry.Pos()), "expected a deliver path and a buffer path")
	}
	for _, k := range []string{"exactly-one", "none-on-non-data", "deliver-guard", "buffer-guard", "deliver-provenance", "buffer-provenance"} {
		if m, isBad := bad[k]; isBad {
			r.Fail(R1, en+" "+k, p.Pos(entry.Pos()), m)
		} else {
			r.OK(R1, en+" "+k, p.Pos(entry.Pos()), fmt.Sprintf("on all %d paths", npaths))
		}
	}
	// routing marker: which frames count as SPINE data is decided by the one member name every datagram has
	var router *ssa.Function
	for _, b := range entry.Blocks {
		if iff := core.BlockIf(b); iff != nil && router == nil {
			v, _ := core.Truth(iff.Cond, 0)
			if c, ok := v.(*ssa.Call); ok {
				if callee := c.Call.StaticCallee(); callee != nil && p.PkgShort(callee) == "ship" && callee.Signature.Results().Len() == 1 {
					for _, a := range c.Call.Args {
						if len(entry.Params) > 1 && core.Canon(a) == ssa.Value(entry.Params[1]) {
							router = callee
						}
					}
				}
			}
		}
	}
	if router == nil {
		r.Fail(R1, en+" routing predicate", p.Pos(entry.Pos()), "no SHIP-vs-SPINE routing predicate on the incoming frame found")
	} else {
		consts := map[string]bool{}
		core.EachInstr(router, func(in ssa.Instruction) {
			for _, op := range in.Operands(nil) {
				if *op == nil {
					continue
				}
				if c, ok := strConst(*op); ok {
					consts[c] = true
				}
			}
		})
		key := "routing predicate " + shortFn(p.FnName(router)) + " marker"
		if len(consts) == 1 && consts["datagram"] {
			r.OK(R1, key, p.Pos(router.Pos()), "frames are SPINE data iff they contain the member name 'datagram'")
		} else {
			r.Fail(R1, key, p.Pos(router.Pos()), fmt.Sprintf("the SHIP-vs-SPINE routing depends on the text constants %v instead of only the 'datagram' member name: datagrams whose content matches another constant are routed to the handshake handler and silently dropped", keysOf(consts)))
		}
	}
	// fresh decode target in the parse function
	var parseFn *ssa.Function
	core.EachInstr(entry, func(in ssa.Instruction) {
		if isParse(in) {
			parseFn = core.Common(in).StaticCallee()
		}
	})
	if parseFn == nil {
		r.Unresolved(R1, "envelope parse function")
	} else {
		n := 0
		core.EachInstr(parseFn, func(in ssa.Instruction) {
			if !core.IsStaticCall(in, "encoding/json.Unmarshal") {
				return
			}
			n++
			tgt := core.Common(in).Args[1]
			key := "decode target in " + shortFn(p.FnName(parseFn))
			root := tgt
			for i := 0; i < 6; i++ {
				root = core.Canon(root)
				switch x := root.(type) {
				case *ssa.MakeInterface:
					root = x.X
					continue
				case *ssa.FieldAddr:
					root = x.X
					continue
				}
				break
			}
			if al, ok := root.(*ssa.Alloc); ok && al.Parent() == parseFn {
				// and the returned value is that same fresh value
				r.OK(R1, key, p.Pos(in.Pos()), "decoded into a value allocated per call")
			} else {
				r.Fail(R1, key, p.Pos(in.Pos()), "the incoming envelope is decoded into a value that outlives the call (not allocated per call): payload slices kept in the buffer alias the reused backing array and are overwritten by later datagrams")
			}
		})
		if n == 0 {
			r.Fail(R1, "decode in "+shortFn(p.FnName(parseFn)), p.Pos(parseFn.Pos()), "no json.Unmarshal in the envelope parse function")
		}
	}

	// ---- R2
	li := core.AnalyzeLocks(shipFns, func(fn *ssa.Function) bool { return fn.Object() != nil && fn.Object().Exported() })
	nacc := 0
	for _, fn := range shipFns {
		if fn.Name() == "NewConnectionHandler" {
			continue
		}
		core.EachInstr(fn, func(in ssa.Instruction) {
			acc := false
			if isBufStore(in) {
				acc = true
			}
			if u, ok := in.(*ssa.UnOp); ok && u.Op == token.MUL {
				if fa, ok := u.X.(*ssa.FieldAddr); ok && core.FieldVar(fa) == fBuf {
					acc = true
				}
			}
			if !acc {
				return
			}
			nacc++
			key := "spineBuffer access in " + shortFn(p.FnName(fn))
			if li.Must[in]["ship.ShipConnection.bufferMux"] {
				r.OK(R2, key, p.Pos(in.Pos()), "under bufferMux")
			} else {
				r.Fail(R2, key, p.Pos(in.Pos()), "the pre-completion buffer is accessed without bufferMux: an append racing the flush is lost or delivered out of order")
			}
		})
	}
	r.Counts["buffer_accesses"] = nacc
	var flush *ssa.Function
	for _, fn := range shipFns {
		core.EachInstr(fn, func(in ssa.Instruction) {
			if isBufStore(in) {
				_, _, v := core.StoredField(in)
				key := "spineBuffer store in " + shortFn(p.FnName(fn))
				if core.IsNilConst(v) {
					return
				}
				if c, ok := v.(*ssa.Call); ok && isBuiltin(c, "append") {
					if f, _ := core.LoadedField(c.Call.Args[0]); f == fBuf {
						r.OK(R2, key, p.Pos(in.Pos()), "tail append to the current buffer, stored back")
						return
					}
				}
				if mk, ok := v.(*ssa.MakeSlice); ok {
					if c := core.ConstOf(mk.Len); c != nil && c.String() == "0" {
						return
					}
				}
				if fn.Name() != "NewConnectionHandler" {
					r.Fail(R2, key, p.Pos(in.Pos()), "the buffer is overwritten by something other than a tail append of the current buffer (or emptying it)")
				}
			}
			if isDeliver(in) && core.InLoop(in.Block()) {
				flush = fn
			}
		})
	}
	if flush == nil {
		r.Fail(R2, "flush function", "", "no function delivers the buffered payloads in a loop")
	} else {
		fname := shortFn(p.FnName(flush))
		core.EachInstr(flush, func(in ssa.Instruction) {
			if !isDeliver(in) {
				return
			}
			arg := core.Canon(core.Common(in).Args[0])
			// element of the buffer at the loop index
			okIdx, asc := false, false
			var walk func(v ssa.Value, d int)
			walk = func(v ssa.Value, d int) {
				if d > 6 || v == nil {
					return
				}
				switch x := core.Canon(v).(type) {
				case *ssa.UnOp:
					walk(x.X, d+1)
				case *ssa.IndexAddr:
					if f, _ := core.LoadedField(x.X); f == fBuf {
						okIdx = true
						if phi, ok := x.Index.(*ssa.Phi); ok {
							for _, e := range phi.Edges {
								if bo, ok := e.(*ssa.BinOp); ok && bo.Op == token.ADD && bo.X == ssa.Value(phi) {
									if c := core.ConstOf(bo.Y); c != nil && c.String() == "1" {
										asc = true
									}
								}
							}
						} else if bo, ok := x.Index.(*ssa.BinOp); ok && bo.Op == token.ADD {
							if phi, ok := bo.X.(*ssa.Phi); ok {
								for _, e := range phi.Edges {
									if e == ssa.Value(bo) {
										if c := core.ConstOf(bo.Y); c != nil && c.String() == "1" {
											asc = true
										}
									}
								}
							}
						}
					}
				case *ssa.Index:
					walk(x.X, d+1)
				case *ssa.Extract:
					// range over slice yields via Next? (only for maps/strings); not expected
				}
			}
			walk(arg, 0)
			key := "flush " + fname + " delivers buffer elements in order"
			if okIdx && asc {
				r.OK(R2, key, p.Pos(in.Pos()), "element at the ascending loop index of spineBuffer")
			} else if okIdx {
				r.Fail(R2, key, p.Pos(in.Pos()), "the flush does not walk the buffer by ascending index: held-back datagrams are delivered out of arrival order")
			} else {
				r.Fail(R2, key, p.Pos(in.Pos()), "the flush does not deliver the elements of spineBuffer")
			}
		})
		empties := func(in ssa.Instruction) bool {
			if !isBufStore(in) {
				return false
			}
			_, _, v := core.StoredField(in)
			if core.IsNilConst(v) {
				return true
			}
			if mk, ok := v.(*ssa.MakeSlice); ok {
				c := core.ConstOf(mk.Len)
				return c != nil && c.String() == "0"
			}
			return false
		}
		key := "flush " + fname + " empties the buffer"
		if badRet := core.MustPass(flush, nil, empties, nil); badRet != nil {
			r.Fail(R2, key, p.Pos(badRet.Pos()), "a path of the flush leaves the delivered payloads in the buffer (delivered again by a later flush)")
		} else {
			r.OK(R2, key, p.Pos(flush.Pos()), "on all paths")
		}
		// synchronous flush after the reader is installed
		for _, s := range core.Sites(shipFns, func(in ssa.Instruction) bool { return core.IsFieldStore(in, fReader) }) {
			callsFlush := core.NewMust(p, 2, func(in ssa.Instruction) bool {
				c, ok := in.(*ssa.Call)
				return ok && c.Call.StaticCallee() == flush
			})
			key := "flush after reader store in " + shortFn(p.FnName(s.Fn))
			if !followedBy(p, s.Fn, s.In, callsFlush.Instr, 2) {
				r.Fail(R2, key, p.Pos(s.In.Pos()), "after installing the SPINE reader the held-back payloads are not flushed synchronously on every path (a `go` flush or a missing one lets later datagrams overtake buffered ones)")
			} else {
				r.OK(R2, key, p.Pos(s.In.Pos()), "flush is called synchronously before the approving function returns")
			}
		}
		// ... and not before the handshake is reported complete: every call of the flush is preceded by the
		// state change to Complete
		cComplete := p.Const("model", "SmeStateComplete")
		setsComplete := func(in ssa.Instruction) bool {
			c, ok := in.(*ssa.Call)
			if !ok || cComplete == nil {
				return false
			}
			t := c.Call.StaticCallee()
			if t == nil || p.PkgShort(t) != "ship" {
				return false
			}
			for _, a := range c.Call.Args {
				if k := core.ConstOf(a); k != nil && types.Identical(a.Type(), cComplete.Type()) && constant.Compare(k, token.EQL, cComplete.Val()) {
					return true
				}
			}
			return false
		}
		for _, s := range core.Sites(shipFns, func(in ssa.Instruction) bool {
			c, ok := in.(*ssa.Call)
			return ok && c.Call.StaticCallee() == flush
		}) {
			key := "flush in " + shortFn(p.FnName(s.Fn)) + " only after the state is Complete"
			if precededBy(p, s.Fn, s.In, setsComplete, 2) {
				r.OK(R2, key, p.Pos(s.In.Pos()), "the completed state is set (and reported) before held-back datagrams are released")
			} else {
				r.Fail(R2, key, p.Pos(s.In.Pos()), "held-back datagrams are handed to the application before the connection is in (and reported as) the completed state: they are delivered earlier than completion")
			}
		}
	}
	r.Floor(R2, 7)

	// ---- R3 (package ws)
	checkOutgoingQueue(p, r, R3)

	// ---- R4 via the automaton
	if fr := getFSM(p, r, R4); fr != nil {
		f := fr.f
		for _, k := range sortedKeys(f.effects) {
			e := f.effects[k]
			if e.kind != "deliver" {
				continue
			}
			noReader := false
			for c := range e.cfgs {
				if !c.reader {
					noReader = true
				}
			}
			key := "deliver in " + shortFn(e.fn)
			if e.tag == "reader-field" && !noReader {
				r.OK(R4, key, p.Pos(e.pos), "only through the installed reader")
			} else {
				r.Fail(R4, key, p.Pos(e.pos), "a payload can be delivered before the handshake installed the reader")
			}
		}
		r.Floor(R4, 2)
	}
	// R5: the application's data writer hands every datagram to the transport queue
	const R5 = "C06.R5 writer-always-enqueues"
	r.Rule(R5, "from the entry of the data-writer method (ShipConnectionDataWriterInterface) every path reaches the transport enqueue, except on the error exits of the wire transform and on the transport's closed answer: the writer is handed to the application inside the setup callback, i.e. before the state says completed, so a state-dependent early return silently drops the application's first datagrams")
	checkWriterEnqueues(p, r, R5)
	r.Floor(R5, 1)
	const R6 = "C06.R6 failed-write-ends-the-connection"
	r.Rule(R6, "a failed transport write - a write timeout included - is reported and ends the connection (shared with C13.R2): otherwise the datagram that hit the error and every later one are dequeued and discarded while the connection still looks open")
	importRules(p, r, "C13", map[string]string{"C13.R2 error-told-or-not": R6}, nil)

	// R7: nothing on the receive side limits the size of a message
	const R7 = "C06.R7 no-message-size-limit"
	r.Rule(R7, "no call of a gorilla connection method limits the size of a received message (SetReadLimit): the sending side puts no bound on a datagram, so any limit makes the receiver fail the read - and tear the connection down - for every datagram above it; every call site of a *websocket.Conn method in the repository is listed and classified")
	for _, fn := range p.RepoFuncs() {
		seen := map[string]bool{}
		for _, b := range fn.Blocks {
			for _, in := range b.Instrs {
				c, ok := in.(ssa.CallInstruction)
				if !ok {
					continue
				}
				callee := c.Common().StaticCallee()
				if callee == nil || callee.Signature.Recv() == nil {
					continue
				}
				if types.TypeString(callee.Signature.Recv().Type(), nil) != "*github.com/gorilla/websocket.Conn" {
					continue
				}
				key := "Conn." + callee.Name() + " in " + shortFn(p.FnName(fn))
				if seen[key] {
					continue
				}
				seen[key] = true
				if callee.Name() == "SetReadLimit" {
					r.Fail(R7, key, p.Pos(in.Pos()), "a read limit makes every datagram above it undeliverable: the read fails, the connection is closed, and the reconnect hits the same payload again")
				} else {
					r.OK(R7, key, p.Pos(in.Pos()), "does not limit the message size")
				}
			}
		}
	}
	r.Floor(R7, 10)
	// ... and what is handed to the SHIP layer is the whole message as the websocket library returned it
	if mIn := p.IfaceMethod("api", "WebsocketDataReaderInterface", "HandleIncomingWebsocketMessage"); mIn == nil {
		r.Unresolved(R7, "api.WebsocketDataReaderInterface.HandleIncomingWebsocketMessage")
	} else {
		nd := 0
		for _, fn := range p.FuncsOf("ws") {
			fn := fn
			core.EachInstr(fn, func(in ssa.Instruction) {
				if !core.IsInvokeOf(in, mIn) {
					return
				}
				nd++
				key := "delivered message in " + shortFn(p.FnName(fn)) + " is the whole received message"
				if why := wholeMessage(p, core.Common(in).Args[0], 0); why != "" {
					r.Fail(R7, key, p.Pos(in.Pos()), "the bytes delivered to the SHIP layer are "+why+": a datagram above the bound arrives cut off, fails to decode and is dropped while the connection stays open")
				} else {
					r.OK(R7, key, p.Pos(in.Pos()), "result of ReadMessage / of io.ReadAll on the message reader, unmodified")
				}
			})
		}
		if nd == 0 {
			r.Fail(R7, "delivery site", "", "no call of HandleIncomingWebsocketMessage in package ws")
		}
	}
}

// wholeMessage traces a delivered byte slice back to the websocket library: "" when every source is the second
// result of (*Conn).ReadMessage or io.ReadAll applied directly to the reader of (*Conn).NextReader.
func wholeMessage(p *core.Program, v ssa.Value, depth int) string {
	if depth > 6 {
		return "of unknown origin"
	}
	const conn = "(*github.com/gorilla/websocket.Conn)."
	switch x := v.(type) {
	case *ssa.Const:
		if x.IsNil() {
			return ""
		}
	case *ssa.Phi:
		for _, e := range x.Edges {
			if why := wholeMessage(p, e, depth+1); why != "" {
				return why
			}
		}
		return ""
	case *ssa.Slice:
		if x.Low == nil && x.High == nil {
			return wholeMessage(p, x.X, depth+1)
		}
		return "a sub-slice of the received message"
	case *ssa.Extract:
		call, ok := x.Tuple.(*ssa.Call)
		if !ok {
			return "of unknown origin"
		}
		switch core.CalleeName(&call.Call) {
		case conn + "ReadMessage":
			if x.Index == 1 {
				return ""
			}
		case "io.ReadAll":
			if x.Index == 0 {
				if e, ok := call.Call.Args[0].(*ssa.Extract); ok && e.Index == 1 {
					if c2, ok := e.Tuple.(*ssa.Call); ok && core.CalleeName(&c2.Call) == conn+"NextReader" {
						return ""
					}
				}
				return "read through a wrapper of the message reader (e.g. io.LimitReader)"
			}
		}
		if t := call.Call.StaticCallee(); t != nil && t.Blocks != nil && p.InRepo(t) {
			for _, b := range t.Blocks {
				if ret, ok := b.Instrs[len(b.Instrs)-1].(*ssa.Return); ok && x.Index < len(ret.Results) {
					if why := wholeMessage(p, ret.Results[x.Index], depth+1); why != "" {
						return why
					}
				}
			}
			return ""
		}
		return "the result of " + core.CalleeName(&call.Call)
	case *ssa.Call:
		if t := x.Call.StaticCallee(); t != nil && t.Blocks != nil && p.InRepo(t) && t.Signature.Results().Len() == 1 {
			for _, b := range t.Blocks {
				if ret, ok := b.Instrs[len(b.Instrs)-1].(*ssa.Return); ok {
					if why := wholeMessage(p, ret.Results[0], depth+1); why != "" {
						return why
					}
				}
			}
			return ""
		}
		return "the result of " + core.CalleeName(&x.Call)
	}
	return "of unknown origin"
}

// checkWriterEnqueues (C06.R5).
func checkWriterEnqueues(p *core.Program, r *core.Report, R5 string) {
	mWrite := p.IfaceMethod("api", "ShipConnectionDataWriterInterface", "WriteShipMessageWithPayload")
	mEnq := p.IfaceMethod("api", "WebsocketDataWriterInterface", "WriteMessageToWebsocketConnection")
	mClosed := p.IfaceMethod("api", "WebsocketDataWriterInterface", "IsDataConnectionClosed")
	if mWrite == nil || mEnq == nil || mClosed == nil {
		r.Unresolved(R5, "api.ShipConnectionDataWriterInterface.WriteShipMessageWithPayload / WebsocketDataWriterInterface")
		return
	}
	w := p.Method("ship", "ShipConnection", mWrite.Name())
	if w == nil {
		r.Unresolved(R5, "ship.ShipConnection."+mWrite.Name())
		return
	}
	// allowed exits: a non-nil error of a preceding call, the closed answer of the transport
	allowed := func(b *ssa.BasicBlock, idx int) bool {
		i := core.BlockIf(b)
		if i == nil {
			return false
		}
		v, truth := core.Truth(i.Cond, idx)
		if bo, ok := v.(*ssa.BinOp); ok && (bo.Op == token.EQL || bo.Op == token.NEQ) {
			var other ssa.Value
			if core.IsNilConst(bo.Y) {
				other = bo.X
			} else if core.IsNilConst(bo.X) {
				other = bo.Y
			}
			if other != nil {
				if _, isIface := other.Type().Underlying().(*types.Interface); isIface && types.TypeString(other.Type(), nil) == "error" {
					return truth == (bo.Op == token.NEQ) // edge on which the error is set
				}
			}
		}
		if ex, ok := v.(*ssa.Extract); ok && truth {
			if c, ok := ex.Tuple.(*ssa.Call); ok && core.IsInvokeOf(c, mClosed) && ex.Index == 0 {
				return true
			}
		}
		return false
	}
	must := core.NewMust(p, 3, func(in ssa.Instruction) bool { return core.IsInvokeOf(in, mEnq) })
	must.Removed = allowed
	key := "data writer " + shortFn(p.FnName(w)) + " reaches the transport enqueue"
	if bad := core.MustPass(w, nil, must.Instr, allowed); bad != nil {
		r.Fail(R5, key, p.Pos(bad.Pos()), "a path of the data-writer entry returns without handing the datagram to the transport, and not because of a transform error or a closed transport: datagrams the application writes (for instance from inside the setup callback, before the state is Complete) are silently dropped")
	} else {
		r.OK(R5, key, p.Pos(w.Pos()), "every path enqueues, apart from transform-error and closed-transport exits")
	}
}

// checkOutgoingQueue: one consumer, started once, serialised producers, the consumer writes what it dequeued,
// the enqueue select has only the send arm and the close escape. C06.R3; shared with C12.R7 (what the peer
// receives is a gap-free prefix in acceptance order).
func checkOutgoingQueue(p *core.Program, r *core.Report, R3 string) {
	if a := findWS(p, r, R3); a != nil {
		uses := a.chanUses(a.fns)
		wli := core.AnalyzeLocks(a.fns, func(fn *ssa.Function) bool { return fn.Object() != nil && fn.Object().Exported() })
		for f, us := range uses {
			var sends, recvs []chanUse
			for _, u := range us {
				switch u.kind {
				case "send":
					sends = append(sends, u)
				case "recv":
					recvs = append(recvs, u)
				}
			}
			if len(sends) == 0 || len(recvs) == 0 {
				continue
			}
			name := "ws." + a.typ.Obj().Name() + "." + f.Name()
			consumers := map[*ssa.Function]bool{}
			for _, u := range recvs {
				consumers[core.Outermost(u.fn)] = true
			}
			if len(consumers) != 1 {
				r.Fail(R3, name+" single consumer", "", fmt.Sprintf("%d functions receive from the outgoing queue: two consumers can reorder messages", len(consumers)))
				continue
			}
			var cons *ssa.Function
			for c := range consumers {
				cons = c
			}
			r.OK(R3, name+" single consumer", p.Pos(cons.Pos()), "only "+p.FnName(cons)+" receives")
			ngo := 0
			for _, fn := range a.fns {
				core.EachInstr(fn, func(in ssa.Instruction) {
					if g, ok := in.(*ssa.Go); ok && g.Call.StaticCallee() == cons {
						ngo++
						if core.InLoop(in.Block()) {
							ngo += 100
						}
					}
				})
			}
			if ngo == 1 {
				r.OK(R3, name+" consumer started once", p.Pos(cons.Pos()), "one go statement, not in a loop")
			} else {
				r.Fail(R3, name+" consumer started once", p.Pos(cons.Pos()), "the consumer goroutine is not started by exactly one go statement outside loops")
			}
			// the enqueue may only be abandoned for the closing connection: no timeout / default arm
			closedCh := map[*types.Var]bool{}
			for g, gus := range uses {
				for _, u := range gus {
					if u.kind == "close" {
						closedCh[g] = true
					}
				}
			}
			for _, snd := range sends {
				key := name + " enqueue in " + p.FnName(snd.fn) + " is only abandoned on close"
				if snd.sel == nil {
					r.OK(R3, key, p.Pos(snd.in.Pos()), "plain send")
					continue
				}
				bad := ""
				if !snd.sel.Blocking {
					bad = "a default arm"
				}
				for _, st := range snd.sel.States {
					if st.Dir != types.RecvOnly {
						continue
					}
					if g := chanField(st.Chan); g == nil || !closedCh[g] {
						bad = "an arm that is not the connection's close channel (e.g. a timeout)"
					}
				}
				if bad == "" {
					r.OK(R3, key, p.Pos(snd.in.Pos()), "the only way out besides enqueueing is the close channel")
				} else {
					r.Fail(R3, key, p.Pos(snd.in.Pos()), "the enqueue select has "+bad+": under back pressure an accepted datagram is dropped while the connection stays open and later ones go through (gap at the peer)")
				}
			}
			var common core.LockSet
			for _, s := range sends {
				ls := wli.Must[s.in]
				if common == nil {
					common = ls.Clone()
				} else {
					common = common.Intersect(ls)
				}
			}
			if len(common) > 0 {
				r.OK(R3, name+" producers serialised", p.Pos(sends[0].in.Pos()), "all sends hold "+common.String())
			} else {
				r.Fail(R3, name+" producers serialised", p.Pos(sends[0].in.Pos()), "the sends to the outgoing queue do not hold a common mutex: acceptance order and queue order can differ")
			}
			// consumer writes what it dequeued
			mayWrite := core.NewMay(p, false, func(in ssa.Instruction) bool {
				return core.IsStaticCall(in, "(*github.com/gorilla/websocket.Conn).WriteMessage")
			})
			okProv := false
			for _, u := range recvs {
				var got ssa.Value
				if u.sel != nil {
					// value extracted from the select tuple
					core.EachInstr(cons, func(in ssa.Instruction) {
						if ex, ok := in.(*ssa.Extract); ok && ex.Tuple == ssa.Value(u.sel) && ex.Index >= 2 {
							if _, isSlice := ex.Type().Underlying().(*types.Slice); isSlice {
								got = ex
							}
						}
					})
				} else if v, ok := u.in.(ssa.Value); ok {
					got = v
				}
				if got == nil {
					continue
				}
				core.EachInstr(cons, func(in ssa.Instruction) {
					c, ok := in.(*ssa.Call)
					if !ok || !mayWrite.Instr(in) {
						return
					}
					for _, arg := range c.Call.Args {
						if core.Canon(arg) == got {
							okProv = true
						}
					}
				})
			}
			if okProv {
				r.OK(R3, name+" consumer writes dequeued value", p.Pos(cons.Pos()), "the received message is what is written to the socket")
			} else {
				r.Fail(R3, name+" consumer writes dequeued value", p.Pos(cons.Pos()), "the consumer does not pass the dequeued message itself to the socket write")
			}
		}
		r.Floor(R3, 4)
	}

}

// followedBy: on every path from instruction at to the end of the operation, an instruction satisfying pred is
// executed - before at's function returns, or (when that function is a helper) after each plain call of it in its
// callers, up to depth levels.
func followedBy(p *core.Program, fn *ssa.Function, at ssa.Instruction, pred func(ssa.Instruction) bool, depth int) bool {
	ensureCallSites(p)
	if core.PathSearch(fn, at, core.IsReturn, pred, nil) == nil {
		return true
	}
	sites := gCallSites[fn]
	if depth == 0 || len(sites) == 0 {
		return false
	}
	for _, cs := range sites {
		if _, isCall := cs.(*ssa.Call); !isCall {
			return false
		}
		if !followedBy(p, cs.Parent(), cs, pred, depth-1) {
			return false
		}
	}
	return true
}
