package rules

import (
	"fmt"
	"go/constant"
	"go/token"
	"go/types"
	"strings"

	"golang.org/x/tools/go/ssa"

	"shipverif/internal/core"
)

func init() { register("C07", checkC07) }

// docTainted: v is computed from document bytes, i.e. from a []byte / string /
// json.RawMessage parameter of its function (through calls, decoding into locals, conversions).
func docTainted(v ssa.Value, depth int, seen map[ssa.Value]bool) bool {
	if depth < 0 || v == nil || seen[v] {
		return false
	}
	seen[v] = true
	switch x := v.(type) {
	case *ssa.Parameter:
		t := x.Type().Underlying()
		if b, ok := t.(*types.Basic); ok && b.Info()&types.IsString != 0 {
			return true
		}
		if s, ok := t.(*types.Slice); ok {
			if b, ok := s.Elem().Underlying().(*types.Basic); ok && b.Kind() == types.Byte {
				return true
			}
		}
		if _, ok := t.(*types.Interface); ok {
			return true
		}
		return false
	case *ssa.Const, *ssa.Global, *ssa.Function:
		return false
	case *ssa.Call:
		for _, a := range x.Call.Args {
			if docTainted(a, depth-1, seen) {
				return true
			}
		}
		if x.Call.IsInvoke() {
			return docTainted(x.Call.Value, depth-1, seen)
		}
		return false
	case *ssa.Alloc:
		for _, ref := range *x.Referrers() {
			switch y := ref.(type) {
			case *ssa.Store:
				if y.Addr == ssa.Value(x) && docTainted(y.Val, depth-1, seen) {
					return true
				}
			case *ssa.MakeInterface:
				for _, r2 := range *y.Referrers() {
					if c, ok := r2.(*ssa.Call); ok {
						for _, a := range c.Call.Args {
							if a != ssa.Value(y) && docTainted(a, depth-1, seen) {
								return true
							}
						}
					}
				}
			case *ssa.IndexAddr:
				for _, r2 := range *y.Referrers() {
					if st, ok := r2.(*ssa.Store); ok && st.Addr == ssa.Value(y) && docTainted(st.Val, depth-1, seen) {
						return true
					}
				}
			case *ssa.FieldAddr:
				for _, r2 := range *y.Referrers() {
					if st, ok := r2.(*ssa.Store); ok && st.Addr == ssa.Value(y) && docTainted(st.Val, depth-1, seen) {
						return true
					}
				}
			case *ssa.Call:
				for _, a := range y.Call.Args {
					if a != ssa.Value(x) && docTainted(a, depth-1, seen) {
						return true
					}
				}
			}
		}
		return false
	case *ssa.Phi:
		for _, e := range x.Edges {
			if docTainted(e, depth-1, seen) {
				return true
			}
		}
		return false
	}
	// generic: any operand
	if in, ok := v.(ssa.Instruction); ok {
		for _, op := range in.Operands(nil) {
			if *op != nil && docTainted(*op, depth-1, seen) {
				return true
			}
		}
	}
	return false
}

func hasJSONStructural(s string) bool { return strings.ContainsAny(s, "[]{},:\"") }

func checkC07(p *core.Program, r *core.Report) {
	const R1 = "C07.R1 no-context-free-rewriting"
	const R2 = "C07.R2 ordered-decode"
	const R3 = "C07.R3 rewrite-exhaustive-recursive"
	const R4 = "C07.R4 envelope-splice"
	const R5 = "C07.R5 string-literal-scanner"
	r.Explanation = "C07 (EEBUS-JSON transform is a lossless round trip): round-trip equality over all documents is an input-space property; decided clauses in package ship: (R1) no Replace/Trim/regexp rewriting with a pattern containing a JSON structural character is applied to a value computed from document bytes (the only accepted idiom is TrimPrefix/TrimSuffix of one bracket on the encoder's own output); (R2) the forward direction decodes only into the order-preserving map and every Go map it builds receives exactly one member; (R3) the tree rewrite has a case for both container kinds, applies itself to every child and emits the result of that call (never the original child), and returns scalars unchanged; (R4) the placeholder splice searches a text that is not computed from payload bytes and inserts the payload only as the replacement; (R5) the inverse direction's scanner applies its structural rewrites outside string literals only: it tracks an in-string state, leaves it on an unescaped quote, and consumes a backslash together with the character it escapes. Not decided: semantic equality for all documents, the empty-array/empty-object ambiguity of the wire form itself."
	r.Rule(R1, "Replace*/Trim*/regexp sites with a structural pattern: subject not computed from document bytes")
	r.Rule(R2, "json.Unmarshal targets in the forward transform are *ordered.OrderedMap; MakeMap sites get exactly one MapUpdate")
	r.Rule(R3, "type switch covers *OrderedMap and []interface{}; emitted child = recursive call result; default returns the input")
	r.Rule(R4, "ReplaceAll with the placeholder pattern: subject untainted by the payload, replacement is the payload")
	r.Rule(R5, "inverse scanner: in-string flag; quote test only on the not-backslash edge; backslash edge skips the escaped byte")

	shipFns := p.FuncsOf("ship")
	into := p.Func("ship", "JsonIntoEEBUSJson")
	from := p.Func("ship", "JsonFromEEBUSJson")
	if into == nil || from == nil {
		r.Unresolved(R1, "ship.JsonIntoEEBUSJson / ship.JsonFromEEBUSJson")
		return
	}
	// ---- R1 / R4
	placeholder := ""
	if c := p.Const("ship", "payloadPlaceholder"); c != nil {
		placeholder = constant.StringVal(c.Val())
	}
	nsites := 0
	for _, fn := range shipFns {
		core.EachInstr(fn, func(in ssa.Instruction) {
			c := core.Common(in)
			if c == nil || c.IsInvoke() {
				return
			}
			name := core.CalleeName(c)
			var subject ssa.Value
			var pats []string
			kind := ""
			switch name {
			case "strings.ReplaceAll", "strings.Replace", "bytes.ReplaceAll", "bytes.Replace":
				subject, kind = c.Args[0], "replace"
				pats = append(pats, constPattern(c.Args[1]))
			case "strings.Trim", "strings.TrimLeft", "strings.TrimRight", "bytes.Trim", "bytes.TrimLeft", "bytes.TrimRight":
				subject, kind = c.Args[0], "trimset"
				pats = append(pats, constPattern(c.Args[1]))
			case "strings.TrimPrefix", "strings.TrimSuffix", "bytes.TrimPrefix", "bytes.TrimSuffix":
				subject, kind = c.Args[0], "trimend"
				pats = append(pats, constPattern(c.Args[1]))
			case "strings.NewReplacer":
				kind = "replacer"
				r.Fail(R1, "strings.NewReplacer in "+shortFn(p.FnName(fn)), p.Pos(in.Pos()), "a context-free replacer is built in the transform code")
				return
			default:
				if strings.HasPrefix(name, "(*regexp.Regexp).Replace") {
					subject, kind = c.Args[1], "regexp"
					pats = append(pats, "{")
				} else {
					return
				}
			}
			structural := false
			for _, pt := range pats {
				if pt == "\x00unknown" || hasJSONStructural(pt) {
					structural = true
				}
			}
			// a replacement anywhere in the text (as opposed to a trim at its ends) changes string contents
			// whatever the pattern is - e.g. deleting every 0x00 byte instead of trimming trailing ones
			if kind == "replace" {
				structural = true
			}
			if !structural {
				return
			}
			nsites++
			key := fmt.Sprintf("%s(%q) in %s", name, strings.Join(pats, ","), shortFn(p.FnName(fn)))
			tainted := docTainted(subject, 14, map[ssa.Value]bool{})
			isPlaceholder := placeholder != "" && len(pats) == 1 && strings.Contains(pats[0], placeholder)
			if !isPlaceholder && kind == "replace" && len(c.Args) >= 3 && !tainted && docTainted(c.Args[2], 14, map[ssa.Value]bool{}) {
				isPlaceholder = true // a splice: untainted envelope text, document bytes only as the replacement
			}
			switch {
			case isPlaceholder:
				// R4
				if tainted {
					r.Fail(R4, key, p.Pos(in.Pos()), "the text searched for the payload placeholder is computed from payload bytes: a payload containing the placeholder text is spliced into")
				} else if !docTainted(c.Args[2], 14, map[ssa.Value]bool{}) {
					r.Fail(R4, key, p.Pos(in.Pos()), "the placeholder is not replaced by the payload")
				} else {
					r.OK(R4, key, p.Pos(in.Pos()), "envelope text is independent of the payload; payload occurs only as the replacement")
				}
			case kind == "trimend" && len(pats[0]) == 1 && encoderOutput(subject):
				r.OK(R1, key, p.Pos(in.Pos()), "acts on position 0 / n-1 of the encoder's own output only")
			case !tainted:
				r.OK(R1, key, p.Pos(in.Pos()), "subject is not computed from document bytes")
			default:
				r.Fail(R1, key, p.Pos(in.Pos()), "a context-free textual rewrite with a JSON structural pattern is applied to document bytes: the same character sequence inside a JSON string is rewritten too (string contents do not survive)")
			}
		})
	}
	r.Counts["rewrite_sites_with_structural_pattern"] = nsites
	r.Floor(R1, 2)
	r.Floor(R4, 1)

	// ---- R2
	reach := map[*ssa.Function]bool{}
	var visit func(f *ssa.Function)
	visit = func(f *ssa.Function) {
		if f == nil || reach[f] || p.PkgShort(f) != "ship" || f.Blocks == nil {
			return
		}
		reach[f] = true
		core.EachInstr(f, func(in ssa.Instruction) {
			if c := core.Common(in); c != nil {
				visit(c.StaticCallee())
			}
		})
	}
	visit(into)
	nun := 0
	for f := range reach {
		core.EachInstr(f, func(in ssa.Instruction) {
			if core.IsStaticCall(in, "encoding/json.Unmarshal") || core.IsStaticCall(in, "(*encoding/json.Decoder).Decode") {
				nun++
				c := core.Common(in)
				tgt := c.Args[len(c.Args)-1]
				key := "decode target in " + shortFn(p.FnName(f))
				t := tgt.Type()
				if mi, ok := tgt.(*ssa.MakeInterface); ok {
					t = mi.X.Type()
				}
				ok := false
				for i := 0; i < 3; i++ {
					if core.TypeIs(t, "gitlab.com/c0b/go-ordered-json", "OrderedMap") {
						ok = true
					}
					if pt, isP := t.Underlying().(*types.Pointer); isP {
						t = pt.Elem()
					}
				}
				if ok {
					r.OK(R2, key, p.Pos(in.Pos()), "decoded into the order-preserving map (numbers kept as json.Number)")
				} else {
					r.Fail(R2, key, p.Pos(in.Pos()), "the document is decoded into "+types.TypeString(tgt.Type(), nil)+": Go maps lose member order and float64 loses number precision")
				}
			}
			if mk, ok := in.(*ssa.MakeMap); ok {
				n := 0
				for _, ref := range *mk.Referrers() {
					if _, ok := ref.(*ssa.MapUpdate); ok {
						n++
					}
				}
				key := "map built in " + shortFn(p.FnName(f))
				if n == 1 {
					r.OK(R2, key, p.Pos(in.Pos()), "single-member object")
				} else {
					r.Fail(R2, key, p.Pos(in.Pos()), fmt.Sprintf("a Go map with %d members is emitted: the wire form must consist of single-member objects (member order is lost otherwise)", n))
				}
			}
		})
	}
	if nun == 0 {
		r.Fail(R2, "decode in forward transform", p.Pos(into.Pos()), "no json decode found")
	}

	// ---- R3
	var rw *ssa.Function
	var rwHelpers []*ssa.Function // functions rw delegates a container kind to and that call rw back
	for f := range reach {
		rec := false
		var helpers []*ssa.Function
		core.EachInstr(f, func(in ssa.Instruction) {
			c := core.Common(in)
			if c == nil || c.StaticCallee() == nil {
				return
			}
			t := c.StaticCallee()
			if t == f {
				rec = true
				return
			}
			if reach[t] && t.Blocks != nil {
				back := false
				core.EachInstr(t, func(y ssa.Instruction) {
					if cy := core.Common(y); cy != nil && cy.StaticCallee() == f {
						back = true
					}
				})
				if back {
					rec = true
					helpers = append(helpers, t)
				}
			}
		})
		// the dispatcher is the one with the type switch over the container kinds
		hasSwitch := false
		core.EachInstr(f, func(in ssa.Instruction) {
			if ta, ok := in.(*ssa.TypeAssert); ok && core.TypeIs(ta.AssertedType, "gitlab.com/c0b/go-ordered-json", "OrderedMap") {
				hasSwitch = true
			}
		})
		if rec && (hasSwitch || rw == nil) {
			rw, rwHelpers = f, helpers
		}
	}
	eachRW := func(f func(in ssa.Instruction)) {
		if rw == nil {
			return
		}
		core.EachInstr(rw, f)
		for _, h := range rwHelpers {
			core.EachInstr(h, f)
		}
	}
	if rw == nil {
		r.Fail(R3, "tree rewrite function", "", "no recursive rewrite function reachable from JsonIntoEEBUSJson")
	} else {
		name := shortFn(p.FnName(rw))
		cases := map[string]bool{}
		core.EachInstr(rw, func(in ssa.Instruction) {
			if ta, ok := in.(*ssa.TypeAssert); ok {
				switch {
				case core.TypeIs(ta.AssertedType, "gitlab.com/c0b/go-ordered-json", "OrderedMap"):
					cases["object"] = true
				default:
					if s, ok := ta.AssertedType.Underlying().(*types.Slice); ok {
						if _, isI := s.Elem().Underlying().(*types.Interface); isI {
							cases["array"] = true
						}
					}
				}
			}
		})
		for _, k := range []string{"object", "array"} {
			key := name + " handles " + k
			if cases[k] {
				r.OK(R3, key, p.Pos(rw.Pos()), "type switch case present")
			} else {
				r.Fail(R3, key, p.Pos(rw.Pos()), "the rewrite has no case for JSON "+k+"s: nested containers of that kind are not transformed")
			}
		}
		isRec := func(v ssa.Value) bool {
			c, ok := core.Canon(v).(*ssa.Call)
			return ok && c.Call.StaticCallee() == rw
		}
		nem := 0
		eachRW(func(in ssa.Instruction) {
			switch x := in.(type) {
			case *ssa.MapUpdate:
				nem++
				key := name + " object member value is the rewritten child"
				if isRec(x.Value) && core.InLoop(in.Block()) {
					r.OK(R3, key, p.Pos(in.Pos()), "F(child) inside the loop over all members")
				} else {
					r.Fail(R3, key, p.Pos(in.Pos()), "an object member is emitted with a value that is not the recursively rewritten child (or outside the member loop)")
				}
			case *ssa.Store:
				// indexed emission: out[i] = v on a []interface{} built by the function
				ia, ok := x.Addr.(*ssa.IndexAddr)
				if !ok {
					return
				}
				st, ok := ia.X.Type().Underlying().(*types.Slice)
				if !ok {
					return
				}
				if _, isI := st.Elem().Underlying().(*types.Interface); !isI {
					return
				}
				if mi, ok := x.Val.(*ssa.MakeInterface); ok {
					if _, isMap := mi.X.Type().Underlying().(*types.Map); isMap {
						return
					}
				}
				nem++
				key := name + " array element is the rewritten child"
				if isRec(x.Val) && core.InLoop(in.Block()) {
					r.OK(R3, key, p.Pos(in.Pos()), "F(child) inside the loop over all elements")
				} else {
					r.Fail(R3, key, p.Pos(in.Pos()), "an array element is emitted without (or only conditionally) applying the rewrite to it: objects nested inside such arrays keep their plain form, and the inverse transform then changes the document")
				}
			case *ssa.Call:
				if !isBuiltin(in, "append") || len(x.Call.Args) != 2 {
					return
				}
				// appended elements: values stored into the varargs array
				var elems []ssa.Value
				if sl, ok := x.Call.Args[1].(*ssa.Slice); ok {
					if al, ok := sl.X.(*ssa.Alloc); ok {
						for _, ref := range *al.Referrers() {
							if ia, ok := ref.(*ssa.IndexAddr); ok {
								for _, r2 := range *ia.Referrers() {
									if st, ok := r2.(*ssa.Store); ok {
										elems = append(elems, st.Val)
									}
								}
							}
						}
					}
				}
				for _, e := range elems {
					if mi, ok := e.(*ssa.MakeInterface); ok {
						if _, isMap := mi.X.Type().Underlying().(*types.Map); isMap {
							continue // the single-member object built from the rewritten child (checked above)
						}
					}
					nem++
					key := name + " array element is the rewritten child"
					if isRec(e) && core.InLoop(in.Block()) {
						r.OK(R3, key, p.Pos(in.Pos()), "F(child) inside the loop over all elements")
					} else {
						r.Fail(R3, key, p.Pos(in.Pos()), "an array element is emitted without (or only conditionally) applying the rewrite to it: objects nested inside such arrays keep their plain form, and the inverse transform then changes the document")
					}
				}
			}
		})
		if nem < 2 {
			r.Fail(R3, name+" emits rewritten children", p.Pos(rw.Pos()), "expected an object-member and an array-element emission")
		}
		// every iteration of a member/element loop emits: no path from the loop test back to it skips the emission
		eachRW(func(in ssa.Instruction) {
			kind := ""
			switch x := in.(type) {
			case *ssa.MapUpdate:
				if isRec(x.Value) {
					kind = "object member"
				}
			case *ssa.Store:
				if ia, ok := x.Addr.(*ssa.IndexAddr); ok && isRec(x.Val) {
					if _, ok := ia.X.Type().Underlying().(*types.Slice); ok {
						kind = "array element"
					}
				}
			}
			if c, ok := in.(*ssa.Call); ok && isBuiltin(in, "append") && len(c.Call.Args) == 2 {
				if sl, ok := c.Call.Args[1].(*ssa.Slice); ok {
					if al, ok := sl.X.(*ssa.Alloc); ok {
						for _, ref := range *al.Referrers() {
							if ia, ok := ref.(*ssa.IndexAddr); ok {
								for _, r2 := range *ia.Referrers() {
									if st, ok := r2.(*ssa.Store); ok && isRec(st.Val) {
										kind = "array element"
									}
								}
							}
						}
					}
				}
			}
			if kind == "" || !core.InLoop(in.Block()) {
				return
			}
			key := name + " every " + kind + " is emitted"
			if bad := skipsIteration(in); bad != nil {
				r.Fail(R3, key, p.Pos(bad.Pos()), "an iteration of the loop over the children can go on to the next child without emitting this one (a value-dependent `continue`, e.g. for null): the member disappears from the wire form")
			} else {
				r.OK(R3, key, p.Pos(in.Pos()), "no path from the loop test back to it avoids the emission")
			}
		})
		// emitted containers are never nil (an empty array/object must not become null)
		eachRW(func(in ssa.Instruction) {
			ret, ok := in.(*ssa.Return)
			if !ok || len(ret.Results) != 1 {
				return
			}
			v := core.ResultOf(ret, 0)
			var sliceVal ssa.Value
			if mi, ok := v.(*ssa.MakeInterface); ok {
				sliceVal = mi.X
			} else if in.Parent() != rw {
				sliceVal = v // a helper returns the slice itself
			}
			if sliceVal == nil {
				return
			}
			if _, isSlice := sliceVal.Type().Underlying().(*types.Slice); !isSlice {
				return
			}
			if c, isCall := sliceVal.(*ssa.Call); isCall && !isBuiltin(c, "append") {
				return // built by a helper, judged at the helper's own return
			}
			mi := struct{ X ssa.Value }{sliceVal}
			nilRoot := false
			seen := map[ssa.Value]bool{}
			var walk func(x ssa.Value, d int)
			walk = func(x ssa.Value, d int) {
				if d > 8 || x == nil || seen[x] {
					return
				}
				seen[x] = true
				if core.IsNilConst(x) {
					nilRoot = true
					return
				}
				switch y := x.(type) {
				case *ssa.Phi:
					for _, e := range y.Edges {
						walk(e, d+1)
					}
				case *ssa.Call:
					if isBuiltin(y, "append") {
						// append(nil) of zero elements stays nil: only the accumulator root matters
						walk(y.Call.Args[0], d+1)
					}
				}
			}
			walk(mi.X, 0)
			key := name + " emits non-nil containers"
			if nilRoot {
				r.Fail(R3, key, p.Pos(ret.Pos()), "the rewritten container starts as a nil slice: an empty array (or object) is encoded as null instead of []")
			} else {
				r.OK(R3, key, p.Pos(ret.Pos()), "accumulators are allocated (make)")
			}
		})
		// default returns the input
		okDefault := false
		core.EachInstr(rw, func(in ssa.Instruction) {
			if ret, ok := in.(*ssa.Return); ok && len(ret.Results) == 1 {
				if core.Canon(core.ResultOf(ret, 0)) == ssa.Value(rw.Params[0]) {
					okDefault = true
				}
			}
		})
		// ... and only for scalars: a return of the input itself is reached only after both container type tests failed
		{
			notContainer := func(kind string) core.EdgeFilter {
				return func(b *ssa.BasicBlock, idx int) bool {
					i := core.BlockIf(b)
					if i == nil {
						return false
					}
					v, truth := core.Truth(i.Cond, idx)
					ex, ok := v.(*ssa.Extract)
					if !ok || ex.Index != 1 || truth {
						return false
					}
					ta, ok := ex.Tuple.(*ssa.TypeAssert)
					if !ok {
						return false
					}
					switch kind {
					case "object":
						return core.TypeIs(ta.AssertedType, "gitlab.com/c0b/go-ordered-json", "OrderedMap")
					default:
						if s, ok := ta.AssertedType.Underlying().(*types.Slice); ok {
							_, isI := s.Elem().Underlying().(*types.Interface)
							return isI
						}
					}
					return false
				}
			}
			badRet := false
			core.EachInstr(rw, func(in ssa.Instruction) {
				ret, ok := in.(*ssa.Return)
				if !ok || len(ret.Results) != 1 || core.Canon(core.ResultOf(ret, 0)) != ssa.Value(rw.Params[0]) {
					return
				}
				if !core.Guarded(ret, notContainer("object")) || !core.Guarded(ret, notContainer("array")) {
					badRet = true
					r.Fail(R3, name+" returns its input only for scalars", p.Pos(ret.Pos()), "the rewrite can return a container unchanged (e.g. behind a depth limit): objects below that point keep their plain multi-member form on the wire, and the inverse transform then merges neighbouring objects of an array")
				}
			})
			if !badRet {
				r.OK(R3, name+" returns its input only for scalars", p.Pos(rw.Pos()), "the identity return sits behind both failed container type tests")
			}
		}
		if okDefault {
			r.OK(R3, name+" returns scalars unchanged", p.Pos(rw.Pos()), "default case returns its input")
		} else {
			r.Fail(R3, name+" returns scalars unchanged", p.Pos(rw.Pos()), "no path returns the input value itself")
		}
		// ... and nothing else is returned for a scalar: every return is the input itself or a container the
		// function built (a case that converts a scalar - json.Number to int64/float64, a string to something
		// else - changes number literals or string contents on the wire)
		convBad := false
		core.EachInstr(rw, func(in ssa.Instruction) {
			ret, ok := in.(*ssa.Return)
			if !ok || len(ret.Results) != 1 {
				return
			}
			v := core.ResultOf(ret, 0)
			if core.Canon(v) == ssa.Value(rw.Params[0]) {
				return
			}
			var okContainer func(x ssa.Value, d int) bool
			okContainer = func(x ssa.Value, d int) bool {
				if d > 6 {
					return false
				}
				switch y := x.(type) {
				case *ssa.MakeInterface:
					switch y.X.Type().Underlying().(type) {
					case *types.Slice, *types.Map:
						return true
					case *types.Pointer:
						return true // *OrderedMap built locally
					}
					return false
				case *ssa.Phi:
					for _, e := range y.Edges {
						if !okContainer(e, d+1) && core.Canon(e) != ssa.Value(rw.Params[0]) {
							return false
						}
					}
					return true
				}
				return false
			}
			if !okContainer(v, 0) {
				convBad = true
				r.Fail(R3, name+" returns only its input or a rebuilt container", p.Pos(ret.Pos()), "a case of the rewrite returns a converted scalar (not the input value itself): number literals beyond int64/float64 precision, or their spelling, change on the wire")
			}
		})
		if !convBad {
			r.OK(R3, name+" returns only its input or a rebuilt container", p.Pos(rw.Pos()), "no scalar is converted")
		}
	}

	// ---- R7 the empty array survives the inverse direction
	const R7 = "C07.R7 empty-array-preserved"
	r.Rule(R7, "the inverse transform does not rewrite the two-byte wire token [] : the forward direction encodes an empty array as [] (unchanged), so an inverse that turns [] into {} makes {\"a\":[]} come back as {\"a\":{}}")
	{
		n := 0
		core.EachInstr(from, func(in ssa.Instruction) {
			c := core.Common(in)
			if c == nil {
				return
			}
			switch core.CalleeName(c) {
			case "bytes.HasPrefix", "bytes.ReplaceAll", "bytes.Replace", "bytes.Equal", "bytes.Index", "strings.HasPrefix", "strings.ReplaceAll", "strings.Replace", "strings.Index":
			default:
				return
			}
			for _, a := range c.Args {
				v := core.Canon(a)
				if sl, ok := v.(*ssa.Slice); ok {
					v = core.Canon(sl.X)
				}
				if k, ok := strConst(v); ok && k == "[]" {
					n++
					r.Fail(R7, "inverse rewrites [] in "+p.FnName(from), p.Pos(in.Pos()), "the inverse transform replaces the wire token [] (by {}): an empty array does not survive the round trip - {\"a\":[]} is returned as {\"a\":{}}", "JsonIntoEEBUSJson({\"a\":[]}) = {\"a\":[]} ; JsonFromEEBUSJson of that = {\"a\":{}}")
				}
			}
		})
		if n == 0 {
			r.OK(R7, "inverse leaves [] alone in "+p.FnName(from), p.Pos(from.Pos()), "no rewrite of the empty-array token")
		}
	}

	// ---- R6 the converted document does not alias storage that outlives the call
	const R6 = "C07.R6 result-freshly-allocated"
	r.Rule(R6, "the byte slice returned by the inverse transform is built in a buffer allocated by this call (make / append to nil), not in pooled, global or caller-owned storage")
	core.EachInstr(from, func(in ssa.Instruction) {
		ret, ok := in.(*ssa.Return)
		if !ok || ret.Block() == from.Recover || len(ret.Results) != 1 {
			return
		}
		fresh, why := true, ""
		seen := map[ssa.Value]bool{}
		var walk func(x ssa.Value, d int)
		walk = func(x ssa.Value, d int) {
			if d > 12 || x == nil || seen[x] {
				return
			}
			seen[x] = true
			switch y := x.(type) {
			case *ssa.MakeSlice:
			case *ssa.Const:
			case *ssa.Phi:
				for _, e := range y.Edges {
					walk(e, d+1)
				}
			case *ssa.Slice:
				walk(y.X, d+1)
			case *ssa.Call:
				n := core.CalleeName(&y.Call)
				switch {
				case isBuiltin(y, "append"):
					walk(y.Call.Args[0], d+1)
				case n == "bytes.Trim" || n == "bytes.TrimRight" || n == "bytes.TrimLeft" || n == "bytes.TrimSpace":
					walk(y.Call.Args[0], d+1)
				case n == "bytes.Clone" || n == "slices.Clone" || n == "bytes.ReplaceAll" || n == "bytes.Replace":
					// returns a copy
				default:
					fresh, why = false, "result of "+n
				}
			case *ssa.Parameter:
				fresh, why = false, "the input slice itself"
			default:
				fresh, why = false, fmt.Sprintf("%T", x)
			}
		}
		walk(core.ResultOf(ret, 0), 0)
		key := shortFn(p.FnName(from)) + " result"
		if fresh {
			r.OK(R6, key, p.Pos(ret.Pos()), "backing array allocated by this call")
		} else {
			r.Fail(R6, key, p.Pos(ret.Pos()), "the returned document shares its backing array with storage that outlives the call ("+why+"): a later conversion overwrites a document a caller still holds")
		}
	})
	r.Floor(R6, 1)

	// ---- R5 scanner of the inverse direction
	checkScanner(p, r, R5, from)
}

func constPattern(v ssa.Value) string {
	if s, ok := strConst(v); ok {
		return s
	}
	// []byte("..") conversion of a constant
	if cv, ok := v.(*ssa.Convert); ok {
		if s, ok := strConst(cv.X); ok {
			return s
		}
	}
	return "\x00unknown"
}

// encoderOutput: v is (a string conversion of) the result of json.Marshal in the same function.
func encoderOutput(v ssa.Value) bool {
	for i := 0; i < 6 && v != nil; i++ {
		switch x := v.(type) {
		case *ssa.Convert:
			v = x.X
		case *ssa.ChangeType:
			v = x.X
		case *ssa.Extract:
			v = x.Tuple
		case *ssa.Call:
			n := core.CalleeName(&x.Call)
			if n == "encoding/json.Marshal" {
				return true
			}
			// a previous TrimPrefix/TrimSuffix of the same kind
			if (n == "strings.TrimPrefix" || n == "strings.TrimSuffix") && len(x.Call.Args) == 2 {
				v = x.Call.Args[0]
				continue
			}
			return false
		default:
			return false
		}
	}
	return false
}

// checkScanner recognises the byte scanner of JsonFromEEBUSJson and checks
// its string-literal handling.
func checkScanner(p *core.Program, r *core.Report, R5 string, fn *ssa.Function) {
	name := shortFn(p.FnName(fn))
	// alternative: tokenising through encoding/json
	usesDecoder := false
	core.EachInstr(fn, func(in ssa.Instruction) {
		if c := core.Common(in); c != nil {
			n := core.CalleeName(c)
			if n == "(*encoding/json.Decoder).Token" || n == "encoding/json.Unmarshal" {
				usesDecoder = true
			}
		}
	})
	if usesDecoder {
		r.OK(R5, name+" tokenises with encoding/json", p.Pos(fn.Pos()), "string literals are recognised by the JSON tokenizer")
		return
	}
	// the current byte: load of json[i] inside the loop
	byteEq := func(v ssa.Value, ch byte) (ssa.Value, bool, bool) { // (other operand, matched, isEQL)
		bo, ok := v.(*ssa.BinOp)
		if !ok || (bo.Op != token.EQL && bo.Op != token.NEQ) {
			return nil, false, false
		}
		if k, isC := intConst(bo.Y); isC && k == int64(ch) {
			return bo.X, true, bo.Op == token.EQL
		}
		if k, isC := intConst(bo.X); isC && k == int64(ch) {
			return bo.Y, true, bo.Op == token.EQL
		}
		return nil, false, false
	}
	// in-string flag: a bool phi that is used as a branch condition inside the loop and whose
	// phi-closure has both a true and a false source
	var flag *ssa.Phi
	closure := func(phi *ssa.Phi) (hasT, hasF bool, members map[*ssa.Phi]bool) {
		members = map[*ssa.Phi]bool{}
		var walk func(v ssa.Value)
		walk = func(v ssa.Value) {
			if isBoolConst(v, true) {
				hasT = true
			}
			if isBoolConst(v, false) {
				hasF = true
			}
			if ph, ok := v.(*ssa.Phi); ok && !members[ph] {
				members[ph] = true
				for _, e := range ph.Edges {
					walk(e)
				}
			}
		}
		walk(phi)
		return
	}
	var flagSet map[*ssa.Phi]bool
	for _, b := range fn.Blocks {
		i := core.BlockIf(b)
		if i == nil || !core.InLoop(b) {
			continue
		}
		v, _ := core.Truth(i.Cond, 0)
		if phi, ok := v.(*ssa.Phi); ok && flag == nil {
			if t, f, m := closure(phi); t && f {
				flag, flagSet = phi, m
			}
		}
	}
	if flag == nil {
		r.Fail(R5, name+" tracks string literals", p.Pos(fn.Pos()), "the inverse transform has no in-string state: its structural rewrites also hit the contents of JSON strings")
		return
	}
	r.OK(R5, name+" tracks string literals", p.Pos(flag.Pos()), "in-string flag carried around the scan loop")
	// structural rewrites only on the not-in-string edge: every append of a constant structural byte that replaces input
	// is guarded by flag == false. We check the converse necessary condition on the quote handling:
	// (a) a backslash test on the current byte exists inside the in-string region, (b) its true edge advances the index
	var bsIf *ssa.If
	var bsTrue int
	for _, b := range fn.Blocks {
		i := core.BlockIf(b)
		if i == nil {
			continue
		}
		for idx := 0; idx < 2; idx++ {
			v, truth := core.Truth(i.Cond, idx)
			if _, m, isEq := byteEq(v, '\\'); m && truth == isEq {
				bsIf, bsTrue = i, idx
			}
		}
	}
	inStringEdge := func(b *ssa.BasicBlock, idx int) bool {
		i := core.BlockIf(b)
		if i == nil {
			return false
		}
		v, truth := core.Truth(i.Cond, idx)
		ph, ok := v.(*ssa.Phi)
		return ok && flagSet[ph] && truth
	}
	if bsIf == nil {
		r.Fail(R5, name+" consumes escape pairs", p.Pos(fn.Pos()), "the scanner never tests the current byte for a backslash: an escaped quote (or a string ending in an escaped backslash) ends / fails to end the string literal at the wrong place")
		return
	}
	if !core.Guarded(bsIf, inStringEdge) {
		r.Fail(R5, name+" backslash handled inside strings", p.Pos(bsIf.Pos()), "the backslash test is not confined to the in-string state")
	} else {
		r.OK(R5, name+" backslash handled inside strings", p.Pos(bsIf.Pos()), "tested on the in-string edge")
	}
	// (b) on some path from the backslash edge to the next iteration the index is advanced twice
	// (the regular step plus the escaped byte), and (c) the block that consumes the escaped byte keeps the in-string state
	target := bsIf.Block().Succs[bsTrue]
	header := flag.Block()
	isStep := func(in ssa.Instruction) bool {
		bo, ok := in.(*ssa.BinOp)
		if !ok || bo.Op != token.ADD {
			return false
		}
		k, isC := intConst(bo.Y)
		if !isC || k != 1 {
			return false
		}
		_, isPhi := bo.X.(*ssa.Phi)
		return isPhi && core.InLoop(in.Block())
	}
	maxSteps := 0
	keepsState := true
	var dfs func(b *ssa.BasicBlock, steps int, consumed bool, onPath map[*ssa.BasicBlock]bool)
	dfs = func(b *ssa.BasicBlock, steps int, consumed bool, onPath map[*ssa.BasicBlock]bool) {
		if onPath[b] {
			return
		}
		if b == header {
			if steps > maxSteps {
				maxSteps = steps
			}
			return
		}
		onPath[b] = true
		for _, in := range b.Instrs {
			if isStep(in) {
				steps++
				if steps == 1 && b != header {
					// first step seen on this path after the backslash edge
				}
			}
		}
		for _, s := range b.Succs {
			// state kept? if this edge feeds a member phi of the flag with const false after the escaped byte was consumed
			if consumed || steps >= 1 {
				for k, pb := range s.Preds {
					if pb != b {
						continue
					}
					for _, in := range s.Instrs {
						if ph, ok := in.(*ssa.Phi); ok && flagSet[ph] && steps >= 1 && b != s {
							if isBoolConst(ph.Edges[k], false) && stepBefore(b, isStep) {
								keepsState = false
							}
						}
					}
				}
			}
			dfs(s, steps, consumed, onPath)
		}
		onPath[b] = false
	}
	dfs(target, 0, false, map[*ssa.BasicBlock]bool{})
	if maxSteps >= 2 {
		r.OK(R5, name+" consumes escape pairs", p.Pos(bsIf.Pos()), "the backslash edge skips the escaped byte")
	} else {
		r.Fail(R5, name+" consumes escape pairs", p.Pos(bsIf.Pos()), "the backslash edge does not consume the escaped byte: a quote after an even number of backslashes, or \\\\\" sequences, are mis-parsed")
	}
	if keepsState {
		r.OK(R5, name+" escaped quote does not end the string", p.Pos(bsIf.Pos()), "the in-string state is kept across an escape pair")
	} else {
		r.Fail(R5, name+" escaped quote does not end the string", p.Pos(bsIf.Pos()), "the block that consumes the escaped byte also leaves the in-string state")
	}
	// (d) the quote test exists and leads to leaving the state
	quote := false
	for _, b := range fn.Blocks {
		if i := core.BlockIf(b); i != nil {
			v, _ := core.Truth(i.Cond, 0)
			if _, m, _ := byteEq(v, '"'); m {
				quote = true
			}
		}
	}
	if quote {
		r.OK(R5, name+" leaves strings on a quote", p.Pos(fn.Pos()), "quote test present")
	} else {
		r.Fail(R5, name+" leaves strings on a quote", p.Pos(fn.Pos()), "no quote test")
	}
}

// stepBefore: block b itself contains an index step (the escaped byte is consumed in b).
func stepBefore(b *ssa.BasicBlock, isStep func(ssa.Instruction) bool) bool {
	for _, in := range b.Instrs {
		if isStep(in) {
			return true
		}
	}
	return false
}

// skipsIteration: emit lies in a loop; returns the loop header's first instruction when some path from the
// loop test leads back to the header without passing emit (nil when every iteration emits).
func skipsIteration(emit ssa.Instruction) ssa.Instruction {
	b := emit.Block()
	reach := core.ReachableFrom(b, nil)
	var hdr *ssa.BasicBlock
	for d := b; d != nil && hdr == nil; d = d.Idom() {
		for _, pr := range d.Preds {
			if d.Dominates(pr) && reach[pr] {
				hdr = d
				break
			}
		}
	}
	if hdr == nil || len(hdr.Instrs) == 0 {
		return nil
	}
	first := hdr.Instrs[0]
	last := hdr.Instrs[len(hdr.Instrs)-1]
	if first == last {
		return nil
	}
	return core.PathSearch(b.Parent(), last, func(in ssa.Instruction) bool { return in == first }, func(in ssa.Instruction) bool { return in == emit }, nil)
}
