package rules

import (
	"fmt"
	"go/constant"
	"go/token"
	"go/types"
	"sort"
	"strings"

	"golang.org/x/tools/go/callgraph"
	"golang.org/x/tools/go/ssa"

	"shipverif/internal/core"
)

func init() { register("C08", checkC08) }

// ---------- access paths and dominating facts ----------

// accessPath renders a value as root + field/deref path so that two loads of
// the same location compare equal ("" when it has no such form).
func accessPath(v ssa.Value, depth int) string {
	if depth > 10 {
		return ""
	}
	switch x := v.(type) {
	case *ssa.Const:
		if x.Value == nil {
			return "nil"
		}
		return "#" + x.Value.ExactString()
	case *ssa.BinOp:
		a, b := accessPath(x.X, depth+1), accessPath(x.Y, depth+1)
		if a != "" && b != "" {
			return "(" + a + x.Op.String() + b + ")"
		}
		return fmt.Sprintf("%s@%p", v.Name(), v)
	case *ssa.Parameter, *ssa.Alloc, *ssa.FreeVar, *ssa.Global, *ssa.Call, *ssa.Extract, *ssa.Phi, *ssa.Lookup, *ssa.TypeAssert, *ssa.MakeSlice, *ssa.Slice, *ssa.Next, *ssa.Range, *ssa.Convert, *ssa.MakeInterface:
		return fmt.Sprintf("%s@%p", v.Name(), v)
	case *ssa.UnOp:
		if x.Op == token.MUL {
			if b := accessPath(x.X, depth+1); b != "" {
				return b + ".*"
			}
		}
		return fmt.Sprintf("%s@%p", v.Name(), v)
	case *ssa.FieldAddr:
		if b := accessPath(x.X, depth+1); b != "" {
			return fmt.Sprintf("%s.&%d", b, x.Field)
		}
	case *ssa.Field:
		if b := accessPath(x.X, depth+1); b != "" {
			// a Field of a loaded struct equals a load of the FieldAddr: normalise "X.* .f" == "X.&f.*"
			if strings.HasSuffix(b, ".*") {
				return fmt.Sprintf("%s.&%d.*", strings.TrimSuffix(b, ".*"), x.Field)
			}
			return fmt.Sprintf("%s.f%d", b, x.Field)
		}
	case *ssa.ChangeType:
		return accessPath(x.X, depth+1)
	case *ssa.IndexAddr:
		if b := accessPath(x.X, depth+1); b != "" {
			return fmt.Sprintf("%s[%s]", b, accessPath(x.Index, depth+1))
		}
	}
	return ""
}

func samePlace(a, b ssa.Value) bool {
	if a == b {
		return true
	}
	pa, pb := accessPath(a, 0), accessPath(b, 0)
	return pa != "" && pa == pb
}

type fact struct {
	cond  ssa.Value
	truth bool
}

// dominatingFacts: branch decisions that certainly hold when in executes:
// edges D->S with S having D as its only predecessor and S dominating in's block.
func dominatingFacts(in ssa.Instruction) []fact {
	var out []fact
	blk := in.Block()
	for b := blk; b != nil; b = b.Idom() {
		if len(b.Preds) != 1 {
			continue
		}
		d := b.Preds[0]
		iff := core.BlockIf(d)
		if iff == nil {
			continue
		}
		for idx, s := range d.Succs {
			if s == b && d.Succs[1-idx] != b {
				v, t := core.Truth(iff.Cond, idx)
				out = append(out, fact{v, t})
			}
		}
	}
	return out
}

func lenCallOf(v ssa.Value) ssa.Value {
	c, ok := v.(*ssa.Call)
	if !ok {
		return nil
	}
	if b, ok := c.Call.Value.(*ssa.Builtin); ok && b.Name() == "len" {
		return c.Call.Args[0]
	}
	return nil
}

func intConst(v ssa.Value) (int64, bool) {
	c := core.ConstOf(v)
	if c == nil || c.Kind() != constant.Int {
		return 0, false
	}
	return constant.Int64Val(c)
}

// lenAtLeast: do the facts imply len(x) >= n ?
func lenAtLeast(facts []fact, x ssa.Value, n int64) bool {
	if n <= 0 {
		return true
	}
	for _, f := range facts {
		bo, ok := f.cond.(*ssa.BinOp)
		if !ok {
			continue
		}
		op := bo.Op
		l, rgt := bo.X, bo.Y
		// normalise to len(x') OP k
		if lx := lenCallOf(rgt); lx != nil {
			l, rgt = rgt, l
			switch op {
			case token.LSS:
				op = token.GTR
			case token.GTR:
				op = token.LSS
			case token.LEQ:
				op = token.GEQ
			case token.GEQ:
				op = token.LEQ
			}
		}
		lx := lenCallOf(l)
		if lx == nil || !samePlace(lx, x) {
			continue
		}
		k, ok := intConst(rgt)
		if !ok {
			continue
		}
		if !f.truth {
			switch op {
			case token.EQL:
				op = token.NEQ
			case token.NEQ:
				op = token.EQL
			case token.LSS:
				op = token.GEQ
			case token.LEQ:
				op = token.GTR
			case token.GTR:
				op = token.LEQ
			case token.GEQ:
				op = token.LSS
			}
		}
		switch op {
		case token.GTR:
			if k+1 >= n {
				return true
			}
		case token.GEQ, token.EQL:
			if k >= n {
				return true
			}
		case token.NEQ:
			if k == 0 && n <= 1 {
				return true
			}
		}
	}
	return false
}

// idxInRange: facts imply 0 <= idx < len(x)
func idxInRange(facts []fact, idx, x ssa.Value) bool {
	if k, ok := intConst(idx); ok {
		return k >= 0 && lenAtLeast(facts, x, k+1)
	}
	for _, f := range facts {
		bo, ok := f.cond.(*ssa.BinOp)
		if !ok {
			continue
		}
		// idx < len(x) true  |  idx >= len(x) false | len(x) > idx true | len(x) <= idx false
		if (bo.Op == token.LSS && f.truth || bo.Op == token.GEQ && !f.truth) && samePlace(bo.X, idx) {
			if lx := lenCallOf(bo.Y); lx != nil && samePlace(lx, x) {
				return true
			}
		}
		if (bo.Op == token.GTR && f.truth || bo.Op == token.LEQ && !f.truth) && samePlace(bo.Y, idx) {
			if lx := lenCallOf(bo.X); lx != nil && samePlace(lx, x) {
				return true
			}
		}
	}
	return false
}

// foundIndex: v is the result of strings/bytes.Index*(x, ...) and a dominating fact says it is not negative.
// Then 0 <= v <= len(x); strict reports v < len(x) (always for byte/rune searches, for substring searches
// when the needle is a non-empty constant).
func foundIndex(facts []fact, v, x ssa.Value) (found, strict bool) {
	c, ok := v.(*ssa.Call)
	if !ok || len(c.Call.Args) < 2 || !samePlace(c.Call.Args[0], x) {
		return false, false
	}
	switch core.CalleeName(&c.Call) {
	case "strings.IndexByte", "strings.IndexRune", "bytes.IndexByte", "bytes.IndexRune", "strings.LastIndexByte", "bytes.LastIndexByte":
		strict = true
	case "strings.Index", "bytes.Index", "strings.LastIndex", "bytes.LastIndex", "strings.IndexAny", "bytes.IndexAny":
		if k := core.ConstOf(c.Call.Args[1]); k != nil && k.Kind() == constant.String && constant.StringVal(k) != "" {
			strict = true
		}
	default:
		return false, false
	}
	for _, f := range facts {
		bo, ok := f.cond.(*ssa.BinOp)
		if !ok || bo.X != v {
			continue
		}
		k, isC := intConst(bo.Y)
		if !isC {
			continue
		}
		switch {
		case bo.Op == token.LSS && k == 0 && !f.truth, bo.Op == token.GEQ && k == 0 && f.truth,
			bo.Op == token.EQL && k == -1 && !f.truth, bo.Op == token.NEQ && k == -1 && f.truth,
			bo.Op == token.GTR && k == -1 && f.truth, bo.Op == token.LEQ && k == -1 && !f.truth:
			return true, strict
		}
	}
	return false, false
}

func nonNilFact(facts []fact, ptr ssa.Value) bool {
	for _, f := range facts {
		bo, ok := f.cond.(*ssa.BinOp)
		if !ok || (bo.Op != token.EQL && bo.Op != token.NEQ) {
			continue
		}
		var other ssa.Value
		if core.IsNilConst(bo.Y) {
			other = bo.X
		} else if core.IsNilConst(bo.X) {
			other = bo.Y
		} else {
			continue
		}
		if !samePlace(other, ptr) {
			continue
		}
		if f.truth == (bo.Op == token.NEQ) {
			return true
		}
	}
	return false
}

// ---------- the check ----------

// panicExceptions: reviewed constructs (one named construct + reason each).
var panicExceptions = map[string]string{
	"index mdnsEntries in (*hub.Hub).ReportMdnsEntries$1":     "indices are supplied by sort.Slice within [0,len)",
	"type-assert *tls.Conn in (*hub.Hub).connectFoundService": "value returned by gorilla's wss dial is a *tls.Conn; not peer data",
}

func checkC08(p *core.Program, r *core.Report) {
	defer func() {
		const R5 = "C08.R5 no-shared-map-with-report-goroutine"
		r.Rule(R5, "the map handed to the asynchronous mDNS report is a copy: iterating the live map in the report goroutine while the resolver callback writes it is a fatal, unrecoverable runtime error any host on the link can trigger with a burst of records (rule shared with C17.R3)")
		importRules(p, r, "C17", map[string]string{"C17.R3 snapshot-not-alias": R5}, nil)
		const R6 = "C08.R6 no-lock-left-held"
		r.Rule(R6, "no repo function returns on some path with a mutex it acquired still locked (lock wrappers and deferred unlocks excepted): the next acquirer - e.g. the receive loop stopping the handshake timer - blocks for ever")
		checkLockLeaks(p, r, R6, p.RepoFuncs())
		const R7 = "C08.R7 close-path-cannot-wedge"
		r.Rule(R7, "a local close never reports a connection error upward (shared with C11.R7: the report re-enters the close-once of the SHIP connection on the goroutine that is inside it and blocks the receive loop for ever - an over-long close reason built from peer bytes is enough to make the close frame write fail) the close routine releases blocked writers on every path and a failed write ends the connection instead of silently killing the write pump (shared with C13.R1/R2), and the goroutine a blocking hand-over waits for never takes the mutex held across it (shared with C19.R5)")
		importRules(p, r, "C11", map[string]string{"C11.R7 transport-end-is-reported": R7}, func(key string) bool { return strings.Contains(key, "never reports") })
		importRules(p, r, "C13", map[string]string{"C13.R1 close-routine-releases": R7, "C13.R2 error-told-or-not": R7}, func(key string) bool { return !strings.Contains(key, "not-reported-after-local-close") })
		importRules(p, r, "C19", map[string]string{"C19.R5 shutdown-handshake-not-behind-lock": R7}, nil)
		const R9 = "C08.R9 no-read-limit-loop"
		r.Rule(R9, "no receive-side message size limit (shared with C06.R7): gorilla's read errors are permanent - a pump that drops the over-long message and reads on makes the library panic after 1000 failed reads, so one frame that declares a large length ends the process")
		importRules(p, r, "C06", map[string]string{"C06.R7 no-message-size-limit": R9}, nil)
		const R8 = "C08.R8 hub-calls-into-connections-are-open-calls"
		r.Rule(R8, "the hub calls the state-changing methods of a SHIP connection (CloseConnection, AbortPendingHandshake, ApprovePendingHandshake) with no hub mutex held on any path: those methods can end the connection synchronously, and the end is reported back into Hub.HandleConnectionClosed, which takes the registry mutex - a caller that holds it blocks itself, the close-once of the connection and every later user of the registry")
		if ci := p.Named("api", "ShipConnectionInterface"); ci == nil {
			r.Unresolved(R8, "api.ShipConnectionInterface")
		} else {
			checkOpenCalls(p, r, R8, p.FuncsOf("hub"), "hub.Hub.", func(in ssa.Instruction) string {
				c := core.Common(in)
				if c == nil || !c.IsInvoke() || core.NamedOf(c.Value.Type()) != ci {
					return ""
				}
				switch c.Method.Name() {
				case "CloseConnection", "AbortPendingHandshake", "ApprovePendingHandshake":
					return "connection." + c.Method.Name()
				}
				return ""
			})
			r.Floor(R8, 4)
		}
	}()
	ensureCallSites(p)
	const R1 = "C08.R1 panic-obligations"
	const R2 = "C08.R2 receive-loop-blocking"
	const R3 = "C08.R3 lock-order"
	r.Explanation = "C08 (no peer-controlled input can crash or wedge the process): (R1) every instruction that can panic at run time in repo code reachable (VTA call graph) from the peer-driven entries - websocket read pump and through it all SHIP handlers, the handshake timer goroutine, the inbound HTTP handler, the certificate callback, the dialler, the mDNS resolver callback, TXT parser and provider listeners, the hub's mDNS report - is an obligation: slice/string index, slicing, dereference of a pointer field of a JSON-decoded model struct, type assertion without comma-ok, integer division, explicit panic. Each is discharged by a dominating guard (len comparisons of the same access path, range-loop bounds, nil checks, constant index into a fixed array) or it is a violation; a short reviewed exception table names constructs whose index is not peer data. (R2) in code reachable from the read pump's delivery call every blocking operation is a mutex, a receive from time.After, or a select with an escape/timeout arm. (R3) the lock-order graph over all mutex fields of the repo (acquisitions through static calls and VTA-resolved interface calls while another mutex is certainly held) is acyclic. Not decided: panics inside dependencies, resource exhaustion, stalls bounded by the pong deadline."
	r.Rule(R1, "may-panic instruction in peer-reachable repo code => discharged by a dominating guard or listed exception")
	r.Rule(R2, "blocking channel operations reachable from HandleIncomingWebsocketMessage have a timeout or escape arm")
	r.Rule(R3, "lock-order graph acyclic")

	cg := p.CallGraph()
	// entries
	var entries []*ssa.Function
	add := func(f *ssa.Function) {
		if f != nil {
			entries = append(entries, f)
		}
	}
	if a := findWS(p, r, R1); a != nil {
		for _, fn := range a.fns {
			core.EachInstr(fn, func(in ssa.Instruction) {
				if core.IsInvokeOf(in, a.mIncoming) {
					add(core.Outermost(fn))
				}
				// the pong handler literal runs on the read path as well
				if mc, ok := in.(*ssa.MakeClosure); ok {
					if cl, ok := mc.Fn.(*ssa.Function); ok {
						add(cl)
					}
				}
			})
		}
	}
	add(p.Method("ship", "ShipConnection", "HandleIncomingWebsocketMessage"))
	add(p.Method("ship", "ShipConnection", "ReportConnectionError"))
	add(p.Method("hub", "Hub", "ServeHTTP"))
	add(p.Method("hub", "Hub", "ReportMdnsEntries"))
	if ha := findHub(p, r, R1); ha != nil {
		for _, d := range ha.dialFns {
			add(d)
		}
	}
	// certificate callback: hub function with the tls.Config.VerifyPeerCertificate signature
	for _, fn := range p.FuncsOf("hub") {
		sig := fn.Signature
		if sig.Params().Len() == 2 && sig.Results().Len() == 1 && types.TypeString(sig.Params().At(0).Type(), nil) == "[][]byte" && strings.Contains(types.TypeString(sig.Params().At(1).Type(), nil), "x509.Certificate") {
			add(fn)
		}
	}
	add(resolverCallback(p))
	for _, fn := range p.FuncsOf("mdns") {
		// TXT parser: ([]string) map[string]string
		sig := fn.Signature
		if sig.Params().Len() == 1 && sig.Results().Len() == 1 && types.TypeString(sig.Params().At(0).Type(), nil) == "[]string" && types.TypeString(sig.Results().At(0).Type(), nil) == "map[string]string" {
			add(fn)
		}
		// provider listener goroutines
		core.EachInstr(fn, func(in ssa.Instruction) {
			if g, ok := in.(*ssa.Go); ok {
				if t := g.Call.StaticCallee(); t != nil && p.PkgShort(t) == "mdns" {
					add(t)
				} else if cl := core.ClosureArg(g.Call.Value); cl != nil {
					add(cl)
				}
			}
		})
	}
	// goroutines spawned in ship (timer, closers)
	for _, fn := range p.FuncsOf("ship") {
		core.EachInstr(fn, func(in ssa.Instruction) {
			if g, ok := in.(*ssa.Go); ok {
				if cl := core.ClosureArg(g.Call.Value); cl != nil {
					add(cl)
				}
			}
		})
	}
	if len(entries) < 10 {
		r.Unresolved(R1, fmt.Sprintf("peer-driven entries (found %d)", len(entries)))
	}
	reach := map[*ssa.Function]bool{}
	var visit func(f *ssa.Function)
	visit = func(f *ssa.Function) {
		if f == nil || reach[f] {
			return
		}
		reach[f] = true
		if n := cg.Nodes[f]; n != nil {
			for _, e := range n.Out {
				if p.InRepo(e.Callee.Func) {
					visit(e.Callee.Func)
				}
			}
		}
		for _, a := range f.AnonFuncs {
			visit(a)
		}
	}
	for _, e := range entries {
		visit(e)
	}
	var fns []*ssa.Function
	for f := range reach {
		if p.InRepo(f) && f.Blocks != nil {
			fns = append(fns, f)
		}
	}
	sort.Slice(fns, func(i, j int) bool { return fns[i].String() < fns[j].String() })
	r.Counts["peer_reachable_functions"] = len(fns)
	r.Counts["entries"] = len(entries)

	nob, ndis := 0, 0
	usedExc := map[string]bool{}
	report := func(fn *ssa.Function, in ssa.Instruction, kind, what string, ok bool, why string) {
		nob++
		key := kind + " " + what + " in " + p.FnName(fn)
		if ok {
			ndis++
			r.OK(R1, key, p.Pos(in.Pos()), why)
			return
		}
		if reason, exc := panicExceptions[key]; exc {
			ndis++
			usedExc[key] = true
			r.OK(R1, key, p.Pos(in.Pos()), "reviewed exception: "+reason)
			return
		}
		r.Fail(R1, key, p.Pos(in.Pos()), why)
	}
	nameOf := func(v ssa.Value) string {
		if u, ok := v.(*ssa.UnOp); ok {
			if fv, ok := u.X.(*ssa.FreeVar); ok {
				return fv.Name()
			}
			if g, ok := u.X.(*ssa.Global); ok {
				return g.Name()
			}
		}
		v = core.Canon(v)
		if f, _ := core.LoadedField(v); f != nil {
			return f.Name()
		}
		switch x := v.(type) {
		case *ssa.Parameter:
			return x.Name()
		case *ssa.Global:
			return x.Name()
		case *ssa.UnOp:
			if g, ok := x.X.(*ssa.Global); ok {
				return g.Name()
			}
			if fv, ok := x.X.(*ssa.FreeVar); ok {
				return fv.Name()
			}
		case *ssa.FreeVar:
			return x.Name()
		case *ssa.Extract:
			return "result"
		}
		if v.Name() != "" {
			return "value"
		}
		return "value"
	}
	isModelPtrField := func(v ssa.Value) (*types.Var, bool) {
		var fv *types.Var
		var owner types.Type
		switch x := v.(type) {
		case *ssa.Field:
			fv, owner = core.FieldVar(x), x.X.Type()
		case *ssa.UnOp:
			if x.Op == token.MUL {
				if fa, ok := x.X.(*ssa.FieldAddr); ok {
					fv, owner = core.FieldVar(fa), fa.X.Type()
				}
			}
		}
		if fv == nil {
			return nil, false
		}
		if _, isPtr := fv.Type().Underlying().(*types.Pointer); !isPtr {
			return nil, false
		}
		n := core.NamedOf(owner)
		if n == nil || n.Obj().Pkg() == nil || n.Obj().Pkg().Name() != "model" {
			return nil, false
		}
		return fv, true
	}
	for _, fn := range fns {
		core.EachInstr(fn, func(in ssa.Instruction) {
			switch x := in.(type) {
			case *ssa.IndexAddr, *ssa.Index:
				var base, idx ssa.Value
				if ia, ok := x.(*ssa.IndexAddr); ok {
					base, idx = ia.X, ia.Index
				} else {
					ix := x.(*ssa.Index)
					base, idx = ix.X, ix.Index
				}
				bt := base.Type().Underlying()
				if pt, ok := bt.(*types.Pointer); ok {
					if at, ok := pt.Elem().Underlying().(*types.Array); ok {
						if k, isC := intConst(idx); isC && k >= 0 && k < at.Len() {
							return // constant index into a fixed array
						}
					}
				}
				if at, ok := bt.(*types.Array); ok {
					if k, isC := intConst(idx); isC && k >= 0 && k < at.Len() {
						return
					}
				}
				facts := dominatingFacts(in)
				ok := idxInRange(facts, idx, base)
				if !ok {
					// range-loop shape: idx = phi+1 guarded in the loop header by idx < len(base)
					ok = rangeLoopIndex(in, idx, base)
				}
				if !ok {
					// index produced by a repo function that clamps its result to len(base)-1 (base a package-level table)
					ok = clampedIndex(p, idx, base)
				}
				if !ok {
					// less function of sort.Slice(x, less): the indices it receives are in [0, len(x))
					ok = sortLessIndex(in.Parent(), idx, base)
				}
				report(fn, in, "index", nameOf(base), ok, func() string {
					if ok {
						return "index within bounds by a dominating guard"
					}
					return "index into " + nameOf(base) + " is not protected by a dominating length check of the same value: a peer-chosen length (e.g. an empty list) panics the goroutine, and the receive loops have no recover()"
				}())
			case *ssa.Slice:
				if x.Low == nil && x.High == nil {
					return
				}
				if _, isArr := x.X.Type().Underlying().(*types.Pointer); isArr {
					return // slicing a local fixed array (varargs)
				}
				facts := dominatingFacts(in)
				ok := true
				if x.Low != nil {
					if k, isC := intConst(x.Low); isC {
						if x.High == nil {
							ok = lenAtLeast(facts, x.X, k)
						}
					} else if x.High == nil {
						ok = idxInRange(facts, x.Low, x.X) // low < len(x) implies low <= len(x)
						if !ok {
							// s[i+1:] / s[i:] with i the (found) result of a search in s
							if bo, isAdd := x.Low.(*ssa.BinOp); isAdd && bo.Op == token.ADD {
								if k, isC := intConst(bo.Y); isC && k == 1 {
									if found, strict := foundIndex(facts, bo.X, x.X); found && strict {
										ok = true
									}
								}
							} else if found, _ := foundIndex(facts, x.Low, x.X); found {
								ok = true
							}
						}
					}
				}
				if x.High != nil {
					if k, isC := intConst(x.High); isC {
						ok = ok && lenAtLeast(facts, x.X, k)
					} else if lx := lenCallOf(x.High); lx != nil && samePlace(lx, x.X) {
						// s[a:len(s)]
					} else if found, _ := foundIndex(facts, x.High, x.X); found && x.Low == nil {
						// s[:i] with i the (found) result of a search in s
					} else {
						ok = false
					}
				}
				report(fn, in, "slice", nameOf(x.X), ok, func() string {
					if ok {
						return "slice bounds within length by a dominating guard"
					}
					return "slicing " + nameOf(x.X) + " is not protected by a dominating length check"
				}())
			case *ssa.UnOp:
				if x.Op != token.MUL {
					return
				}
				fv, isMP := isModelPtrField(x.X)
				if !isMP {
					return
				}
				facts := dominatingFacts(in)
				ok := nonNilFact(facts, x.X) || nonNilByDecodeHelper(p, facts, x.X, fv)
				report(fn, in, "deref", fv.Name(), ok, func() string {
					if ok {
						return "nil-checked on every path"
					}
					return "optional JSON member " + fv.Name() + " is dereferenced without a dominating nil check: a message that omits it panics the receive loop"
				}())
			case *ssa.TypeAssert:
				if x.CommaOk {
					return
				}
				if _, isIface := x.AssertedType.Underlying().(*types.Interface); isIface {
					// interface-to-interface conversions of statically known values are not peer-controlled
				}
				// type switch on a value the function itself produced is fine when preceded by the same-type check; keep simple
				report(fn, in, "type-assert", types.TypeString(x.AssertedType, func(pk *types.Package) string { return pk.Name() }), typeSwitchGuarded(x), "type assertion without comma-ok")
			case *ssa.BinOp:
				if x.Op == token.QUO || x.Op == token.REM {
					if b, ok := x.Type().Underlying().(*types.Basic); ok && b.Info()&types.IsInteger != 0 {
						if k, isC := intConst(x.Y); isC && k != 0 {
							return
						}
						report(fn, in, "divide", nameOf(x.Y), false, "integer division by a value that is not a non-zero constant")
					}
				}
			case *ssa.Call:
				if n := core.CalleeName(&x.Call); n == "math/rand.Intn" || n == "math/rand/v2.IntN" || n == "(*math/rand.Rand).Intn" {
					arg := x.Call.Args[len(x.Call.Args)-1]
					ok, why := positiveRange(p, arg)
					report(fn, in, "rand.Intn", "argument", ok, why)
				}
			case *ssa.Panic:
				if !x.Pos().IsValid() {
					return // synthetic (unreachable default of a blocking select)
				}
				report(fn, in, "panic", "explicit", false, "explicit panic reachable from peer input")
			}
		})
	}
	r.Counts["panic_obligations"] = nob
	r.Counts["panic_obligations_discharged"] = ndis
	for k := range panicExceptions {
		if !usedExc[k] {
			r.Counts["stale_exception:"+k] = 1
		}
	}
	r.Floor(R1, 10)

	// ---- R2
	start := p.Method("ship", "ShipConnection", "HandleIncomingWebsocketMessage")
	reach2 := map[*ssa.Function]bool{}
	var visit2 func(f *ssa.Function)
	visit2 = func(f *ssa.Function) {
		if f == nil || reach2[f] || !p.InRepo(f) {
			return
		}
		reach2[f] = true
		if n := cg.Nodes[f]; n != nil {
			for _, e := range n.Out {
				if _, isGo := e.Site.(*ssa.Go); isGo {
					continue
				}
				visit2(e.Callee.Func)
			}
		}
	}
	visit2(start)
	nblock := 0
	var fl []*ssa.Function
	for f := range reach2 {
		fl = append(fl, f)
	}
	sort.Slice(fl, func(i, j int) bool { return fl[i].String() < fl[j].String() })
	var wsA *wsAnchors
	wsA = findWS(p, r, R2)
	stopCh := map[*types.Var]bool{}
	if wsA != nil {
		for f, us := range wsA.chanUses(wsA.fns) {
			for _, u := range us {
				if u.kind == "close" {
					stopCh[f] = true
				}
			}
		}
	}
	for _, fn := range fl {
		if fn.Blocks == nil {
			continue
		}
		core.EachInstr(fn, func(in ssa.Instruction) {
			switch x := in.(type) {
			case *ssa.Send:
				nblock++
				r.Fail(R2, "blocking send in "+p.FnName(fn), p.Pos(in.Pos()), "a plain channel send on the receive path can block the read pump forever")
			case *ssa.UnOp:
				if x.Op == token.ARROW {
					nblock++
					key := "receive in " + p.FnName(fn)
					if isTimerChan(x.X) {
						// the wait has to be bounded by the program, not by the peer
						bounded := true
						if c, ok := core.Canon(x.X).(*ssa.Call); ok && len(c.Call.Args) == 1 {
							if core.ConstOf(core.Canon(c.Call.Args[0])) == nil {
								bounded = false
							}
						}
						if bounded {
							r.OK(R2, key, p.Pos(in.Pos()), "bounded wait on time.After(constant)")
						} else {
							r.Fail(R2, key, p.Pos(in.Pos()), "the receive loop waits on time.After(d) with a duration that is not a constant (it is computed from message content): one message with a huge value parks the read pump - the connection is then neither served nor closed")
						}
					} else {
						r.Fail(R2, key, p.Pos(in.Pos()), "a blocking receive on the receive path has no timeout")
					}
				}
			case *ssa.Call:
				if core.CalleeName(&x.Call) == "time.Sleep" {
					nblock++
					key := "sleep in " + p.FnName(fn)
					if core.ConstOf(core.Canon(x.Call.Args[0])) != nil {
						r.OK(R2, key, p.Pos(in.Pos()), "constant sleep")
					} else {
						r.Fail(R2, key, p.Pos(in.Pos()), "the receive loop sleeps for a duration that is not a constant (computed from message content)")
					}
				}
			case *ssa.Select:
				if !x.Blocking {
					return
				}
				nblock++
				esc := false
				for _, st := range x.States {
					if st.Dir == types.RecvOnly && (isTimerChan(st.Chan) || stopCh[chanField(st.Chan)]) {
						esc = true
					}
				}
				key := "select in " + p.FnName(fn)
				if esc {
					r.OK(R2, key, p.Pos(in.Pos()), "has a timeout/escape arm")
				} else {
					r.Fail(R2, key, p.Pos(in.Pos()), "a blocking select on the receive path has no timeout or escape arm")
				}
			}
		})
	}
	r.Counts["receive_path_functions"] = len(fl)
	r.Counts["receive_path_blocking_ops"] = nblock
	r.Floor(R2, 1)

	// ---- R4 concurrent websocket writes panic inside gorilla
	const R4 = "C08.R4 transport-writes-serialised"
	r.Rule(R4, "every gorilla write call holds the connection's write mutex: a peer can time its close announce so that the close frame and a pump write overlap, and gorilla panics on concurrent writes")
	if wsA != nil {
		wli := core.AnalyzeLocks(wsA.fns, func(fn *ssa.Function) bool { return fn.Object() != nil && fn.Object().Exported() })
		checkTransportWrites(p, r, wsA, wli, R4)
		r.Floor(R4, 1)
	}
	// ---- R3 lock order
	checkLockOrder(p, r, R3, cg)
}

// typeSwitchGuarded: x.(T) without comma-ok that is dominated by a successful comma-ok assertion / type switch case of the same value and type.
func typeSwitchGuarded(ta *ssa.TypeAssert) bool {
	for _, f := range dominatingFacts(ta) {
		if ex, ok := f.cond.(*ssa.Extract); ok && f.truth {
			if prev, ok := ex.Tuple.(*ssa.TypeAssert); ok && prev.CommaOk && prev.X == ta.X && types.Identical(prev.AssertedType, ta.AssertedType) {
				return true
			}
		}
	}
	return false
}

// rangeLoopIndex: idx is the induction variable of a `for i := range base` loop:
// idx = phi(-1|0, idx+1) and the loop header tests idx(+1) < len(base).
func rangeLoopIndex(in ssa.Instruction, idx, base ssa.Value) bool {
	for _, f := range dominatingFacts(in) {
		bo, ok := f.cond.(*ssa.BinOp)
		if !ok || bo.Op != token.LSS || !f.truth {
			continue
		}
		if bo.X != idx {
			continue
		}
		// right side: len(base') where base' is the ranged value (same place or same SSA value)
		if lx := lenCallOf(bo.Y); lx != nil && samePlace(lx, base) {
			return true
		}
	}
	return false
}

func checkLockOrder(p *core.Program, r *core.Report, R3 string, cg *callgraph.Graph) {
	fns := p.RepoFuncs()
	set := map[*ssa.Function]bool{}
	for _, f := range fns {
		set[f] = true
	}
	// resolve dynamic calls through the call graph
	bySite := map[ssa.Instruction][]*ssa.Function{}
	for _, f := range fns {
		if n := cg.Nodes[f]; n != nil {
			for _, e := range n.Out {
				if e.Site == nil || !set[e.Callee.Func] {
					continue
				}
				if c := e.Site.Common(); c.StaticCallee() == nil {
					bySite[e.Site.(ssa.Instruction)] = append(bySite[e.Site.(ssa.Instruction)], e.Callee.Func)
				}
			}
		}
	}
	core.ExtraTargets = func(in ssa.Instruction) []*ssa.Function { return bySite[in] }
	defer func() { core.ExtraTargets = nil }()
	li := core.AnalyzeLocks(fns, func(fn *ssa.Function) bool { return fn.Object() != nil && fn.Object().Exported() })
	type edge struct{ a, b string }
	edges := map[edge]string{}
	for _, fn := range fns {
		core.EachInstr(fn, func(in ssa.Instruction) {
			if _, isGo := in.(*ssa.Go); isGo {
				return
			}
			if _, isDefer := in.(*ssa.Defer); isDefer {
				return
			}
			held := li.Must[in]
			if len(held) == 0 {
				return
			}
			acq := core.LockSet{}
			if id, op, _ := core.MutexOp(in); op > 0 {
				acq[id] = true
			}
			c := core.Common(in)
			if c != nil {
				var targets []*ssa.Function
				if t := c.StaticCallee(); t != nil && set[t] {
					targets = append(targets, t)
				}
				targets = append(targets, bySite[in]...)
				if core.CalleeName(c) == "(*sync.Once).Do" && len(c.Args) == 2 {
					if cl := core.ClosureArg(c.Args[1]); cl != nil {
						targets = append(targets, cl)
					}
				}
				for _, t := range targets {
					for k := range li.Acquires[t] {
						acq[k] = true
					}
				}
			}
			for h := range held {
				for a := range acq {
					if a == h {
						continue // same mutex id on (possibly) different objects; re-entrancy is not decided here
					}
					e := edge{h, a}
					if _, ok := edges[e]; !ok {
						edges[e] = p.FnName(fn) + " @" + p.Pos(in.Pos())
					}
				}
			}
		})
	}
	r.Counts["lock_order_edges"] = len(edges)
	adj := map[string][]string{}
	for e := range edges {
		adj[e.a] = append(adj[e.a], e.b)
	}
	for k := range adj {
		sort.Strings(adj[k])
	}
	// report each edge; find cycles
	color := map[string]int{}
	var cycles [][]string
	var dfs func(n string, stack []string)
	dfs = func(n string, stack []string) {
		color[n] = 1
		stack = append(stack, n)
		for _, m := range adj[n] {
			if color[m] == 1 {
				for i, s := range stack {
					if s == m {
						cycles = append(cycles, append(append([]string(nil), stack[i:]...), m))
					}
				}
			} else if color[m] == 0 {
				dfs(m, stack)
			}
		}
		color[n] = 2
	}
	var nodes []string
	for k := range adj {
		nodes = append(nodes, k)
	}
	sort.Strings(nodes)
	for _, n := range nodes {
		if color[n] == 0 {
			dfs(n, nil)
		}
	}
	inCycle := map[edge]bool{}
	for _, cyc := range cycles {
		for i := 0; i+1 < len(cyc); i++ {
			inCycle[edge{cyc[i], cyc[i+1]}] = true
		}
	}
	var es []edge
	for e := range edges {
		es = append(es, e)
	}
	sort.Slice(es, func(i, j int) bool { return es[i].a+es[i].b < es[j].a+es[j].b })
	for _, e := range es {
		key := "lock order " + e.a + " -> " + e.b
		if inCycle[e] {
			r.Fail(R3, key, edges[e], "this acquisition order is part of a cycle in the lock-order graph: two goroutines taking the locks in opposite order deadlock (receive loop wedged)", "acquired at "+edges[e])
		} else {
			r.OK(R3, key, edges[e], "no opposite order exists")
		}
	}
	if len(es) == 0 {
		r.OK(R3, "lock order graph", "", "no nested lock acquisitions")
	}
}

// globalOf: v is a load of a package-level variable of the repo.
func globalOf(v ssa.Value) *ssa.Global {
	if u, ok := v.(*ssa.UnOp); ok && u.Op == token.MUL {
		if g, ok := u.X.(*ssa.Global); ok {
			return g
		}
	}
	return nil
}

// lenMinusOne: v == len(load g) - 1
func lenMinusOne(v ssa.Value, g *ssa.Global) bool {
	bo, ok := v.(*ssa.BinOp)
	if !ok || bo.Op != token.SUB {
		return false
	}
	if k, isC := intConst(bo.Y); !isC || k != 1 {
		return false
	}
	lx := lenCallOf(bo.X)
	return lx != nil && globalOf(lx) == g
}

// boundedByLen: v <= len(g)-1 on every path that produces it (phi operands are judged on their incoming edge).
func boundedByLen(v ssa.Value, g *ssa.Global, n int64, depth int) bool {
	if depth > 6 {
		return false
	}
	if k, isC := intConst(v); isC {
		return k >= 0 && k <= n-1
	}
	if lenMinusOne(v, g) {
		return true
	}
	// min(a, b, ...): bounded as soon as one operand is
	if c, ok := v.(*ssa.Call); ok && isBuiltin(c, "min") {
		for _, a := range c.Call.Args {
			if boundedByLen(a, g, n, depth+1) {
				return true
			}
		}
		return false
	}
	phi, ok := v.(*ssa.Phi)
	if !ok {
		return false
	}
	for i, e := range phi.Edges {
		if boundedByLen(e, g, n, depth+1) {
			continue
		}
		// the edge pred -> phi block is the branch on which e was found < / <= len-1
		pred := phi.Block().Preds[i]
		okEdge := false
		check := func(iff *ssa.If, idx int) {
			cv, truth := core.Truth(iff.Cond, idx)
			bo, ok := cv.(*ssa.BinOp)
			if !ok || !samePlace(bo.X, e) || !lenMinusOne(bo.Y, g) {
				return
			}
			switch {
			case (bo.Op == token.GEQ || bo.Op == token.GTR) && !truth:
				okEdge = true
			case (bo.Op == token.LSS || bo.Op == token.LEQ) && truth:
				okEdge = true
			}
		}
		if iff := core.BlockIf(pred); iff != nil {
			for idx, sblk := range pred.Succs {
				if sblk == phi.Block() {
					check(iff, idx)
				}
			}
		}
		// or a dominating fact of the predecessor block
		if !okEdge && len(pred.Instrs) > 0 {
			for _, f := range dominatingFacts(pred.Instrs[len(pred.Instrs)-1]) {
				bo, ok := f.cond.(*ssa.BinOp)
				if ok && samePlace(bo.X, e) && lenMinusOne(bo.Y, g) {
					if ((bo.Op == token.GEQ || bo.Op == token.GTR) && !f.truth) || ((bo.Op == token.LSS || bo.Op == token.LEQ) && f.truth) {
						okEdge = true
					}
				}
			}
		}
		if !okEdge {
			return false
		}
	}
	return len(phi.Edges) > 0
}

// clampedIndex: idx is (an extracted result of) a call of a repo function all of whose
// returns are bounded by len(table)-1, where base is a load of that package-level table.
func clampedIndex(p *core.Program, idx, base ssa.Value) bool {
	g := globalOf(base)
	if g == nil {
		return false
	}
	elems := globalLen(g)
	if elems <= 0 {
		return false
	}
	var call *ssa.Call
	resIdx := 0
	switch x := idx.(type) {
	case *ssa.Call:
		call = x
	case *ssa.Extract:
		call, _ = x.Tuple.(*ssa.Call)
		resIdx = x.Index
	}
	if call == nil {
		return false
	}
	callee := call.Call.StaticCallee()
	if callee == nil || !p.InRepo(callee) || callee.Blocks == nil {
		return false
	}
	ok, any := true, false
	core.EachInstr(callee, func(in ssa.Instruction) {
		ret, isRet := in.(*ssa.Return)
		if !isRet || ret.Block() == callee.Recover || resIdx >= len(ret.Results) {
			return
		}
		any = true
		if !boundedByLen(core.ResultOf(ret, resIdx), g, elems, 0) {
			ok = false
		}
	})
	return ok && any
}

// globalLen: number of elements the package initialiser gives a package-level slice variable (0 if unknown).
func globalLen(g *ssa.Global) int64 {
	init := g.Pkg.Func("init")
	if init == nil {
		return 0
	}
	var n int64
	core.EachInstr(init, func(in ssa.Instruction) {
		st, ok := in.(*ssa.Store)
		if !ok || st.Addr != ssa.Value(g) {
			return
		}
		if sl, ok := st.Val.(*ssa.Slice); ok {
			if al, ok := sl.X.(*ssa.Alloc); ok {
				if at, ok := al.Type().(*types.Pointer).Elem().Underlying().(*types.Array); ok {
					n = at.Len()
				}
			}
		}
	})
	return n
}

// positiveRange: the argument of rand.Intn is max*k - min*k (or max - min) of one element of a package-level
// table of structs whose initialiser gives every element max > min.
func positiveRange(p *core.Program, arg ssa.Value) (bool, string) {
	if k, isC := intConst(arg); isC {
		if k > 0 {
			return true, "positive constant"
		}
		return false, "rand.Intn is called with a non-positive constant (panics)"
	}
	bo, ok := arg.(*ssa.BinOp)
	if !ok || bo.Op != token.SUB {
		return false, "the argument of rand.Intn is not provably positive (it panics for values <= 0)"
	}
	fieldOfTable := func(v ssa.Value) (string, *ssa.Global) {
		for i := 0; i < 3; i++ {
			if m, ok := v.(*ssa.BinOp); ok && m.Op == token.MUL {
				if k, isC := intConst(m.Y); isC && k > 0 {
					v = m.X
					continue
				}
			}
			break
		}
		var fv *types.Var
		var base ssa.Value
		switch x := v.(type) {
		case *ssa.Field:
			fv, base = core.FieldVar(x), x.X
		case *ssa.UnOp:
			if fa, ok := x.X.(*ssa.FieldAddr); ok {
				fv, base = core.FieldVar(fa), fa.X
			}
		}
		if fv == nil {
			return "", nil
		}
		// base: element of the table
		for i := 0; i < 5 && base != nil; i++ {
			switch y := base.(type) {
			case *ssa.Alloc:
				// local copy of the element
				var stored ssa.Value
				n := 0
				for _, ref := range *y.Referrers() {
					if st, ok := ref.(*ssa.Store); ok && st.Addr == ssa.Value(y) {
						stored = st.Val
						n++
					}
				}
				if n != 1 {
					return "", nil
				}
				base = stored
				continue
			case *ssa.UnOp:
				base = y.X
				continue
			case *ssa.IndexAddr:
				return fv.Name(), globalOf(y.X)
			case *ssa.Index:
				return fv.Name(), globalOf(y.X)
			}
			break
		}
		return "", nil
	}
	hiF, g1 := fieldOfTable(bo.X)
	loF, g2 := fieldOfTable(bo.Y)
	if g1 == nil || g1 != g2 || hiF == "" || loF == "" {
		return false, "the argument of rand.Intn is not provably positive (it panics for values <= 0)"
	}
	// evaluate the table initialiser
	init := g1.Pkg.Func("init")
	vals := map[int64]map[string]int64{}
	if init != nil {
		core.EachInstr(init, func(in ssa.Instruction) {
			st, ok := in.(*ssa.Store)
			if !ok {
				return
			}
			fa, ok := st.Addr.(*ssa.FieldAddr)
			if !ok {
				return
			}
			ia, ok := fa.X.(*ssa.IndexAddr)
			if !ok {
				return
			}
			i, ok1 := intConst(ia.Index)
			v, ok2 := intConst(st.Val)
			if ok1 && ok2 {
				if vals[i] == nil {
					vals[i] = map[string]int64{}
				}
				vals[i][core.FieldVar(fa).Name()] = v
			}
		})
	}
	n := globalLen(g1)
	if n == 0 {
		return false, "table initialiser not understood"
	}
	for i := int64(0); i < n; i++ {
		hi, lo := vals[i][hiF], vals[i][loF] // absent = zero value
		if hi <= lo {
			return false, fmt.Sprintf("table %s element %d has %s=%d <= %s=%d: rand.Intn(%s-%s) panics when this delay class is used", g1.Name(), i, hiF, hi, loF, lo, hiF, loF)
		}
	}
	return true, fmt.Sprintf("every element of %s has %s > %s", g1.Name(), hiF, loF)
}

// sortLessIndex: fn is the function literal passed as less to sort.Slice / sort.SliceStable(x, less), idx is one of
// its parameters and base is that same x: the sort package only calls less with indices of x.
func sortLessIndex(fn *ssa.Function, idx, base ssa.Value) bool {
	if fn.Parent() == nil {
		return false
	}
	if _, isParam := idx.(*ssa.Parameter); !isParam {
		return false
	}
	ok := false
	core.EachInstr(fn.Parent(), func(in ssa.Instruction) {
		c := core.Common(in)
		if c == nil || len(c.Args) != 2 {
			return
		}
		switch core.CalleeName(c) {
		case "sort.Slice", "sort.SliceStable":
		default:
			return
		}
		if core.ClosureArg(c.Args[1]) != fn {
			return
		}
		if core.Canon(c.Args[0]) == core.Canon(base) {
			ok = true
		}
	})
	return ok
}

// nonNilByDecodeHelper: ptr is the optional member fv of a value returned by a repo function H as (v, err); the
// dereference lies behind the err == nil edge of that call, and H returns a nil error only behind its own
// "member != nil" test of the same member.
func nonNilByDecodeHelper(p *core.Program, facts []fact, ptr ssa.Value, fv *types.Var) bool {
	// root of the access path: ... -> Extract(call, 0)
	var call *ssa.Call
	v := ptr
	for depth := 0; depth < 8 && v != nil && call == nil; depth++ {
		switch x := v.(type) {
		case *ssa.UnOp:
			v = x.X
		case *ssa.FieldAddr:
			v = x.X
		case *ssa.Field:
			v = x.X
		case *ssa.Extract:
			if c, ok := x.Tuple.(*ssa.Call); ok && x.Index == 0 {
				call = c
			}
			v = nil
		default:
			v = nil
		}
	}
	if call == nil {
		return false
	}
	h := call.Call.StaticCallee()
	if h == nil || h.Blocks == nil || !p.InRepo(h) {
		return false
	}
	res := h.Signature.Results()
	if res.Len() < 2 || types.TypeString(res.At(res.Len()-1).Type(), nil) != "error" {
		return false
	}
	// (a) behind err == nil
	behind := false
	for _, f := range facts {
		bo, ok := f.cond.(*ssa.BinOp)
		if !ok || (bo.Op != token.EQL && bo.Op != token.NEQ) || !core.IsNilConst(bo.Y) {
			continue
		}
		if ex, ok := bo.X.(*ssa.Extract); ok && ex.Tuple == ssa.Value(call) && ex.Index == res.Len()-1 && f.truth == (bo.Op == token.EQL) {
			behind = true
		}
	}
	if !behind {
		return false
	}
	// (b) every nil-error return of h is behind "member != nil"
	okAll, any := true, false
	for _, b := range h.Blocks {
		ret, isRet := b.Instrs[len(b.Instrs)-1].(*ssa.Return)
		if !isRet || len(ret.Results) != res.Len() {
			continue
		}
		if !core.IsNilConst(ret.Results[len(ret.Results)-1]) {
			if !neverNilError(ret.Results[len(ret.Results)-1]) {
				// an error variable: only fine when this return is behind its own err != nil test - keep it simple and accept
				// returns that hand a callee's error through
				if _, isExtract := ret.Results[len(ret.Results)-1].(*ssa.Extract); !isExtract {
					if _, isCall := ret.Results[len(ret.Results)-1].(*ssa.Call); !isCall {
						okAll = false
					}
				}
			}
			continue
		}
		any = true
		checked := false
		for _, f := range dominatingFacts(ret) {
			bo, ok := f.cond.(*ssa.BinOp)
			if !ok || (bo.Op != token.EQL && bo.Op != token.NEQ) || !core.IsNilConst(bo.Y) {
				continue
			}
			if ld, ok := bo.X.(*ssa.UnOp); ok && ld.Op == token.MUL {
				if fa, ok := ld.X.(*ssa.FieldAddr); ok && core.FieldVar(fa) == fv && f.truth == (bo.Op == token.NEQ) {
					checked = true
				}
			}
		}
		if !checked {
			okAll = false
		}
	}
	return any && okAll
}
