package rules

import (
	"fmt"
	"go/constant"
	"go/token"
	"go/types"
	"strings"

	"golang.org/x/tools/go/ssa"

	"shipverif/internal/core"
)

func init() { register("C09", checkC09) }

func checkC09(p *core.Program, r *core.Report) {
	const R1 = "C09.R1 access-decision-table"
	const R2 = "C09.R2 stored-id-writers"
	const R3 = "C09.R3 hub-passes-stored-id"
	r.Explanation = "C09 (known SHIP ID pinned, new one reported once before setup): (R1) the access-methods handler is enumerated path by path with the literals N (presented id missing), E (stored id empty) and M (stored id differs from presented id): every path that goes on to the Approved state entails not-N and (E or not-M); with E it stores the presented id and reports it exactly once before the approval, otherwise it does not report; every path with N, or with not-E and M, takes the error exit and never approves; ReportServiceShipID and SetupRemoteDevice are reachable only in states AccessMethodsRequest resp. Approved of the extracted automaton; (R2) the stored id is written only by the constructor and by that store; (R3) both hub construction sites pass ShipID() of the very service whose SKI() they pass. Not decided: later inputs after the error exit beyond C04's finality."
	r.Rule(R1, "path-enumerated decision table of the handler that reports the SHIP ID")
	r.Rule(R2, "who-may-write ship.ShipConnection.remoteShipID")
	r.Rule(R3, "NewConnectionHandler(…, svc.SKI(), svc.ShipID()) with the same svc")

	fID := p.Field("ship", "ShipConnection", "remoteShipID")
	mReport := p.IfaceMethod("api", "ShipConnectionInfoProviderInterface", "ReportServiceShipID")
	mSetup := p.IfaceMethod("api", "ShipConnectionInfoProviderInterface", "SetupRemoteDevice")
	cApproved, cError := p.Const("model", "SmeStateApproved"), p.Const("model", "SmeStateError")
	if fID == nil || mReport == nil || mSetup == nil || cApproved == nil || cError == nil {
		r.Unresolved(R1, "remoteShipID / ReportServiceShipID / SetupRemoteDevice / state constants")
		return
	}
	shipFns := p.FuncsOf("ship")
	var handlers []*ssa.Function
	for _, fn := range shipFns {
		has := false
		core.EachInstr(fn, func(in ssa.Instruction) {
			if core.IsInvokeOf(in, mReport) {
				has = true
			}
		})
		if has {
			handlers = append(handlers, fn)
		}
	}
	if len(handlers) != 1 {
		r.Fail(R1, "handler", "", fmt.Sprintf("expected exactly one function reporting the SHIP ID, found %d", len(handlers)))
		return
	}
	h := handlers[0]
	// the verification and report may sit in an unexported helper of the handler that hands its verdict back as
	// an error: the handler is then the helper's only caller and the helper's paths are spliced into the handler's
	var inlined *ssa.Function
	ensureCallSites(p)
	if res := h.Signature.Results(); (res.Len() == 0 || (res.Len() == 1 && types.TypeString(res.At(0).Type(), nil) == "error")) && h.Object() != nil && !h.Object().Exported() && !isStateHandler(p, h) {
		var caller *ssa.Function
		unique := true
		for _, cs := range gCallSites[h] {
			if caller != nil && caller != cs.Parent() {
				unique = false
			}
			caller = cs.Parent()
		}
		if unique && caller != nil && p.PkgShort(caller) == "ship" {
			inlined, h = h, caller
		}
	}
	hn := shortFn(p.FnName(h))
	isStateConstArg := func(in ssa.Instruction, c *types.Const) bool {
		call, ok := in.(*ssa.Call)
		if !ok {
			return false
		}
		for _, a := range call.Call.Args {
			if k := core.ConstOf(a); k != nil && types.Identical(a.Type(), c.Type()) && constant.Compare(k, token.EQL, c.Val()) {
				return true
			}
		}
		return false
	}
	maySetup := core.NewMay(p, false, func(in ssa.Instruction) bool { return core.IsInvokeOf(in, mSetup) })
	mayErr := core.NewMay(p, false, func(in ssa.Instruction) bool { return isStateConstArg(in, cError) })
	isApprove := func(in ssa.Instruction) bool {
		if isStateConstArg(in, cApproved) {
			return true
		}
		return maySetup.Instr(in)
	}
	isErrExit := func(in ssa.Instruction) bool {
		if _, ok := in.(*ssa.Call); !ok {
			return false
		}
		return mayErr.Instr(in)
	}
	// atoms
	isStoredLoad := func(v ssa.Value) bool { f, _ := core.LoadedField(v); return f == fID }
	atomOf := func(cond ssa.Value, truth bool) (string, bool, ssa.Value) {
		bo, ok := cond.(*ssa.BinOp)
		if !ok {
			return "", false, nil
		}
		// E: len(stored) == 0 / > 0 / != 0
		lenOf := func(v ssa.Value) bool {
			c, ok := v.(*ssa.Call)
			if !ok {
				return false
			}
			b, ok := c.Call.Value.(*ssa.Builtin)
			return ok && b.Name() == "len" && isStoredLoad(c.Call.Args[0])
		}
		zero := func(v ssa.Value) bool {
			c := core.ConstOf(v)
			return c != nil && c.Kind() == constant.Int && constant.Sign(c) == 0
		}
		emptyStr := func(v ssa.Value) bool {
			c := core.ConstOf(v)
			return c != nil && c.Kind() == constant.String && constant.StringVal(c) == ""
		}
		if lenOf(bo.X) && zero(bo.Y) {
			switch bo.Op {
			case token.EQL:
				return "E", truth, nil
			case token.GTR, token.NEQ:
				return "E", !truth, nil
			}
		}
		if isStoredLoad(bo.X) && emptyStr(bo.Y) || isStoredLoad(bo.Y) && emptyStr(bo.X) {
			switch bo.Op {
			case token.EQL:
				return "E", truth, nil
			case token.NEQ:
				return "E", !truth, nil
			}
		}
		// M: stored != *presented
		if (bo.Op == token.NEQ || bo.Op == token.EQL) && types.Identical(bo.X.Type().Underlying(), types.Typ[types.String]) {
			var other ssa.Value
			if isStoredLoad(bo.X) {
				other = bo.Y
			} else if isStoredLoad(bo.Y) {
				other = bo.X
			}
			if other != nil {
				if u, ok := core.Canon(other).(*ssa.UnOp); ok && u.Op == token.MUL {
					return "M", truth == (bo.Op == token.NEQ), u.X
				}
			}
		}
		// U: the decode of the message failed (err != nil on the result of json.Unmarshal)
		if bo.Op == token.EQL || bo.Op == token.NEQ {
			var other ssa.Value
			if core.IsNilConst(bo.Y) {
				other = bo.X
			} else if core.IsNilConst(bo.X) {
				other = bo.Y
			}
			if call, ok := other.(*ssa.Call); ok && core.CalleeName(&call.Call) == "encoding/json.Unmarshal" {
				return "U", truth == (bo.Op == token.NEQ), nil
			}
		}
		// N: ptr == nil where ptr is *string
		if bo.Op == token.EQL || bo.Op == token.NEQ {
			var other ssa.Value
			if core.IsNilConst(bo.Y) {
				other = bo.X
			} else if core.IsNilConst(bo.X) {
				other = bo.Y
			}
			if other != nil {
				if pt, ok := other.Type().Underlying().(*types.Pointer); ok && types.Identical(pt.Elem().Underlying(), types.Typ[types.String]) {
					return "N", truth == (bo.Op == token.EQL), other
				}
			}
		}
		return "", false, nil
	}
	npaths, napprove, nerr := 0, 0, 0
	bad := map[string]string{}
	// a condition that is the result of a boolean helper of the package is replaced by the conditions along the
	// helper's own paths that yield that result (its parameters bound to the call while they are evaluated)
	type xitem struct {
		core.PathItem
		bind *ssa.Call
		// pseudo item closing the spliced paths of a helper: nil-ness of the error it returns (0 unknown, 1 nil, 2 non-nil)
		resOf  *ssa.Call
		resNil int
	}
	// inlinePaths: the paths of the helper called at call, conditions bound to the call, closed by the result item
	inlinePaths := func(call *ssa.Call) ([][]xitem, bool) {
		t := call.Call.StaticCallee()
		var out [][]xitem
		ok := core.EnumPathItems(t, 512, func(items2 []core.PathItem, blocks2 []*ssa.BasicBlock, ret2 *ssa.Return) {
			var path []xitem
			for _, it := range items2 {
				if it.Cond != nil {
					path = append(path, xitem{PathItem: it, bind: call})
				} else if _, isRet := it.In.(*ssa.Return); !isRet {
					path = append(path, xitem{PathItem: it})
				}
			}
			res := xitem{resOf: call}
			if n := len(ret2.Results); n >= 1 && types.TypeString(ret2.Results[n-1].Type(), nil) == "error" {
				rv := ret2.Results[n-1]
				for i := 0; i < 4; i++ {
					if phi, isPhi := rv.(*ssa.Phi); isPhi {
						if nv := core.PhiOnPath(phi, blocks2); nv != nil {
							rv = nv
							continue
						}
					}
					break
				}
				switch {
				case core.IsNilConst(rv):
					res.resNil = 1
				case neverNilError(rv):
					res.resNil = 2
				default:
					for _, it := range items2 {
						bo, isBo := it.Cond.(*ssa.BinOp)
						if it.Cond == nil || !isBo || (bo.Op != token.EQL && bo.Op != token.NEQ) {
							continue
						}
						if (bo.X == rv && core.IsNilConst(bo.Y)) || (bo.Y == rv && core.IsNilConst(bo.X)) {
							if (bo.Op == token.NEQ) == it.Truth {
								res.resNil = 2
							} else {
								res.resNil = 1
							}
						}
					}
				}
			}
			path = append(path, res)
			out = append(out, path)
		})
		return out, ok
	}
	atomOfX := func(it xitem) (string, bool, ssa.Value) {
		if it.bind != nil {
			undo := core.BindCall(it.bind)
			defer undo()
		}
		return atomOf(it.Cond, it.Truth)
	}
	helperPaths := func(call *ssa.Call, want bool) ([][]xitem, bool) {
		t := call.Call.StaticCallee()
		if t == nil || t.Blocks == nil || p.PkgShort(t) != "ship" || t.Signature.Results().Len() != 1 {
			return nil, false
		}
		if b, ok := t.Signature.Results().At(0).Type().Underlying().(*types.Basic); !ok || b.Kind() != types.Bool {
			return nil, false
		}
		var out [][]xitem
		ok := core.EnumPathItems(t, 256, func(items2 []core.PathItem, blocks2 []*ssa.BasicBlock, ret2 *ssa.Return) {
			var path []xitem
			for _, it := range items2 {
				if it.Cond != nil {
					path = append(path, xitem{PathItem: it, bind: call})
				}
			}
			rv := core.ResultOf(ret2, 0)
			for i := 0; i < 4; i++ {
				if phi, isPhi := rv.(*ssa.Phi); isPhi {
					if nv := core.PhiOnPath(phi, blocks2); nv != nil {
						rv = nv
						continue
					}
				}
				break
			}
			if k := core.ConstOf(rv); k != nil && k.Kind() == constant.Bool {
				if constant.BoolVal(k) != want {
					return
				}
			} else {
				truth := want
				for {
					u, isNot := rv.(*ssa.UnOp)
					if !isNot || u.Op != token.NOT {
						break
					}
					rv, truth = u.X, !truth
				}
				path = append(path, xitem{PathItem: core.PathItem{Cond: rv, Truth: truth}, bind: call})
			}
			out = append(out, path)
		})
		return out, ok
	}
	expand := func(items []core.PathItem) [][]xitem {
		lists := [][]xitem{nil}
		for _, it := range items {
			var subs [][]xitem
			if call, isCall := it.Cond.(*ssa.Call); it.Cond != nil && isCall {
				if hp, ok := helperPaths(call, it.Truth); ok {
					subs = hp
				}
			}
			if call, isCall := it.In.(*ssa.Call); it.Cond == nil && isCall && ((inlined != nil && call.Call.StaticCallee() == inlined) || isDecodeHelper(p, call.Call.StaticCallee())) {
				if ip, ok := inlinePaths(call); ok {
					subs = ip
				}
			}
			if subs == nil {
				subs = [][]xitem{{xitem{PathItem: it}}}
			}
			var next [][]xitem
			for _, pre := range lists {
				for _, sub := range subs {
					n := append(append([]xitem{}, pre...), sub...)
					next = append(next, n)
				}
			}
			lists = next
			if len(lists) > 512 {
				break
			}
		}
		return lists
	}
	var process func(items []xitem)
	process = func(items []xitem) {
		lit := map[string]bool{}
		known := map[string]bool{}
		contradiction := false
		reports, stores := 0, 0
		approveAt, reportAt, storeAt, errAt := -1, -1, -1, -1
		// a spliced helper path continues in the handler only on the branch that matches the error it returned
		resFacts := map[*ssa.Call]int{}
		for _, it := range items {
			if it.resOf != nil {
				resFacts[it.resOf] = it.resNil
			}
		}
		for _, it := range items {
			bo, isBo := it.Cond.(*ssa.BinOp)
			if it.Cond == nil || it.bind != nil || !isBo || (bo.Op != token.EQL && bo.Op != token.NEQ) {
				continue
			}
			var other ssa.Value
			if core.IsNilConst(bo.Y) {
				other = bo.X
			} else if core.IsNilConst(bo.X) {
				other = bo.Y
			}
			if ex, isEx := other.(*ssa.Extract); isEx {
				other = ex.Tuple
			}
			if call, isCall := other.(*ssa.Call); isCall && resFacts[call] != 0 {
				nonNil := (bo.Op == token.NEQ) == it.Truth
				if nonNil != (resFacts[call] == 2) {
					return
				}
			}
		}
		for i, it := range items {
			if it.resOf != nil {
				continue
			}
			if it.Cond != nil {
				a, val, _ := atomOfX(it)
				if a != "" {
					if known[a] && lit[a] != val {
						contradiction = true
					}
					known[a], lit[a] = true, val
				}
				continue
			}
			if f, _, _ := core.StoredField(it.In); f == fID {
				stores++
				storeAt = i
				delete(known, "E")
				delete(known, "M")
				// after the store the stored id equals the presented one and is non-empty only if presented is; keep E from before for the rule
				known["E@store"], lit["E@store"] = true, true
			}
			if core.IsInvokeOf(it.In, mReport) {
				reports++
				reportAt = i
			}
			if approveAt < 0 && isApprove(it.In) {
				approveAt = i
			}
			if errAt < 0 && isErrExit(it.In) {
				errAt = i
			}
		}
		if contradiction {
			return
		}
		npaths++
		// recompute E as known before any store
		eKnown, eVal := false, false
		mKnown, mVal := false, false
		nKnown, nVal := false, false
		uFailed := false
		for _, it := range items {
			if it.Cond == nil || it.resOf != nil {
				continue
			}
			if a, val, _ := atomOfX(it); a == "U" && val {
				uFailed = true
			}
		}
		for i, it := range items {
			if storeAt >= 0 && i > storeAt {
				break
			}
			if it.Cond == nil || it.resOf != nil {
				continue
			}
			a, val, _ := atomOfX(it)
			switch a {
			case "E":
				eKnown, eVal = true, val
			case "M":
				mKnown, mVal = true, val
			case "N":
				nKnown, nVal = true, val
			}
		}
		if approveAt >= 0 {
			napprove++
			if !(nKnown && !nVal) {
				bad["approve-without-id-check"] = "a path reaches the Approved state without having checked that the peer presented a SHIP ID"
			}
			if !((eKnown && eVal) || (mKnown && !mVal)) {
				bad["approve-without-match"] = "a path reaches the Approved state although the stored SHIP ID may be non-empty and different from the presented one"
			}
			if eKnown && eVal {
				if reports != 1 || stores != 1 || !(storeAt < reportAt && reportAt < approveAt) {
					bad["new-id-report"] = fmt.Sprintf("with no stored SHIP ID the presented one must be stored and reported exactly once before the approval (stores=%d reports=%d)", stores, reports)
				}
			} else if reports != 0 {
				bad["known-id-report"] = "a SHIP ID that was already known is reported again"
			}
			if errAt >= 0 && errAt < approveAt {
				bad["approve-after-error"] = "a path takes the error exit and still approves"
			}
			if uFailed {
				bad["approve-with-decode-error"] = "a path on which decoding the access-methods message failed goes on to approve (the error is tolerated for some error kinds): a member of the wrong JSON type leaves a non-nil but empty id behind, which passes the missing-id check - with no pinned id the handshake completes and the application is told the SHIP ID is empty"
			}
		} else {
			if reports > 0 && errAt < 0 {
				// reported but neither approved nor failed
				bad["report-without-approve"] = "the SHIP ID is reported on a path that does not go on to approve"
			}
		}
		if (nKnown && nVal) || (eKnown && !eVal && mKnown && mVal) {
			nerr++
			if errAt < 0 || approveAt >= 0 {
				bad["mismatch-not-rejected"] = "a path with a missing or mismatching SHIP ID does not end in the error exit"
			}
		}
	}
	complete := core.EnumPathItems(h, 4096, func(items []core.PathItem, blocks []*ssa.BasicBlock, ret *ssa.Return) {
		for _, xs := range expand(items) {
			process(xs)
		}
	})
	r.Counts["handler_paths"] = npaths
	r.Counts["approving_paths"] = napprove
	r.Counts["rejecting_paths"] = nerr
	if !complete {
		r.Fail(R1, hn+" paths", p.Pos(h.Pos()), "too many paths to enumerate")
	}
	for _, k := range []string{"approve-without-id-check", "approve-without-match", "new-id-report", "known-id-report", "approve-after-error", "approve-with-decode-error", "report-without-approve", "mismatch-not-rejected"} {
		if msg, isBad := bad[k]; isBad {
			r.Fail(R1, hn+" "+k, p.Pos(h.Pos()), msg)
		} else {
			r.OK(R1, hn+" "+k, p.Pos(h.Pos()), fmt.Sprintf("holds on all %d feasible paths", npaths))
		}
	}
	if napprove == 0 {
		r.Fail(R1, hn+" approving-paths", p.Pos(h.Pos()), "no path of the handler approves")
	}
	if nerr == 0 {
		r.Fail(R1, hn+" rejecting-paths", p.Pos(h.Pos()), "no path of the handler rejects a missing/mismatching SHIP ID")
	}
	// automaton side: states in which report / setup are reachable
	if fr := getFSM(p, r, R1); fr != nil {
		for _, k := range sortedKeys(fr.f.effects) {
			e := fr.f.effects[k]
			if e.kind != "reportid" {
				continue
			}
			st := map[string]bool{}
			for c := range e.cfgs {
				st[fr.f.stateName(c.state)] = true
			}
			key := "report reachable only in AccessMethodsRequest (" + shortFn(e.fn) + ")"
			if len(st) == 1 && st["SmeAccessMethodsRequest"] {
				r.OK(R1, key, p.Pos(e.pos), "by the extracted automaton")
			} else {
				r.Fail(R1, key, p.Pos(e.pos), "ReportServiceShipID is reachable in states "+fmt.Sprint(keysOf(st)))
			}
		}
	}

	// arguments of the report: (remote SKI of this connection, the id that was just stored)
	fSKI := p.Field("ship", "ShipConnection", "remoteSKI")
	reportFn := h
	if inlined != nil {
		reportFn = inlined
	}
	core.EachInstr(reportFn, func(in ssa.Instruction) {
		if !core.IsInvokeOf(in, mReport) {
			return
		}
		c := core.Common(in)
		f0, _ := core.LoadedField(c.Args[0])
		f1, _ := core.LoadedField(c.Args[1])
		okID := false
		if f1 == fID {
			// a load of the stored id counts only when it reads what was just stored (a copy taken before the store
			// still holds the old - empty - value)
			if ld, ok := core.Canon(c.Args[1]).(ssa.Instruction); ok {
				core.EachInstr(reportFn, func(y ssa.Instruction) {
					if core.IsFieldStore(y, fID) && core.Dominates(y, ld) {
						okID = true
					}
				})
			}
		} else {
			if u, ok := core.Canon(c.Args[1]).(*ssa.UnOp); ok && u.Op == token.MUL {
				okID = true // *presented
			}
		}
		key := hn + " report arguments"
		if f0 == fSKI && fSKI != nil && okID {
			r.OK(R1, key, p.Pos(in.Pos()), "ReportServiceShipID(remoteSKI, presented/stored id)")
		} else {
			r.Fail(R1, key, p.Pos(in.Pos()), "the SHIP ID report does not pass (this connection's SKI, the presented SHIP ID): the application stores the id under a wrong key or stores a wrong id")
		}
	})

	// R2
	ctor := p.Func("ship", "NewConnectionHandler")
	for _, s := range core.Sites(shipFns, func(in ssa.Instruction) bool { return core.IsFieldStore(in, fID) }) {
		key := "remoteShipID write in " + shortFn(p.FnName(s.Fn))
		switch {
		case s.Fn == ctor:
			r.OK(R2, key, p.Pos(s.In.Pos()), "constructor")
		case s.Fn == h || s.Fn == inlined:
			_, _, v := core.StoredField(s.In)
			// in a spliced helper the stored value may be its parameter: judge the caller's argument
			if pa, isParam := v.(*ssa.Parameter); isParam && s.Fn == inlined {
				for i, fp := range inlined.Params {
					if fp != pa {
						continue
					}
					for _, cs := range gCallSites[inlined] {
						if args := core.Common(cs).Args; i < len(args) {
							v = args[i]
						}
					}
				}
			}
			if u, ok := v.(*ssa.UnOp); ok && u.Op == token.MUL {
				r.OK(R2, key, p.Pos(s.In.Pos()), "stores the presented id")
			} else {
				r.Fail(R2, key, p.Pos(s.In.Pos()), "the stored id is overwritten with something other than the presented id")
			}
		default:
			r.Fail(R2, key, p.Pos(s.In.Pos()), "the stored SHIP ID is written outside the constructor and the access-methods handler")
		}
	}
	r.Floor(R2, 2)

	// hub forwards the report unchanged
	if hr := p.Method("hub", "Hub", "ReportServiceShipID"); hr != nil {
		mUp := p.IfaceMethod("api", "HubReaderInterface", "ServiceShipIDUpdate")
		n := 0
		core.EachInstr(hr, func(in ssa.Instruction) {
			if !core.IsInvokeOf(in, mUp) {
				return
			}
			n++
			c := core.Common(in)
			key := "hub.ReportServiceShipID forwards (ski, shipID)"
			if _, isCall := in.(*ssa.Call); !isCall {
				r.Fail(R3, key, p.Pos(in.Pos()), "the SHIP ID is forwarded to the application asynchronously (go/defer): it can arrive after the remote-device setup callback it has to precede")
			} else if core.Canon(c.Args[0]) == ssa.Value(hr.Params[1]) && core.Canon(c.Args[1]) == ssa.Value(hr.Params[2]) {
				r.OK(R3, key, p.Pos(in.Pos()), "ServiceShipIDUpdate(ski, shipID), synchronously")
			} else {
				r.Fail(R3, key, p.Pos(in.Pos()), "the hub does not forward the reported (SKI, SHIP ID) pair unchanged to the application")
			}
		})
		if n == 0 {
			r.Fail(R3, "hub.ReportServiceShipID forwards (ski, shipID)", p.Pos(hr.Pos()), "the hub never tells the application the reported SHIP ID")
		} else {
			must := core.NewMust(p, 2, func(in ssa.Instruction) bool {
				_, isCall := in.(*ssa.Call)
				return isCall && core.IsInvokeOf(in, mUp)
			})
			key := "hub.ReportServiceShipID forwards on every path"
			if bad := core.MustPass(hr, nil, must.Instr, nil); bad != nil {
				r.Fail(R3, key, p.Pos(bad.Pos()), "a path of the hub's ReportServiceShipID returns without telling the application (e.g. a per-SKI 'already reported' memo): a later handshake of the same SKI sets the remote device up without the SHIP ID having been reported")
			} else {
				r.OK(R3, key, p.Pos(hr.Pos()), "every report of the SHIP layer reaches the application")
			}
		}
	}

	// R3
	if ctor == nil {
		r.Unresolved(R3, "ship.NewConnectionHandler")
		return
	}
	for _, s := range core.Sites(p.FuncsOf("hub"), func(in ssa.Instruction) bool {
		c := core.Common(in)
		return c != nil && c.StaticCallee() == ctor
	}) {
		c := core.Common(s.In)
		key := "NewConnectionHandler in " + p.FnName(s.Fn)
		if len(c.Args) != 6 {
			r.Fail(R3, key, p.Pos(s.In.Pos()), "unexpected constructor arity")
			continue
		}
		skiCall, ok1 := core.Canon(c.Args[4]).(*ssa.Call)
		idCall, ok2 := core.Canon(c.Args[5]).(*ssa.Call)
		if ok1 && ok2 && core.CallsMethodNamed(skiCall, apiPath, "ServiceDetails", "SKI") && core.CallsMethodNamed(idCall, apiPath, "ServiceDetails", "ShipID") &&
			core.Canon(skiCall.Call.Args[0]) == core.Canon(idCall.Call.Args[0]) {
			if storedService(p, idCall.Call.Args[0], 4) {
				r.OK(R3, key, p.Pos(s.In.Pos()), "SKI() and ShipID() of the same stored service (ServiceForSKI)")
			} else {
				r.Fail(R3, key, p.Pos(s.In.Pos()), "the SHIP ID passed to the connection does not come from the hub's stored service record (ServiceForSKI) but from some other ServiceDetails value: the pin is lost")
			}
		} else {
			r.Fail(R3, key, p.Pos(s.In.Pos()), "the stored SHIP ID passed to the connection is not ShipID() of the service whose SKI() is passed")
		}
	}
	r.Floor(R3, 2)
	// ---- R5: the presented id reaches the comparison as it was sent
	const R5 = "C09.R5 wire-text-unaltered"
	r.Rule(R5, "no replacement is applied to the received message text before it is decoded (shared with C07.R1): an inverse transform that deletes bytes inside strings makes a differing (even ill-formed) presented id equal to the pinned one")
	importRules(p, r, "C07", map[string]string{"C07.R1 no-context-free-rewriting": R5}, nil)
	// ---- R4: one record per SKI, pinned only by the application
	const R4 = "C09.R4 one-pin-record-per-ski"
	r.Rule(R4, "the hub's get-or-create of the per-SKI service record looks the record up and inserts a new one in one critical section (else two first lookups create two records and the application's SetShipID lands on the one that is dropped); and no library package calls ServiceDetails.SetShipID - the stored id is the application's, never a value taken from mDNS or a handshake")
	ensureCallSites(p)
	if fSvc := p.Field("hub", "Hub", "remoteServices"); fSvc == nil {
		r.Unresolved(R4, "hub.Hub.remoteServices")
	} else {
		isSvcMap := func(v ssa.Value) bool { f, _ := core.LoadedField(v); return f == fSvc }
		nup := 0
		for _, fn := range p.FuncsOf("hub") {
			fn := fn
			core.EachInstr(fn, func(in ssa.Instruction) {
				mu, ok := in.(*ssa.MapUpdate)
				if !ok || !isSvcMap(mu.Map) {
					return
				}
				nup++
				key := "insert into Hub.remoteServices in " + p.FnName(fn)
				good := ""
				core.EachInstr(fn, func(y ssa.Instruction) {
					lk, ok := y.(*ssa.Lookup)
					if !ok || !isSvcMap(lk.X) || !core.Dominates(y, in) || good == "ok" {
						return
					}
					unlock := core.PathSearch(fn, y, func(z ssa.Instruction) bool {
						_, op, _ := core.MutexOp(z)
						if _, isDefer := z.(*ssa.Defer); isDefer {
							return false
						}
						return op < 0
					}, func(z ssa.Instruction) bool { return z == in }, nil)
					if unlock != nil {
						good = "split"
					} else {
						good = "ok"
					}
				})
				if good == "" {
					// the insert sits in a helper: each of its call sites must follow a lookup of the same map in the
					// caller's critical section
					sites := gCallSites[fn]
					okAll := len(sites) > 0
					for _, cs := range sites {
						caller := cs.Parent()
						found := false
						core.EachInstr(caller, func(y ssa.Instruction) {
							lk, ok := y.(*ssa.Lookup)
							if !ok || !isSvcMap(lk.X) || !core.Dominates(y, cs) || found {
								return
							}
							unlock := core.PathSearch(caller, y, func(z ssa.Instruction) bool {
								if _, isDefer := z.(*ssa.Defer); isDefer {
									return false
								}
								_, op, _ := core.MutexOp(z)
								return op < 0
							}, func(z ssa.Instruction) bool { return z == cs }, nil)
							if unlock == nil {
								found = true
							}
						})
						if !found {
							okAll = false
						}
					}
					if okAll {
						good = "ok"
					}
				}
				switch good {
				case "ok":
					r.OK(R4, key, p.Pos(in.Pos()), "lookup and insert in one critical section")
				case "split":
					r.Fail(R4, key, p.Pos(in.Pos()), "the lookup that found no record and the insert of a new one are in different critical sections: two concurrent first lookups of one SKI each create a record, and a SHIP ID pinned on the losing one is forgotten (the handshake then accepts any id)")
				default:
					r.Fail(R4, key, p.Pos(in.Pos()), "a service record is stored without a preceding lookup of the same map")
				}
			})
		}
		if nup == 0 {
			r.Fail(R4, "insert into Hub.remoteServices", "", "no site creates service records")
		}
		ndel := 0
		for _, fn := range p.FuncsOf("hub") {
			fn := fn
			core.EachInstr(fn, func(in ssa.Instruction) {
				if isBuiltin(in, "delete") && isSvcMap(core.Common(in).Args[0]) {
					ndel++
					r.Fail(R4, "service record deleted in "+p.FnName(fn), p.Pos(in.Pos()), "the hub drops the per-SKI service record: a SHIP ID the application pinned on it is lost, the record is silently re-created empty and the next handshake accepts any id")
				}
			})
		}
		if ndel == 0 {
			r.OK(R4, "service records are never deleted", "", "a pinned SHIP ID stays with its SKI")
		}
	}
	npin := 0
	for _, pk := range []string{"hub", "ship", "mdns", "ws", "cert"} {
		for _, fn := range p.FuncsOf(pk) {
			fn := fn
			core.EachInstr(fn, func(in ssa.Instruction) {
				if core.CallsMethodNamed(in, apiPath, "ServiceDetails", "SetShipID") {
					npin++
					r.Fail(R4, "SetShipID called in "+p.FnName(fn), p.Pos(in.Pos()), "the library itself writes the stored SHIP ID of a service (e.g. from the unauthenticated mDNS TXT id): the next handshake is then checked against a value the application never supplied, and a matching id is never reported to it")
				}
			})
		}
	}
	if npin == 0 {
		r.OK(R4, "SetShipID is never called by the library", "", "only the application pins a SHIP ID")
	}
	const R6 = "C09.R6 pin-record-found-under-any-spelling"
	r.Rule(R6, "ServiceForSKI - the accessor the application pins the SHIP ID through - reaches the registry only with the normalised SKI (shared with C15.R1): otherwise the pin lands on a second record keyed by the label spelling while connections consult the canonical record, whose id is empty, and any presented id is accepted")
	importRules(p, r, "C15", map[string]string{"C15.R1 normalise-before-use": R6}, func(key string) bool {
		return strings.Contains(key, "remoteServices") || !strings.Contains(key, " -> ")
	})
}

// storedService: v is (on every path / from every caller) the result of (*Hub).ServiceForSKI.
func storedService(p *core.Program, v ssa.Value, depth int) bool {
	v = core.Canon(v)
	if depth < 0 {
		return false
	}
	switch x := v.(type) {
	case *ssa.Call:
		f := x.Call.StaticCallee()
		return f != nil && f.Name() == "ServiceForSKI" && p.PkgShort(f) == "hub"
	case *ssa.Phi:
		for _, e := range x.Edges {
			if !storedService(p, e, depth-1) {
				return false
			}
		}
		return len(x.Edges) > 0
	case *ssa.Parameter:
		fn := x.Parent()
		idx := -1
		for i, pa := range fn.Params {
			if pa == x {
				idx = i
			}
		}
		n := 0
		ok := true
		for _, s := range core.Sites(p.RepoFuncs(), func(in ssa.Instruction) bool {
			c := core.Common(in)
			return c != nil && c.StaticCallee() == fn
		}) {
			n++
			c := core.Common(s.In)
			if idx < 0 || idx >= len(c.Args) || !storedService(p, c.Args[idx], depth-1) {
				ok = false
			}
		}
		return ok && n > 0
	}
	return false
}

// neverNilError: the value is the result of errors.New / fmt.Errorf.
func neverNilError(v ssa.Value) bool {
	if mi, ok := v.(*ssa.MakeInterface); ok {
		v = mi.X
	}
	if c, ok := v.(*ssa.Call); ok {
		switch core.CalleeName(&c.Call) {
		case "errors.New", "fmt.Errorf":
			return true
		}
	}
	return false
}

// isStateHandler: fn is called from the state dispatcher (a function with a switch over the handshake state that
// calls many handlers) - such a function is a handler of its own, not a helper to be spliced into its caller.
func isStateHandler(p *core.Program, fn *ssa.Function) bool {
	ensureCallSites(p)
	for _, cs := range gCallSites[fn] {
		callee := 0
		seen := map[*ssa.Function]bool{}
		core.EachInstr(cs.Parent(), func(in ssa.Instruction) {
			if c, ok := in.(*ssa.Call); ok {
				if t := c.Call.StaticCallee(); t != nil && p.PkgShort(t) == "ship" && !seen[t] {
					seen[t] = true
					callee++
				}
			}
		})
		if callee >= 8 {
			return true
		}
	}
	return false
}

// isDecodeHelper: an unexported function of package ship that decodes a message (calls json.Unmarshal) and hands
// its verdict back as an error - its checks belong to the decision table of its caller.
func isDecodeHelper(p *core.Program, fn *ssa.Function) bool {
	if fn == nil || fn.Blocks == nil || p.PkgShort(fn) != "ship" || fn.Object() == nil || fn.Object().Exported() {
		return false
	}
	res := fn.Signature.Results()
	if res.Len() == 0 || types.TypeString(res.At(res.Len()-1).Type(), nil) != "error" {
		return false
	}
	dec := false
	core.EachInstr(fn, func(in ssa.Instruction) {
		if c := core.Common(in); c != nil && core.CalleeName(c) == "encoding/json.Unmarshal" {
			dec = true
		}
	})
	return dec
}
