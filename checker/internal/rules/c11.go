package rules

import (
	"fmt"
	"go/token"
	"go/types"
	"strings"

	"golang.org/x/tools/go/ssa"

	"shipverif/internal/core"
)

func init() { register("C11", checkC11) }

// pathCount enumerates the acyclic paths of fn and returns the min and max
// number of instructions satisfying count (which returns the weight of an
// instruction, e.g. 1 for a direct call, k for a spawn whose body does it k times).
func pathCount(fn *ssa.Function, weight func(ssa.Instruction) int) (min, max int, complete bool) {
	min, max = 1<<30, -1
	complete = core.EnumPaths(fn, 4096, func(path []*ssa.BasicBlock, taken []int) {
		last := path[len(path)-1]
		if len(last.Instrs) == 0 {
			return
		}
		if _, ok := last.Instrs[len(last.Instrs)-1].(*ssa.Return); !ok {
			return // panics are not normal exits
		}
		n := 0
		for _, b := range path {
			for _, in := range b.Instrs {
				n += weight(in)
			}
		}
		if n < min {
			min = n
		}
		if n > max {
			max = n
		}
	})
	return
}

func checkC11(p *core.Program, r *core.Report) {
	const R1 = "C11.R1 close-once-ownership"
	const R2 = "C11.R2 one-report-per-close"
	const R3 = "C11.R3 registry-identity-atomic"
	const R4 = "C11.R4 hub-reports-once"
	r.Explanation = "C11 (every connection end accounted for exactly once): decided clauses: (R1) in package ship every call of the hub's HandleConnectionClosed and of the transport's CloseDataConnection lies inside the function literal guarded by ShipConnection.shutdownOnce (or a goroutine it spawns), so no close path can run in addition to the guarded one; (R2) every path through that literal reports the end exactly once (directly or through exactly one spawned closure that does so exactly once) and closes the transport; (R3) Hub.connections is written only by the register store and one delete, and the delete is guarded by an identity comparison between the registered entry and the closing connection whose lookup happens in the same muxCon critical section; (R4) every path of the hub's HandleConnectionClosed calls RemoteSKIDisconnected exactly once. Not decided: the settled setup/disconnect notification sequence of real runs."
	r.Rule(R1, "who-may-call: HandleConnectionClosed / CloseDataConnection only inside the shutdownOnce body")
	r.Rule(R2, "exactly one end report and at least one transport close on every path of the once body")
	r.Rule(R3, "delete(Hub.connections) guarded by identity compare with a lookup in the same critical section of muxCon")
	r.Rule(R4, "hub.HandleConnectionClosed: exactly one RemoteSKIDisconnected per path")

	if !checkShipCloseOnce(p, r, R1, R2) {
		return
	}

	// R5: the close-once must not be re-entered from its own body (found by the automaton interpreter)
	const R5 = "C11.R5 close-once-not-reentered"
	r.Rule(R5, "no path inside the shutdownOnce body reaches shutdownOnce.Do again (sync.Once is not re-entrant: deadlock, end never reported)")
	if fr := getFSM(p, r, R5); fr != nil {
		n := 0
		for _, pb := range fr.f.problems {
			if pb.rule == R5 {
				n++
				r.Fail(R5, pb.key, p.Pos(pb.pos), pb.msg)
			}
		}
		if n == 0 {
			r.OK(R5, "shutdownOnce body", "", "no call chain from the once body leads back to shutdownOnce.Do (all entries x all states explored)")
		}
	}

	// R3 hub registry
	fConns := p.Field("hub", "Hub", "connections")
	hcc := p.Method("hub", "Hub", "HandleConnectionClosed")
	mDisc := p.IfaceMethod("api", "HubReaderInterface", "RemoteSKIDisconnected")
	if fConns == nil || hcc == nil || mDisc == nil {
		r.Unresolved(R3, "hub.Hub.connections / HandleConnectionClosed / RemoteSKIDisconnected")
		return
	}
	hubFns := p.FuncsOf("hub")
	isConnsMap := func(v ssa.Value) bool { f, _ := core.LoadedField(v); return f == fConns }
	ndel := 0
	for _, fn := range hubFns {
		ls := core.Locksets(fn, core.LockSet{})
		core.EachInstr(fn, func(in ssa.Instruction) {
			switch x := in.(type) {
			case *ssa.MapUpdate:
				if isConnsMap(x.Map) {
					key := "Hub.connections store in " + p.FnName(fn)
					if ls[in]["hub.Hub.muxCon"] {
						r.OK(R3, key, p.Pos(in.Pos()), "register store under muxCon")
					} else {
						r.Fail(R3, key, p.Pos(in.Pos()), "registry store without muxCon")
					}
				}
			case *ssa.Store:
				if core.IsFieldStore(in, fConns) {
					if _, isMake := x.Val.(*ssa.MakeMap); !isMake {
						r.Fail(R3, "Hub.connections replaced in "+p.FnName(fn), p.Pos(in.Pos()), "the registry map is replaced")
					}
				}
			case *ssa.Call:
				if !isBuiltin(in, "delete") || !isConnsMap(x.Call.Args[0]) {
					return
				}
				ndel++
				key := "Hub.connections delete in " + p.FnName(fn)
				if !ls[in]["hub.Hub.muxCon"] {
					r.Fail(R3, key, p.Pos(in.Pos()), "registry delete without muxCon")
					return
				}
				// find lookups of the registry in the same function
				var lookups []ssa.Instruction
				core.EachInstr(fn, func(y ssa.Instruction) {
					if lk, ok := y.(*ssa.Lookup); ok && isConnsMap(lk.X) {
						lookups = append(lookups, y)
					}
				})
				// closing connection = a parameter of interface type ShipConnectionInterface
				var param ssa.Value
				for _, pa := range fn.Params {
					if core.TypeIs(pa.Type(), apiPath, "ShipConnectionInterface") {
						param = pa
					}
				}
				good := ""
				for _, lk := range lookups {
					lkv := lk.(ssa.Value)
					if !core.Dominates(lk, in) {
						continue
					}
					// no unlock of muxCon between lookup and delete
					unlock := core.PathSearch(fn, lk, func(y ssa.Instruction) bool {
						id, op, _ := core.MutexOp(y)
						return op < 0 && id == "hub.Hub.muxCon"
					}, func(y ssa.Instruction) bool { return y == in }, nil)
					if unlock != nil && core.PathSearch(fn, unlock, func(y ssa.Instruction) bool { return y == in }, nil, nil) != nil {
						good = "split"
						continue
					}
					// identity guard: delete guarded by an == edge whose operands derive from the lookup and from the closing connection
					guard := func(b *ssa.BasicBlock, idx int) bool {
						i := core.BlockIf(b)
						if i == nil {
							return false
						}
						v, truth := core.Truth(i.Cond, idx)
						bo, ok := v.(*ssa.BinOp)
						if !ok || (bo.Op != token.EQL && bo.Op != token.NEQ) {
							return false
						}
						if truth != (bo.Op == token.EQL) {
							return false
						}
						a, c := derivesFrom(bo.X, lkv, 6), derivesFrom(bo.Y, lkv, 6)
						pa, pc := param != nil && derivesFrom(bo.X, param, 6), param != nil && derivesFrom(bo.Y, param, 6)
						return (a && pc) || (c && pa)
					}
					if core.Guarded(in, guard) {
						good = "ok"
						break
					}
					if good == "" {
						good = "noguard"
					}
				}
				switch good {
				case "ok":
					r.OK(R3, key, p.Pos(in.Pos()), "identity-checked against a lookup in the same critical section")
				case "split":
					r.Fail(R3, key, p.Pos(in.Pos()), "the lookup feeding the identity check and the delete are in different critical sections of muxCon: a newer connection registered in between loses its entry")
				case "noguard":
					r.Fail(R3, key, p.Pos(in.Pos()), "the delete is not guarded by an identity comparison between the registered entry and the closing connection")
				default:
					r.Fail(R3, key, p.Pos(in.Pos()), "no lookup of the registered entry dominates the delete")
				}
			}
		})
	}
	if ndel != 1 {
		r.Fail(R3, "Hub.connections delete sites", "", fmt.Sprintf("expected exactly one delete site of the registry, found %d", ndel))
	}
	// every reported end reaches the registry: no path of HandleConnectionClosed returns before the lookup
	{
		mustLookup := core.NewMust(p, 2, func(in ssa.Instruction) bool {
			lk, ok := in.(*ssa.Lookup)
			return ok && isConnsMap(lk.X)
		})
		key := "hub.HandleConnectionClosed examines the registry on every path"
		if bad := core.MustPass(hcc, nil, mustLookup.Instr, nil); bad != nil {
			r.Fail(R3, key, p.Pos(bad.Pos()), "a path of HandleConnectionClosed returns before the registry was examined: the ended connection stays registered, the SKI counts as connected for good and is never dialled or approved again")
		} else {
			r.OK(R3, key, p.Pos(hcc.Pos()), "lookup (and identity-checked delete) on every path")
		}
	}
	r.Floor(R3, 3)

	// R4
	mn, mx, ok := pathCount(hcc, func(in ssa.Instruction) int {
		if core.IsInvokeOf(in, mDisc) {
			return 1
		}
		return 0
	})
	key := "hub.HandleConnectionClosed RemoteSKIDisconnected"
	switch {
	case !ok:
		r.Fail(R4, key, p.Pos(hcc.Pos()), "too many paths")
	case mn == 1 && mx == 1:
		r.OK(R4, key, p.Pos(hcc.Pos()), "exactly once on every path")
	default:
		r.Fail(R4, key, p.Pos(hcc.Pos()), fmt.Sprintf("RemoteSKIDisconnected is called between %d and %d times on paths of HandleConnectionClosed", mn, mx))
	}
	// the application is told after the registry was examined: a disconnect callback that calls back into the hub for
	// that SKI (DisconnectSKI, UnregisterRemoteSKI) must not find the ended connection still registered - it would be
	// closed again on the goroutine that is inside its close-once
	{
		key := "hub.HandleConnectionClosed tells the application after the registry examination"
		examines := core.NewMust(p, 2, func(in ssa.Instruction) bool {
			if lk, ok := in.(*ssa.Lookup); ok {
				f, _ := core.LoadedField(lk.X)
				return f == fConns
			}
			return false
		})
		if bad := core.PathSearch(hcc, nil, func(in ssa.Instruction) bool { return core.IsInvokeOf(in, mDisc) }, examines.Instr, nil); bad != nil {
			r.Fail(R4, key, p.Pos(bad.Pos()), "RemoteSKIDisconnected is called before the registry entry of the ended connection was looked up and removed: a callback that disconnects or unregisters the SKI finds the ended connection, closes it again from inside its own close-once and deadlocks - the entry is never deleted")
		} else {
			r.OK(R4, key, p.Pos(hcc.Pos()), "the lookup/delete precedes the callback on every path")
		}
	}
	// its argument is the closing connection's SKI
	core.EachInstr(hcc, func(in ssa.Instruction) {
		if core.IsInvokeOf(in, mDisc) {
			c := core.Common(in)
			okArg := false
			if call, ok := core.Canon(c.Args[0]).(*ssa.Call); ok && call.Call.IsInvoke() && call.Call.Method.Name() == "RemoteSKI" && core.Canon(call.Call.Value) == ssa.Value(hcc.Params[1]) {
				okArg = true
			}
			k := "hub.HandleConnectionClosed RemoteSKIDisconnected argument"
			if okArg {
				r.OK(R4, k, p.Pos(in.Pos()), "reports the closing connection's SKI")
			} else {
				r.Fail(R4, k, p.Pos(in.Pos()), "the reported SKI is not the closing connection's RemoteSKI()")
			}
		}
	})
	// R6: the connection that loses the double-connection decision is ended without the announce delay
	const R6 = "C11.R6 superseded-closed-at-once"
	r.Rule(R6, "in the double-connection decision function every CloseConnection of the superseded connection passes the constant safe=false: a graceful close defers the end report by the announce wait, so it arrives after the surviving connection was set up and the last notification says 'disconnected' while a completed connection is registered")
	mClose := p.IfaceMethod("api", "ShipConnectionInterface", "CloseConnection")
	ha := findHub(p, r, R6)
	if mClose == nil || ha == nil {
		r.Unresolved(R6, "api.ShipConnectionInterface.CloseConnection")
		return
	}
	ensureCallSites(p)
	// constFalse: v is the constant false, or a parameter that receives the constant false at every call site
	var constFalse func(v ssa.Value, depth int) bool
	constFalse = func(v ssa.Value, depth int) bool {
		if isBoolConst(v, false) {
			return true
		}
		pa, ok := v.(*ssa.Parameter)
		if !ok || depth == 0 {
			return false
		}
		idx := -1
		for i, q := range pa.Parent().Params {
			if q == pa {
				idx = i
			}
		}
		sites := gCallSites[pa.Parent()]
		if idx < 0 || len(sites) == 0 {
			return false
		}
		for _, cs := range sites {
			c := core.Common(cs)
			if c == nil || idx >= len(c.Args) || !constFalse(c.Args[idx], depth-1) {
				return false
			}
		}
		return true
	}
	for _, fn := range decisionFuncs(ha) {
		seen := map[*ssa.Function]bool{}
		var visit func(g *ssa.Function, d int)
		visit = func(g *ssa.Function, d int) {
			if g == nil || seen[g] || g.Blocks == nil {
				return
			}
			seen[g] = true
			for _, an := range g.AnonFuncs {
				visit(an, d)
			}
			core.EachInstr(g, func(in ssa.Instruction) {
				c := core.Common(in)
				if c == nil {
					return
				}
				if t := c.StaticCallee(); t != nil && d > 0 && p.PkgShort(t) == "hub" && t.Signature.Recv() != nil && t != hcc {
					// helper taking the superseded connection
					for _, a := range c.Args {
						if core.TypeIs(a.Type(), apiPath, "ShipConnectionInterface") {
							visit(t, d-1)
						}
					}
				}
				if !core.IsInvokeOf(in, mClose) {
					return
				}
				key := "close of the superseded connection in " + p.FnName(fn)
				if len(c.Args) > 0 && constFalse(c.Args[0], 2) {
					r.OK(R6, key, p.Pos(in.Pos()), "closed with safe=false: the end is reported at once")
				} else {
					r.Fail(R6, key, p.Pos(in.Pos()), "the superseded connection is closed gracefully (safe is not the constant false): its end report is deferred by the close-announce wait and overtakes the set-up notification of the surviving connection")
				}
			})
		}
		visit(fn, 2)
	}
	r.Floor(R6, 1)

	const R7 = "C11.R7 transport-end-is-reported"
	r.Rule(R7, "every way the transport can end reaches the SHIP layer: read errors (peer close frames of any code included) and write errors are reported, the SHIP layer reacts with CloseConnection (shared with C13.R2/R4); and the local close path never calls back upward (a ReportConnectionError from inside CloseDataConnection re-enters the close-once and the end is never reported)")
	importRules(p, r, "C13", map[string]string{"C13.R2 error-told-or-not": R7, "C13.R4 ship-reaction": R7, "C13.R7 no-report-from-local-close": R7}, nil)
	const R8 = "C11.R8 every-end-and-every-connection-is-registered"
	r.Rule(R8, "a handshake that enters a terminal state runs the close routine (or spawns the goroutine that does) on every path, so that its end is reported (shared with C04.R4); and every constructed connection is stored in the registry unconditionally, replacing the entry of the connection it supersedes (shared with C05.R4) - else the superseded connection's end report empties the registry while the new connection lives on unknown to the hub")
	importRules(p, r, "C04", map[string]string{"C04.R4 transport-closed": R8}, nil)
	importRules(p, r, "C05", map[string]string{"C05.R4 construct-run-register": R8}, nil)
	importRules(p, r, "C09", map[string]string{"C09.R1 access-decision-table": R8}, func(key string) bool {
		return strings.Contains(key, "approve-after-error") || strings.Contains(key, "approve-with-decode-error")
	})
	_ = types.Typ
}

// derivesFrom: v is computed from root through calls (receiver/args), field
// loads, extracts, conversions, phis (bounded depth).
// derivOnStack: values currently being explored by derivesFrom (a value that is reached again below itself - a
// loop-carried phi - contributes nothing new; without the cut the search is exponential in the depth bound).
var derivOnStack = map[ssa.Value]bool{}

func derivesFrom(v, root ssa.Value, depth int) bool {
	v = core.Canon(v)
	if v == root || v == core.Canon(root) {
		return true
	}
	if depth <= 0 {
		return false
	}
	if derivOnStack[v] {
		return false
	}
	derivOnStack[v] = true
	defer delete(derivOnStack, v)
	switch x := v.(type) {
	case *ssa.Call:
		if derivesThroughHelper(x, 0, root, depth-1) {
			return true
		}
		if x.Call.IsInvoke() && derivesFrom(x.Call.Value, root, depth-1) {
			return true
		}
		for _, a := range x.Call.Args {
			if derivesFrom(a, root, depth-1) {
				return true
			}
		}
	case *ssa.Extract:
		// i-th result of a repo helper: derives from root when the helper's i-th return values do
		if c, ok := x.Tuple.(*ssa.Call); ok && derivesThroughHelper(c, x.Index, root, depth-1) {
			return true
		}
		return derivesFrom(x.Tuple, root, depth-1)
	case *ssa.Lookup:
		return derivesFrom(x.X, root, depth-1)
	case *ssa.UnOp:
		return derivesFrom(x.X, root, depth-1)
	case *ssa.FieldAddr:
		return derivesFrom(x.X, root, depth-1)
	case *ssa.Field:
		return derivesFrom(x.X, root, depth-1)
	case *ssa.Phi:
		for _, e := range x.Edges {
			if derivesFrom(e, root, depth-1) {
				return true
			}
		}
	case *ssa.TypeAssert:
		return derivesFrom(x.X, root, depth-1)
	case *ssa.BinOp:
		return derivesFrom(x.X, root, depth-1) || derivesFrom(x.Y, root, depth-1)
	case *ssa.Slice:
		return derivesFrom(x.X, root, depth-1)
	case *ssa.Alloc:
		// values stored into the cell or into elements of a local array (varargs packing)
		for _, ref := range *x.Referrers() {
			switch y := ref.(type) {
			case *ssa.Store:
				if y.Addr == ssa.Value(x) && derivesFrom(y.Val, root, depth-1) {
					return true
				}
			case *ssa.IndexAddr:
				for _, r2 := range *y.Referrers() {
					if st, ok := r2.(*ssa.Store); ok && st.Addr == ssa.Value(y) && derivesFrom(st.Val, root, depth-1) {
						return true
					}
				}
			}
		}
	case *ssa.Convert:
		return derivesFrom(x.X, root, depth-1)
	case *ssa.ChangeType:
		return derivesFrom(x.X, root, depth-1)
	case *ssa.MakeInterface:
		return derivesFrom(x.X, root, depth-1)
	case *ssa.IndexAddr:
		return derivesFrom(x.X, root, depth-1)
	case *ssa.Index:
		return derivesFrom(x.X, root, depth-1)
	}
	return false
}

// checkShipCloseOnce: ownership of the close path by shutdownOnce (R1) and
// exactly-one end report per guarded close (R2). Shared by C11 and C05.
func checkShipCloseOnce(p *core.Program, r *core.Report, R1, R2 string) bool {
	conn := p.Named("ship", "ShipConnection")
	fOnce := p.Field("ship", "ShipConnection", "shutdownOnce")
	mClosed := p.IfaceMethod("api", "ShipConnectionInfoProviderInterface", "HandleConnectionClosed")
	mCloseData := p.IfaceMethod("api", "WebsocketDataWriterInterface", "CloseDataConnection")
	if conn == nil || fOnce == nil || mClosed == nil || mCloseData == nil {
		r.Unresolved(R1, "ship.ShipConnection.shutdownOnce / HandleConnectionClosed / CloseDataConnection")
		return false
	}
	shipFns := p.FuncsOf("ship")
	var bodies []*ssa.Function
	for _, fn := range shipFns {
		core.EachInstr(fn, func(in ssa.Instruction) {
			if core.IsStaticCall(in, "(*sync.Once).Do") {
				c := core.Common(in)
				if fa, ok := c.Args[0].(*ssa.FieldAddr); ok && core.FieldVar(fa) == fOnce {
					if b := core.ClosureArg(c.Args[1]); b != nil {
						bodies = append(bodies, b)
					} else {
						r.Fail(R1, "once-body of "+p.FnName(fn), p.Pos(in.Pos()), "the close-once body is not a function literal; cannot be analysed")
					}
				}
			}
		})
	}
	if len(bodies) == 0 {
		r.Unresolved(R1, "function literal passed to shutdownOnce.Do")
		return false
	}
	// the guarded close path: the once bodies plus the unexported functions that are called from nowhere else
	// (the body of the once may be a named method the literal only forwards to)
	ensureCallSites(p)
	guarded := map[*ssa.Function]bool{}
	for _, b := range bodies {
		guarded[b] = true
	}
	inGuarded := func(fn *ssa.Function) bool {
		for g := range guarded {
			if core.NestedIn(fn, g) {
				return true
			}
		}
		return false
	}
	for changed := true; changed; {
		changed = false
		for _, fn := range shipFns {
			if guarded[fn] || fn.Parent() != nil || fn.Object() == nil || fn.Object().Exported() || len(gCallSites[fn]) == 0 {
				continue
			}
			all := true
			for _, cs := range gCallSites[fn] {
				if _, isGo := cs.(*ssa.Go); isGo || !inGuarded(cs.Parent()) {
					all = false
				}
			}
			if all {
				guarded[fn] = true
				changed = true
			}
		}
	}
	inBody := inGuarded
	for _, s := range core.Sites(shipFns, func(in ssa.Instruction) bool {
		return core.IsInvokeOf(in, mClosed) || core.IsInvokeOf(in, mCloseData)
	}) {
		what := "HandleConnectionClosed"
		if core.IsInvokeOf(s.In, mCloseData) {
			what = "CloseDataConnection"
		}
		key := what + " call in " + shortFn(p.FnName(s.Fn))
		if inBody(s.Fn) {
			r.OK(R1, key, p.Pos(s.In.Pos()), "inside the shutdownOnce body")
		} else {
			r.Fail(R1, key, p.Pos(s.In.Pos()), what+" is called outside the shutdownOnce-guarded close path: this connection end can be reported/closed in addition to the guarded one (reported twice)")
		}
	}
	r.Floor(R1, 2)

	// R2
	depthGuard := map[*ssa.Function]int{}
	for _, b := range bodies {
		b := b
		isRep := func(in ssa.Instruction) bool { return core.IsInvokeOf(in, mClosed) }
		isClose := func(in ssa.Instruction) bool { return core.IsInvokeOf(in, mCloseData) }
		weightOf := func(pred func(ssa.Instruction) bool) func(ssa.Instruction) int {
			var w func(in ssa.Instruction) int
			w = func(in ssa.Instruction) int {
				if pred(in) {
					return 1
				}
				if g, ok := in.(*ssa.Go); ok {
					if cl := core.ClosureArg(g.Call.Value); cl != nil {
						mn, mx, ok := pathCount(cl, w)
						if ok && mn == mx {
							return mn
						}
						return 1000 // not exactly-k: poison
					}
				}
				if c, ok := in.(*ssa.Call); ok {
					if t := c.Call.StaticCallee(); t != nil && guarded[t] && t != b && depthGuard[t] == 0 {
						depthGuard[t]++
						mn, mx, ok := pathCount(t, w)
						depthGuard[t]--
						if ok && mn == mx {
							return mn
						}
						return 1000
					}
				}
				return 0
			}
			return w
		}
		mn, mx, ok := pathCount(b, weightOf(isRep))
		key := "once-body " + shortFn(p.FnName(b)) + " reports"
		switch {
		case !ok:
			r.Fail(R2, key, p.Pos(b.Pos()), "too many paths to enumerate")
		case mn == 1 && mx == 1:
			r.OK(R2, key, p.Pos(b.Pos()), "exactly one HandleConnectionClosed on every path")
		default:
			msg := fmt.Sprintf("paths through the close routine report the connection end between %d and %d times (must be exactly once)", mn, mx)
			if mx >= 1000 {
				msg = "a goroutine spawned by the close routine does not report the connection end exactly once on all of its paths: the hub never learns that this connection ended (its registry entry stays)"
			}
			r.Fail(R2, key, p.Pos(b.Pos()), msg)
		}
		mn, _, ok = pathCount(b, weightOf(isClose))
		key = "once-body " + shortFn(p.FnName(b)) + " closes-transport"
		if ok && mn >= 1 && mn < 1000 {
			r.OK(R2, key, p.Pos(b.Pos()), "every path closes the transport")
		} else {
			r.Fail(R2, key, p.Pos(b.Pos()), "a path through the close routine does not close the transport")
		}
	}

	return true
}

// derivesThroughHelper: root is a value inside the (module-local) static callee of c, and some non-constant
// idx-th return value of that callee derives from it.
func derivesThroughHelper(c *ssa.Call, idx int, root ssa.Value, depth int) bool {
	callee := c.Call.StaticCallee()
	if callee == nil || callee.Blocks == nil || depth <= 0 {
		return false
	}
	ri, ok := root.(ssa.Instruction)
	if !ok || ri.Parent() != callee {
		return false
	}
	undo := core.BindCall(c)
	defer undo()
	found := false
	core.EachInstr(callee, func(in ssa.Instruction) {
		ret, isRet := in.(*ssa.Return)
		if !isRet || idx >= len(ret.Results) || found {
			return
		}
		rv := core.ResultOf(ret, idx)
		if core.ConstOf(rv) != nil {
			return
		}
		if derivesFrom(rv, root, depth) {
			found = true
		}
	})
	return found
}
