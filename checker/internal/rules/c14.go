package rules

import (
	"fmt"
	"go/constant"
	"go/token"
	"go/types"
	"sort"
	"strings"

	"golang.org/x/tools/go/ssa"

	"shipverif/internal/core"
)

func init() { register("C14", checkC14) }

// isTimerChan: v is the channel of time.After(d) or of a *time.Timer (field C).
func isTimerChan(v ssa.Value) bool {
	v = core.Canon(v)
	if c, ok := v.(*ssa.Call); ok {
		n := core.CalleeName(&c.Call)
		return n == "time.After" || n == "time.Tick"
	}
	if f, _ := core.LoadedField(v); f != nil && f.Name() == "C" && f.Pkg() != nil && f.Pkg().Path() == "time" {
		return true
	}
	return false
}

func checkC14(p *core.Program, r *core.Report) {
	const R1 = "C14.R1 per-arm-token"
	const R2 = "C14.R2 non-lossy-stop"
	const R3 = "C14.R3 fire-revalidation"
	const R4 = "C14.R4 one-fire-per-arm"
	const R5 = "C14.R5 arm-always-arms"
	const R6 = "C14.R6 phase-local-timer"
	r.Explanation = "C14 (a stopped or replaced handshake timer never fires): the schedule property itself is not static; decided is that the cancellation protocol of package ship is not lossy by construction: (R1) the stop channel a timer goroutine waits on is created by the arming invocation (per-arm token), not a channel shared by all timers of the connection; (R2) stopping cancels by close() of that token (or Timer.Stop) on every path that clears the running flag - a non-blocking send, which is dropped when the goroutine has not reached its select yet, is rejected; (R3) on the fire arm the timeout is delivered only under a comparison, made under the timer mutex, of the connection's current token with the goroutine's own; (R4) the wait is not in a loop, so an armed timer delivers at most one timeout. Not decided: real timing."
	r.Rule(R1, "the non-timer arm of the timer goroutine's select receives from a channel made in the arming function invocation")
	r.Rule(R2, "every path that stores false into the running flag (outside the fire path) closes the current token unless it is nil; no non-blocking send is used for cancellation")
	r.Rule(R3, "the timeout dispatch in the timer goroutine is guarded by token identity, compared under handshakeTimerMux")
	r.Rule(R5, "every path through an arming function reaches the go statement of its timer goroutine (no 'already armed' early return)")
	r.Rule("C14.R7 timer-follows-the-state-atomically", "see below")
	r.Rule(R6, "over the handshake automaton extracted from package ship (E1): starting from the constructor's configuration, in every reachable quiescent configuration with a running timer, no entry run ends in a state of another handshake phase with the timer still running unless the run re-armed it")
	r.Rule(R4, "neither the select nor the timeout dispatch of the timer goroutine is inside a loop")

	conn := p.Named("ship", "ShipConnection")
	fTimer := p.Field("ship", "ShipConnection", "handshakeTimerRunning")
	if conn == nil || fTimer == nil {
		r.Unresolved(R1, "ship.ShipConnection.handshakeTimerRunning")
		return
	}
	shipFns := p.FuncsOf("ship")
	type armT struct {
		fn, body *ssa.Function
		sel      *ssa.Select
		goInstr  *ssa.Go
	}
	var arms []armT
	for _, fn := range shipFns {
		core.EachInstr(fn, func(in ssa.Instruction) {
			g, ok := in.(*ssa.Go)
			if !ok {
				return
			}
			body := core.ClosureArg(g.Call.Value)
			if body == nil {
				body = g.Call.StaticCallee()
			}
			if body == nil || body.Blocks == nil {
				return
			}
			core.EachInstr(body, func(y ssa.Instruction) {
				if sel, ok := y.(*ssa.Select); ok {
					for _, st := range sel.States {
						if st.Dir == types.RecvOnly && isTimerChan(st.Chan) {
							arms = append(arms, armT{fn, body, sel, g})
						}
					}
				}
			})
		})
	}
	// a timer goroutine that waits on the timer channel alone (plain receive) and dispatches a timeout has no stop arm at all
	for _, fn := range shipFns {
		core.EachInstr(fn, func(in ssa.Instruction) {
			if core.IsStaticCall(in, "time.AfterFunc") {
				r.Fail(R1, "time.AfterFunc in "+shortFn(p.FnName(fn)), p.Pos(in.Pos()), "unrecognised timer mechanism (time.AfterFunc): the cancellation protocol cannot be checked")
			}
		})
	}
	if len(arms) == 0 {
		r.Unresolved(R1, "timer goroutine (go func selecting on time.After) in package ship")
		return
	}
	tokenFields := map[*types.Var]bool{}
	for _, a := range arms {
		name := shortFn(p.FnName(a.fn))
		// values inside the goroutine body: free variables resolve to their binding (Canon); parameters of a
		// goroutine started as `go c.method(args)` resolve to the arguments of the go statement
		a := a
		resolve := func(v ssa.Value) ssa.Value {
			v = core.Canon(v)
			if pa, ok := v.(*ssa.Parameter); ok && pa.Parent() == a.body {
				for i, q := range a.body.Params {
					if q == pa && i < len(a.goInstr.Call.Args) && a.goInstr.Call.StaticCallee() == a.body {
						return core.Canon(a.goInstr.Call.Args[i])
					}
				}
			}
			return v
		}
		// R4
		key := "timer goroutine of " + name + " waits once"
		if core.InLoop(a.sel.Block()) {
			r.Fail(R4, key, p.Pos(a.sel.Pos()), "the timer goroutine's select is inside a loop: one armed timer can deliver several timeouts")
		} else {
			r.OK(R4, key, p.Pos(a.sel.Pos()), "select is not in a loop")
		}
		// R1b: the time source is per arm as well
		for _, st := range a.sel.States {
			if st.Dir != types.RecvOnly || !isTimerChan(st.Chan) {
				continue
			}
			key := "time source of timer goroutine of " + name
			src := core.Canon(st.Chan)
			fresh := false
			if c, ok := src.(*ssa.Call); ok && core.CalleeName(&c.Call) == "time.After" {
				fresh = true
			} else if f, base := core.LoadedField(src); f != nil && f.Name() == "C" {
				// *time.Timer: must be created by time.NewTimer in this arming invocation
				if c, ok := core.Canon(base).(*ssa.Call); ok && core.CalleeName(&c.Call) == "time.NewTimer" && (c.Parent() == a.fn || c.Parent() == a.body) {
					fresh = true
				}
			}
			if fresh {
				r.OK(R1, key, p.Pos(a.sel.Pos()), "a fresh timer channel per arm")
			} else {
				r.Fail(R1, key, p.Pos(a.sel.Pos()), "the timer goroutine waits on a timer that is shared between arms (re-used / Reset): a stale expiry of a stopped timer is delivered to the next armed one")
			}
		}
		// R1
		var token ssa.Value
		nOther := 0
		for _, st := range a.sel.States {
			if st.Dir != types.RecvOnly || isTimerChan(st.Chan) {
				continue
			}
			nOther++
			src := resolve(st.Chan)
			key := "stop arm of timer goroutine of " + name
			if mk, ok := src.(*ssa.MakeChan); ok && mk.Parent() == a.fn {
				token = mk
				r.OK(R1, key, p.Pos(a.sel.Pos()), "waits on a channel created by this arming invocation")
			} else if f, _ := core.LoadedField(st.Chan); f != nil {
				r.Fail(R1, key, p.Pos(a.sel.Pos()), "the timer goroutine waits on the connection-wide channel field "+f.Name()+": a stale goroutine can consume the stop meant for its successor and a stop before the goroutine reaches its select is lost")
			} else {
				r.Fail(R1, key, p.Pos(a.sel.Pos()), "the stop channel is not created by the arming invocation")
			}
		}
		if nOther == 0 {
			r.Fail(R1, "stop arm of timer goroutine of "+name, p.Pos(a.sel.Pos()), "the timer goroutine has no stop arm: a stopped timer always fires")
		}
		if !a.sel.Blocking {
			r.Fail(R1, "select of timer goroutine of "+name, p.Pos(a.sel.Pos()), "non-blocking select in the timer goroutine")
		}
		// token field: the field the arm function stores the token into
		if token != nil {
			core.EachInstr(a.fn, func(in ssa.Instruction) {
				if f, _, v := core.StoredField(in); f != nil && core.Canon(v) == token {
					tokenFields[f] = true
				}
			})
		}
		// R1c: token and running flag are published under the timer mutex before the goroutine starts
		if token != nil {
			lsArm := core.Locksets(a.fn, core.LockSet{})
			var tokStore ssa.Instruction
			core.EachInstr(a.fn, func(in ssa.Instruction) {
				if f, _, v := core.StoredField(in); f != nil && core.Canon(v) == token {
					tokStore = in
				}
			})
			key := "token of " + name + " published before the goroutine starts"
			held := false
			if tokStore != nil {
				for id := range lsArm[tokStore] {
					if strings.HasSuffix(id, "handshakeTimerMux") {
						held = true
					}
				}
			}
			if tokStore != nil && held && core.Dominates(tokStore, a.goInstr) {
				r.OK(R1, key, p.Pos(tokStore.Pos()), "stored under the timer mutex, before the go statement")
			} else {
				r.Fail(R1, key, p.Pos(a.goInstr.Pos()), "the arming function does not store its token under the timer mutex before it starts the timer goroutine: the goroutine's identity check can see a stale or missing token")
			}
		}
		// R3 fire path: calls with a constant true argument into package ship
		var fires []ssa.Instruction
		core.EachInstr(a.body, func(in ssa.Instruction) {
			c, ok := in.(*ssa.Call)
			if !ok {
				return
			}
			callee := c.Call.StaticCallee()
			if callee == nil || p.PkgShort(callee) != "ship" {
				return
			}
			for _, arg := range c.Call.Args {
				if isBoolConst(arg, true) {
					fires = append(fires, in)
				}
			}
		})
		if len(fires) == 0 {
			r.Fail(R3, "timeout dispatch of "+name, p.Pos(a.body.Pos()), "no timeout dispatch (call with timeout=true) found in the timer goroutine")
		}
		lsCache := map[*ssa.Function]map[ssa.Instruction]core.LockSet{}
		lsOf := func(in ssa.Instruction) core.LockSet {
			fn := in.Parent()
			if lsCache[fn] == nil {
				lsCache[fn] = core.Locksets(fn, core.LockSet{})
			}
			return lsCache[fn][in]
		}
		shipLocal := func(f *ssa.Function) bool { return p.PkgShort(f) == "ship" && f.Blocks != nil }
		// expiry helpers: ship functions the goroutine body calls with its own token ("am I still the armed timer,
		// then unregister" extracted into a method)
		var expiryCalls []*ssa.Call
		if token != nil {
			core.EachInstr(a.body, func(in ssa.Instruction) {
				c, ok := in.(*ssa.Call)
				if !ok || c.Call.StaticCallee() == nil || !shipLocal(c.Call.StaticCallee()) {
					return
				}
				for _, arg := range c.Call.Args {
					if resolve(arg) == token {
						expiryCalls = append(expiryCalls, c)
						gExpiryHelpers[c.Call.StaticCallee()] = true
					}
				}
			})
		}
		for _, fire := range fires {
			key := "timeout dispatch of " + name
			if core.InLoop(fire.Block()) {
				r.Fail(R4, key+" once", p.Pos(fire.Pos()), "the timeout dispatch is inside a loop")
			} else {
				r.OK(R4, key+" once", p.Pos(fire.Pos()), "dispatch is not in a loop")
			}
			underLock := false
			guard := func(b *ssa.BasicBlock, idx int) bool {
				i := core.BlockIf(b)
				if i == nil || token == nil {
					return false
				}
				v, truth := core.Truth(i.Cond, idx)
				bo, ok := v.(*ssa.BinOp)
				if !ok || (bo.Op != token_EQL && bo.Op != token_NEQ) {
					return false
				}
				if truth != (bo.Op == token_EQL) {
					return false
				}
				var fieldSide ssa.Value
				if resolve(bo.X) == token {
					fieldSide = bo.Y
				} else if resolve(bo.Y) == token {
					fieldSide = bo.X
				} else {
					return false
				}
				f, _ := core.LoadedField(fieldSide)
				if f == nil || !tokenFields[f] {
					return false
				}
				if ld, ok := fieldSide.(ssa.Instruction); ok {
					for id := range lsOf(ld) {
						if strings.HasSuffix(id, "handshakeTimerMux") {
							underLock = true
						}
					}
				}
				return true
			}
			if core.Guarded(fire, core.LiftEdge(guard, shipLocal, 1)) {
				if underLock {
					r.OK(R3, key, p.Pos(fire.Pos()), "guarded by token identity under the timer mutex")
				} else {
					r.Fail(R3, key, p.Pos(fire.Pos()), "the token comparison guarding the timeout dispatch is not made under handshakeTimerMux")
				}
			} else {
				r.Fail(R3, key, p.Pos(fire.Pos()), "the timeout is dispatched without re-validating that this timer is still the current, un-stopped one (the timer channel may already be ready when stop runs)")
			}
			// the expiring timer claims its expiry in the critical section of the identity check: between the
			// load of the current token it compares with and the store that unregisters it, the timer mutex is
			// not released (else a stop or re-arm that lands in between is overridden: the stopped timer still
			// delivers, and the bookkeeping reset afterwards kills the newly armed timer)
			{
				var cmpLoad ssa.Instruction
				core.EachInstr(a.body, func(in ssa.Instruction) {
					bo, ok := in.(*ssa.BinOp)
					if !ok || (bo.Op != token_EQL && bo.Op != token_NEQ) || token == nil {
						return
					}
					var fieldSide ssa.Value
					if resolve(bo.X) == token {
						fieldSide = bo.Y
					} else if resolve(bo.Y) == token {
						fieldSide = bo.X
					}
					if fieldSide == nil {
						return
					}
					if f, _ := core.LoadedField(fieldSide); f != nil && tokenFields[f] {
						if ld, ok := fieldSide.(ssa.Instruction); ok {
							cmpLoad = ld
						}
					}
				})
				claims := core.NewMust(p, 1, func(in ssa.Instruction) bool {
					fl, _, _ := core.StoredField(in)
					return fl != nil && (fl == fTimer || tokenFields[fl])
				})
				isUnlock := func(in ssa.Instruction) bool {
					if _, isDefer := in.(*ssa.Defer); isDefer {
						return false
					}
					id, op, _ := core.MutexOp(in)
					return op < 0 && strings.HasSuffix(id, "handshakeTimerMux")
				}
				k := "expiry of " + name + " is claimed under the lock of its identity check"
				// the check-and-unregister step may be a helper called with the token
				helperOK := false
				if cmpLoad == nil {
					for _, hc := range expiryCalls {
						h := hc.Call.StaticCallee()
						undo := core.BindCall(hc)
						var hLoad ssa.Instruction
						core.EachInstr(h, func(in ssa.Instruction) {
							bo, ok := in.(*ssa.BinOp)
							if !ok || (bo.Op != token_EQL && bo.Op != token_NEQ) {
								return
							}
							var fieldSide ssa.Value
							if resolve(bo.X) == token {
								fieldSide = bo.Y
							} else if resolve(bo.Y) == token {
								fieldSide = bo.X
							}
							if fieldSide == nil {
								return
							}
							if f, _ := core.LoadedField(fieldSide); f != nil && tokenFields[f] {
								if ld, ok := fieldSide.(ssa.Instruction); ok {
									hLoad = ld
								}
							}
						})
						if hLoad != nil {
							isClaim := func(in ssa.Instruction) bool {
								switch in.(type) {
								case *ssa.Store, *ssa.Call:
									return claims.Instr(in)
								}
								return false
							}
							okH := true
							core.EachInstr(h, func(in ssa.Instruction) {
								ret, isRet := in.(*ssa.Return)
								if !isRet || len(ret.Results) != 1 || !isBoolConst(core.ResultOf(ret, 0), true) {
									return
								}
								if core.PathSearch(h, hLoad, func(y ssa.Instruction) bool { return y == ssa.Instruction(ret) }, isClaim, nil) != nil {
									okH = false // reports "I am the armed timer" without unregistering
								}
							})
							if core.PathSearch(h, hLoad, isUnlock, isClaim, guardNegated(guard)) != nil {
								okH = false
							}
							held := false
							for id := range lsOf(hLoad) {
								if strings.HasSuffix(id, "handshakeTimerMux") {
									held = true
								}
							}
							if okH && held {
								helperOK = true
							}
						}
						undo()
					}
				}
				switch {
				case helperOK:
					r.OK(R3, k, p.Pos(fire.Pos()), "check and unregistration happen in one critical section of a helper")
				case cmpLoad == nil:
					r.Fail(R3, k, p.Pos(fire.Pos()), "no comparison of the connection's current token with the goroutine's own token found")
				default:
					// on the way from the comparison's load to the dispatch: a claim must come before any unlock
					claimFirst := core.PathSearch(a.body, cmpLoad, func(in ssa.Instruction) bool { return in == fire }, func(in ssa.Instruction) bool {
						switch in.(type) {
						case *ssa.Store, *ssa.Call:
							return claims.Instr(in)
						}
						return false
					}, nil) == nil
					unlockBeforeClaim := false
					if claimFirst {
						// and no unlock between the load and that claim
						var firstClaimHit bool
						_ = firstClaimHit
						bad := core.PathSearch(a.body, cmpLoad, isUnlock, func(in ssa.Instruction) bool {
							switch in.(type) {
							case *ssa.Store, *ssa.Call:
								return claims.Instr(in)
							}
							return false
						}, guardNegated(guard))
						unlockBeforeClaim = bad != nil
					}
					if claimFirst && !unlockBeforeClaim {
						r.OK(R3, k, p.Pos(fire.Pos()), "token cleared before the mutex is released")
					} else {
						r.Fail(R3, k, p.Pos(fire.Pos()), "the timer mutex is released between the identity check and the reset of the timer bookkeeping (or the bookkeeping is not reset before the dispatch): a stop or re-arm landing in that window is overridden - a stopped timer still delivers its timeout, and the late reset removes the newly armed timer")
					}
				}
			}
			// a timer goroutine touches the connection's timer bookkeeping only after it has established that
			// it is the current timer: a replaced timer that still expires must not clear the running flag or
			// the token of its successor
			writeFns := []*ssa.Function{a.body}
			bindFor := map[*ssa.Function]*ssa.Call{}
			for _, hc := range expiryCalls {
				writeFns = append(writeFns, hc.Call.StaticCallee())
				bindFor[hc.Call.StaticCallee()] = hc
			}
			for _, wf := range writeFns {
				wf := wf
				core.EachInstr(wf, func(in ssa.Instruction) {
					fl, _, _ := core.StoredField(in)
					if fl == nil || (fl != fTimer && !tokenFields[fl]) {
						return
					}
					k := "timer goroutine of " + name + " writes " + fl.Name() + " only as the current timer"
					if hc := bindFor[wf]; hc != nil {
						undo := core.BindCall(hc)
						defer undo()
					}
					if core.Guarded(in, guard) {
						r.OK(R3, k, p.Pos(in.Pos()), "behind the token identity check")
					} else {
						r.Fail(R3, k, p.Pos(in.Pos()), "an expiring timer that was already replaced updates "+fl.Name()+" of the connection: the bookkeeping of the current timer is corrupted (it is then not stopped, or believed stopped, and fires into a later phase)")
					}
				})
			}
		}
	}
	// R2: cancellation sites
	inFire := func(fn *ssa.Function) bool {
		if gExpiryHelpers[fn] {
			return true
		}
		for _, a := range arms {
			if core.NestedIn(fn, a.body) {
				return true
			}
		}
		return false
	}
	isArm := func(fn *ssa.Function) bool {
		for _, a := range arms {
			if fn == a.fn {
				return true
			}
		}
		return false
	}
	// lossy idiom: non-blocking select with a send on a channel field of the connection
	for _, fn := range shipFns {
		core.EachInstr(fn, func(in ssa.Instruction) {
			if sel, ok := in.(*ssa.Select); ok && !sel.Blocking {
				for _, st := range sel.States {
					if st.Dir == types.SendOnly {
						if f, b := core.LoadedField(st.Chan); f != nil && core.NamedOf(b.Type()) == conn {
							r.Fail(R2, "non-blocking send on "+f.Name()+" in "+shortFn(p.FnName(fn)), p.Pos(in.Pos()), "cancellation by a non-blocking send is dropped whenever the timer goroutine has not reached its select yet (stop right after arm)")
						}
					}
				}
			}
		})
	}
	closesToken := func(in ssa.Instruction) bool {
		if !isBuiltin(in, "close") {
			return false
		}
		f, _ := core.LoadedField(core.Common(in).Args[0])
		return f != nil && tokenFields[f]
	}
	tokenNilEdge := func(b *ssa.BasicBlock, idx int) bool {
		i := core.BlockIf(b)
		if i == nil {
			return false
		}
		v, truth := core.Truth(i.Cond, idx)
		bo, ok := v.(*ssa.BinOp)
		if !ok || (bo.Op != token_EQL && bo.Op != token_NEQ) {
			return false
		}
		var other ssa.Value
		if core.IsNilConst(bo.Y) {
			other = bo.X
		} else if core.IsNilConst(bo.X) {
			other = bo.Y
		} else {
			return false
		}
		f, _ := core.LoadedField(other)
		return f != nil && tokenFields[f] && truth == (bo.Op == token_EQL)
	}
	nstop := 0
	for _, fn := range shipFns {
		if inFire(fn) {
			continue
		}
		core.EachInstr(fn, func(in ssa.Instruction) {
			f, _, v := core.StoredField(in)
			if f != fTimer || !isBoolConst(v, false) {
				return
			}
			nstop++
			key := "stop path in " + shortFn(p.FnName(fn))
			if bad := core.PathSearch(fn, nil, func(y ssa.Instruction) bool { return y == in }, closesToken, tokenNilEdge); bad != nil {
				r.Fail(R2, key, p.Pos(in.Pos()), "the running flag is cleared without closing the current timer's stop token on some path: the timer goroutine is not cancelled and fires later")
			} else {
				r.OK(R2, key, p.Pos(in.Pos()), "every path that clears the running flag closes the token (unless none is armed)")
			}
		})
		// re-arming must cancel the previous timer as well
		if isArm(fn) {
			var mk ssa.Instruction
			core.EachInstr(fn, func(in ssa.Instruction) {
				if f, _, v := core.StoredField(in); f != nil && tokenFields[f] {
					if _, ok := core.Canon(v).(*ssa.MakeChan); ok {
						mk = in
					}
				}
			})
			key := "re-arm in " + shortFn(p.FnName(fn)) + " cancels previous"
			if mk == nil {
				r.Fail(R2, key, p.Pos(fn.Pos()), "the arming function does not store its token into the connection")
			} else {
				stopsFirst := func(y ssa.Instruction) bool {
					if closesToken(y) {
						return true
					}
					// or calls a function that always closes the token
					c := core.Common(y)
					if c == nil {
						return false
					}
					if callee := c.StaticCallee(); callee != nil && p.PkgShort(callee) == "ship" && callee != fn {
						return core.PathSearch(callee, nil, core.IsReturn, closesToken, tokenNilEdge) == nil
					}
					return false
				}
				if bad := core.PathSearch(fn, nil, func(y ssa.Instruction) bool { return y == mk }, stopsFirst, tokenNilEdge); bad != nil {
					r.Fail(R2, key, p.Pos(mk.Pos()), "a new timer replaces the token without cancelling the previous timer: the replaced timer still fires")
				} else {
					r.OK(R2, key, p.Pos(mk.Pos()), "the previous token is closed before it is replaced")
				}
			}
		}
	}
	if nstop == 0 {
		r.Fail(R2, "stop paths", "", "no site clears the running flag: timers can never be stopped")
	}
	// R5: arming is unconditional
	for _, a := range arms {
		key := "arming in " + shortFn(p.FnName(a.fn)) + " always starts its timer"
		if bad := core.MustPass(a.fn, nil, func(y ssa.Instruction) bool { return y == a.goInstr }, nil); bad != nil {
			r.Fail(R5, key, p.Pos(bad.Pos()), "the arming function can return without starting a timer goroutine of its own: the caller's (re-)arm is silently dropped and an older timer, armed for an earlier deadline, delivers the timeout")
		} else {
			r.OK(R5, key, p.Pos(a.goInstr.Pos()), "every return of the arming function is preceded by the go statement of its timer goroutine")
		}
	}
	checkPhaseTimers(p, r, R6)
	const R7 = "C14.R7 timer-follows-the-state-atomically"
	r.Rule(R7, "in the function that stores the handshake state from its parameter every call that arms or stops the timer is made while the state mutex taken for that store is still held (else another goroutine handles the awaited reply, stops nothing because nothing is armed yet, moves on - and the timer of the finished phase is armed afterwards, with nobody left to stop it); and a hello handler that reads the partner's waiting value stops or replaces the running timer on every path that goes on")
	{
		fState := p.Field("ship", "ShipConnection", "smeState")
		armOrStop := map[*ssa.Function]bool{}
		for _, a := range arms {
			armOrStop[a.fn] = true
		}
		for _, fn := range shipFns {
			if inFire(fn) || isArm(fn) {
				continue
			}
			core.EachInstr(fn, func(in ssa.Instruction) {
				if f, _, v := core.StoredField(in); f == fTimer && isBoolConst(v, false) {
					armOrStop[fn] = true
				}
			})
		}
		nset := 0
		for _, fn := range shipFns {
			fn := fn
			var store ssa.Instruction
			core.EachInstr(fn, func(in ssa.Instruction) {
				if f, _, v := core.StoredField(in); f == fState && fState != nil {
					if _, ok := core.Canon(v).(*ssa.Parameter); ok {
						store = in
					}
				}
			})
			if store == nil {
				continue
			}
			ls := core.Locksets(fn, core.LockSet{})
			held := ls[store]
			// the timer calls of the setter itself and of the unexported helpers it calls (entered with the
			// locks held at their call site)
			var scan func(f *ssa.Function, lsf map[ssa.Instruction]core.LockSet, depth int)
			scan = func(f *ssa.Function, lsf map[ssa.Instruction]core.LockSet, depth int) {
				core.EachInstr(f, func(in ssa.Instruction) {
					c, ok := in.(*ssa.Call)
					if !ok || c.Call.StaticCallee() == nil {
						return
					}
					t := c.Call.StaticCallee()
					if !armOrStop[t] {
						if depth > 0 && t.Blocks != nil && p.PkgShort(t) == "ship" && t.Object() != nil && !t.Object().Exported() && t != fn {
							scan(t, core.Locksets(t, lsf[in]), depth-1)
						}
						return
					}
					nset++
					key := "timer action in " + shortFn(p.FnName(fn)) + " under the state mutex"
					common := false
					for id := range lsf[in] {
						if held[id] {
							common = true
						}
					}
					if common {
						r.OK(R7, key, p.Pos(in.Pos()), "same critical section as the state store")
					} else {
						r.Fail(R7, key, p.Pos(in.Pos()), "the timer is armed / stopped after the mutex of the state store was released: the new state is visible before its timer exists, a concurrent handler can finish the phase in between and the timer armed afterwards survives into the next phase")
					}
				})
			}
			scan(fn, ls, 2)
		}
		if nset == 0 {
			r.Fail(R7, "timer actions of the state setter", "", "the state setter no longer arms or stops timers")
		}
		// waiting value handled => old timer stopped or replaced
		if fWaiting := p.Field("model", "ConnectionHelloType", "Waiting"); fWaiting != nil {
			isTimerOp := func(in ssa.Instruction) bool {
				c, ok := in.(*ssa.Call)
				if !ok || c.Call.StaticCallee() == nil {
					return false
				}
				return armOrStop[c.Call.StaticCallee()]
			}
			mustOp := core.NewMust(p, 2, isTimerOp)
			nw := 0
			for _, fn := range shipFns {
				fn := fn
				core.EachInstr(fn, func(in ssa.Instruction) {
					u, ok := in.(*ssa.UnOp)
					if !ok || u.Op != token.MUL {
						return
					}
					f, _ := core.LoadedField(u.X)
					if f != fWaiting {
						return
					}
					nw++
					key := "waiting value handled in " + shortFn(p.FnName(fn)) + " replaces the running timer"
					// a stop/arm before the read (dominating) or on every path after it
					before := core.PathSearch(fn, nil, func(y ssa.Instruction) bool { return y == in }, func(y ssa.Instruction) bool {
						switch y.(type) {
						case *ssa.Call:
							return mustOp.Instr(y)
						}
						return false
					}, nil) == nil
					after := core.PathSearch(fn, in, core.IsReturn, func(y ssa.Instruction) bool {
						switch y.(type) {
						case *ssa.Call:
							return mustOp.Instr(y)
						}
						return false
					}, nil) == nil
					if before || after {
						r.OK(R7, key, p.Pos(in.Pos()), "the previous timer is stopped or replaced on every path")
					} else {
						r.Fail(R7, key, p.Pos(in.Pos()), "a path handles the partner's waiting value and returns with the previous timer still running (for some values nothing is re-armed): that timer expires later although its reply arrived in time")
					}
				})
			}
			_ = nw
		}
	}
	r.Floor(R5, 1)
	r.Floor(R6, 4)
	r.Counts["timer_goroutines"] = len(arms)
	r.Counts["stop_sites"] = nstop
	r.Floor(R1, 1)
	r.Floor(R2, 2)
	r.Floor(R3, 1)
	r.Floor(R4, 2)
	_ = fmt.Sprint
	// R8 (kept last: C04 imports C14.R1-R3 in turn)
	const R8 = "C14.R8 close-stops-the-timer"
	r.Rule(R8, "whenever the connection's close routine runs - for every state and every kind of close - the handshake timer is stopped (shared with C04.R3, decided on the extracted automaton): a timer left armed by a close expires later and delivers a timeout to a connection that has ended")
	importRules(p, r, "C04", map[string]string{"C04.R3 no-timer-left-armed": R8}, nil)
}

const token_EQL = token.EQL
const token_NEQ = token.NEQ

// statePhase groups the SHIP handshake states into the phases of SHIP 13.4.3-13.4.6 by the prefix of the model constant.
func statePhase(name string) string {
	for _, pre := range []string{"CmiState", "SmeHelloState", "SmeProtHState", "SmePinState", "SmeAccessMethods"} {
		if strings.HasPrefix(name, pre) {
			return pre
		}
	}
	return "final"
}

// checkPhaseTimers (C14.R6): a timer armed in one handshake phase does not survive, un-re-armed, into a state of another phase.
func checkPhaseTimers(p *core.Program, r *core.Report, R6 string) {
	fr := getFSM(p, r, R6)
	if fr == nil {
		return
	}
	f := fr.f
	// initial state: the constant the constructor stores into the state field of the fresh connection
	initState := int8(-1)
	for _, fn := range p.FuncsOf("ship") {
		core.EachInstr(fn, func(in ssa.Instruction) {
			fv, base, v := core.StoredField(in)
			if fv != f.fState {
				return
			}
			if _, fresh := core.Canon(base).(*ssa.Alloc); !fresh {
				return
			}
			if c := core.ConstOf(v); c != nil {
				if iv, ok := constant.Int64Val(c); ok {
					if idx, ok := f.stateIdx[iv]; ok {
						initState = idx
					}
				}
			}
		})
	}
	if initState < 0 {
		r.Unresolved(R6, "initial handshake state stored by the ShipConnection constructor")
		return
	}
	strip := func(c cfgT) cfgT { c.trusted, c.closing, c.armed, c.moved = false, false, false, false; return c }
	byInit := map[cfgT][]entryResult{}
	for _, er := range fr.results {
		byInit[er.init] = append(byInit[er.init], er)
	}
	reach := map[cfgT]bool{}
	var work []cfgT
	for role := int8(0); role < 2; role++ {
		c := cfgT{role: role, state: initState}
		reach[c] = true
		work = append(work, c)
	}
	type viol struct {
		role     int8
		from, to int8
		entry    string
	}
	bad := map[viol]bool{}
	checked := map[string]bool{}
	for len(work) > 0 {
		c := work[len(work)-1]
		work = work[:len(work)-1]
		for _, er := range byInit[c] {
			for _, fin := range er.final {
				if c.timer && !c.closed {
					k := f.roleName(c.role) + " " + f.stateName(c.state)
					checked[k] = true
					if fin.timer && !fin.armed && !fin.closed && statePhase(f.stateName(fin.state)) != statePhase(f.stateName(c.state)) {
						bad[viol{c.role, c.state, fin.state, er.entry}] = true
					}
				}
				n := strip(fin)
				if !reach[n] {
					reach[n] = true
					work = append(work, n)
				}
			}
		}
	}
	badFrom := map[string][]string{}
	for v := range bad {
		k := f.roleName(v.role) + " " + f.stateName(v.from)
		badFrom[k] = append(badFrom[k], f.stateName(v.to)+" via "+shortFn(v.entry))
	}
	var ks []string
	for k := range checked {
		ks = append(ks, k)
	}
	sort.Strings(ks)
	for _, k := range ks {
		key := "timer running in " + k + " does not outlive its phase"
		if b := badFrom[k]; len(b) > 0 {
			sort.Strings(b)
			r.Fail(R6, key, "", "a run that starts with the timer of this state running ends, without stopping or re-arming it, in a state of another handshake phase: "+strings.Join(b, "; ")+" - that state is then torn down by a timeout belonging to the earlier phase")
		} else {
			r.OK(R6, key, "", "every run leaving the phase stops or re-arms the timer")
		}
	}
	r.Counts["reachable_quiescent_configs"] = len(reach)
}

// guardNegated removes the edges on which a guard's own branch goes the other way (the "not the current timer"
// exits), so that a search only follows the path on which the guard held.
func guardNegated(guard core.EdgeFilter) core.EdgeFilter {
	return func(b *ssa.BasicBlock, idx int) bool {
		if core.BlockIf(b) == nil || len(b.Succs) != 2 {
			return false
		}
		return guard(b, 1-idx) && !guard(b, idx)
	}
}

// gExpiryHelpers: functions a timer goroutine calls with its own token (part of the fire path).
var gExpiryHelpers = map[*ssa.Function]bool{}
