package rules

import (
	"fmt"
	"go/types"
	"strings"

	"golang.org/x/tools/go/ssa"

	"shipverif/internal/core"
)

func init() { register("C15", checkC15) }

// hubSKITaint builds the taint engine used by C15 (and reused by C10/C01):
// sources are SKI string parameters, sanitiser util.NormalizeSKI, sinks the
// keys of the hub's SKI-keyed maps and the SKI argument of reader callbacks.
func hubSKITaint(p *core.Program) (*core.Taint, map[*types.Var]bool) {
	hub := p.Named("hub", "Hub")
	mapFields := map[*types.Var]bool{}
	if hub != nil {
		st := hub.Underlying().(*types.Struct)
		for i := 0; i < st.NumFields(); i++ {
			if m, ok := st.Field(i).Type().Underlying().(*types.Map); ok {
				if b, ok := m.Key().Underlying().(*types.Basic); ok && b.Info()&types.IsString != 0 {
					mapFields[st.Field(i)] = true
				}
			}
		}
	}
	reader := p.Named("api", "HubReaderInterface")
	isHubMap := func(v ssa.Value) bool { f, _ := core.LoadedField(v); return f != nil && mapFields[f] }
	t := &core.Taint{
		P:       p,
		InScope: func(fn *ssa.Function) bool { s := p.PkgShort(fn); return s == "hub" },
		Sanitizer: func(c *ssa.CallCommon) bool {
			n := core.CalleeName(c)
			return n == core.ModulePath+"/util.NormalizeSKI"
		},
		Sinks: func(in ssa.Instruction) []ssa.Value {
			switch x := in.(type) {
			case *ssa.Lookup:
				if isHubMap(x.X) {
					return []ssa.Value{x.Index}
				}
			case *ssa.MapUpdate:
				if isHubMap(x.Map) {
					return []ssa.Value{x.Key}
				}
			case *ssa.Call:
				if isBuiltin(in, "delete") && isHubMap(x.Call.Args[0]) {
					return []ssa.Value{x.Call.Args[1]}
				}
				if x.Call.IsInvoke() && reader != nil {
					recv := x.Call.Method.Type().(*types.Signature).Recv()
					if recv != nil && core.NamedOf(recv.Type()) == reader && len(x.Call.Args) > 0 {
						if b, ok := x.Call.Args[0].Type().Underlying().(*types.Basic); ok && b.Info()&types.IsString != 0 {
							return []ssa.Value{x.Call.Args[0]}
						}
					}
				}
			}
			return nil
		},
	}
	return t, mapFields
}

// hubSKIEntries: (*Hub) methods implementing api.HubInterface with a string parameter named ski.
func hubSKIEntries(p *core.Program) map[*ssa.Function][]int {
	out := map[*ssa.Function][]int{}
	hi := p.Named("api", "HubInterface")
	if hi == nil {
		return out
	}
	it := hi.Underlying().(*types.Interface)
	for i := 0; i < it.NumMethods(); i++ {
		m := it.Method(i)
		sig := m.Type().(*types.Signature)
		fn := p.Method("hub", "Hub", m.Name())
		if fn == nil {
			continue
		}
		for j := 0; j < sig.Params().Len(); j++ {
			pv := sig.Params().At(j)
			if strings.EqualFold(pv.Name(), "ski") {
				if b, ok := pv.Type().Underlying().(*types.Basic); ok && b.Info()&types.IsString != 0 {
					out[fn] = append(out[fn], j+1) // +1: receiver
				}
			}
		}
	}
	return out
}

func checkSKINormalised(p *core.Program, r *core.Report, R1 string, only map[string]bool) int {
	t, mapFields := hubSKITaint(p)
	if len(mapFields) < 3 {
		r.Unresolved(R1, "SKI-keyed map fields of hub.Hub")
		return 0
	}
	entries := hubSKIEntries(p)
	n := 0
	var fns []*ssa.Function
	for fn := range entries {
		fns = append(fns, fn)
	}
	sortFns(fns)
	// exported Hub methods outside HubInterface that take a SKI (queries used by the SHIP layer and the
	// application alike, e.g. the paired predicate): their map accesses must see the canonical spelling too
	mapOnly := map[*ssa.Function]bool{}
	if only == nil {
		for _, fn := range p.FuncsOf("hub") {
			if fn.Object() == nil || !fn.Object().Exported() || fn.Signature.Recv() == nil || entries[fn] != nil || fn.Parent() != nil {
				continue
			}
			if core.NamedOf(recvType(fn)) != p.Named("hub", "Hub") {
				continue
			}
			for j, pa := range fn.Params {
				if j == 0 || !strings.EqualFold(pa.Name(), "ski") {
					continue
				}
				if b, ok := pa.Type().Underlying().(*types.Basic); ok && b.Info()&types.IsString != 0 {
					entries[fn] = append(entries[fn], j)
					mapOnly[fn] = true
					fns = append(fns, fn)
				}
			}
		}
		sortFns(fns)
	}
	for _, fn := range fns {
		if only != nil && !only[fn.Name()] {
			continue
		}
		for _, idx := range entries[fn] {
			n++
			res := t.From(fn, fn.Params[idx])
			if mapOnly[fn] {
				var kept []core.TaintHit
				for _, h := range res.Hits {
					if c, isCall := h.Sink.(*ssa.Call); isCall && c.Call.IsInvoke() {
						continue // the SKI is handed back to the reader as it was given: not a lookup
					}
					kept = append(kept, h)
				}
				res.Hits = kept
			}
			key := "hub.Hub." + fn.Name() + " ski"
			if len(res.Hits) == 0 {
				r.OK(R1, key, p.Pos(fn.Pos()), "every SKI-keyed map access and reader callback reached from this parameter sees util.NormalizeSKI's result")
				continue
			}
			seen := map[string]bool{}
			for _, h := range res.Hits {
				what := sinkDesc(p, h.Sink)
				k2 := key + " -> " + what
				if seen[k2] {
					continue
				}
				seen[k2] = true
				r.Fail(R1, k2, p.Pos(h.Sink.Pos()), fmt.Sprintf("the raw (un-normalised) SKI spelling given to %s reaches %s: a re-formatted SKI misses the live connection / counter or is reported under a different key", fn.Name(), what), h.Chain...)
			}
		}
	}
	return n
}

func sortFns(fns []*ssa.Function) {
	for i := 0; i < len(fns); i++ {
		for j := i + 1; j < len(fns); j++ {
			if fns[j].Name() < fns[i].Name() {
				fns[i], fns[j] = fns[j], fns[i]
			}
		}
	}
}

func sinkDesc(p *core.Program, in ssa.Instruction) string {
	fnn := p.FnName(in.Parent())
	switch x := in.(type) {
	case *ssa.Lookup:
		f, _ := core.LoadedField(x.X)
		return "lookup " + f.Name() + "[ski] in " + fnn
	case *ssa.MapUpdate:
		f, _ := core.LoadedField(x.Map)
		return "store " + f.Name() + "[ski] in " + fnn
	case *ssa.Call:
		if isBuiltin(in, "delete") {
			f, _ := core.LoadedField(x.Call.Args[0])
			return "delete " + f.Name() + "[ski] in " + fnn
		}
		if x.Call.IsInvoke() {
			return "callback " + x.Call.Method.Name() + "(ski) in " + fnn
		}
	}
	return "sink in " + fnn
}

func checkC15(p *core.Program, r *core.Report) {
	const R1 = "C15.R1 normalise-before-use"
	const R2 = "C15.R2 internal-skis-canonical"
	r.Explanation = "C15 (hub operations invariant under SKI formatting): full metamorphic equality is an input/history property; decided is the source->sanitiser->sink clause it rests on: (R1) for every SKI string parameter of the hub's public API (api.HubInterface), no SKI-keyed map access of hub.Hub (connections, attempt counters/flags, services - discovered as the map[string] fields) and no SKI argument of a HubReaderInterface callback is reached by the raw parameter; only util.NormalizeSKI's result may reach them (interprocedural value flow through the hub's helpers); (R2) the SKIs under which connections are created and registered derive from ServiceDetails.SKI(), which is canonical by construction. Not decided: equality of all other observable effects."
	r.Rule(R1, "taint: HubInterface ski parameters -> (util.NormalizeSKI cuts) -> keys of Hub's map[string] fields, ski argument of reader callbacks")
	r.Rule(R2, "remote-SKI arguments of ship.NewConnectionHandler / ws.NewWebsocketConnection are ServiceDetails.SKI(); NewServiceDetails normalises")
	n := checkSKINormalised(p, r, R1, nil)
	r.Counts["ski_parameters"] = n
	r.Floor(R1, 5)

	// R2
	nch := p.Func("ship", "NewConnectionHandler")
	nws := p.Func("ws", "NewWebsocketConnection")
	if nch == nil || nws == nil {
		r.Unresolved(R2, "ship.NewConnectionHandler / ws.NewWebsocketConnection")
		return
	}
	for _, s := range core.Sites(p.FuncsOf("hub"), func(in ssa.Instruction) bool {
		c := core.Common(in)
		return c != nil && (c.StaticCallee() == nch || c.StaticCallee() == nws)
	}) {
		c := core.Common(s.In)
		arg := c.Args[len(c.Args)-1]
		name := "NewWebsocketConnection"
		if c.StaticCallee() == nch {
			arg = c.Args[4]
			name = "NewConnectionHandler"
		}
		key := name + " remote SKI in " + p.FnName(s.Fn)
		if call, ok := core.Canon(arg).(*ssa.Call); ok && core.CallsMethodNamed(call, apiPath, "ServiceDetails", "SKI") {
			r.OK(R2, key, p.Pos(s.In.Pos()), "ServiceDetails.SKI()")
		} else {
			r.Fail(R2, key, p.Pos(s.In.Pos()), "a connection is created under a SKI string that is not ServiceDetails.SKI() (canonical form)")
		}
	}
	// NewServiceDetails stores NormalizeSKI(param)
	nsd := p.Func("api", "NewServiceDetails")
	fski := p.Field("api", "ServiceDetails", "ski")
	if nsd == nil || fski == nil {
		r.Unresolved(R2, "api.NewServiceDetails / ServiceDetails.ski")
		return
	}
	for _, pk := range []string{"api", "hub", "ship", "ws", "mdns"} {
		for _, s := range core.Sites(p.FuncsOf(pk), func(in ssa.Instruction) bool { return core.IsFieldStore(in, fski) }) {
			_, _, v := core.StoredField(s.In)
			key := "ServiceDetails.ski write in " + p.FnName(s.Fn)
			if call, ok := core.Canon(v).(*ssa.Call); ok && core.CalleeName(&call.Call) == core.ModulePath+"/util.NormalizeSKI" {
				r.OK(R2, key, p.Pos(s.In.Pos()), "normalised")
			} else {
				r.Fail(R2, key, p.Pos(s.In.Pos()), "a service's SKI is stored without normalisation")
			}
		}
	}
	// NormalizeSKI itself: removes spaces and dashes and lower-cases
	checkNormalizer(p, r, R2)
	r.Floor(R2, 6)
}

func checkNormalizer(p *core.Program, r *core.Report, R2 string) {
	fn := p.Func("util", "NormalizeSKI")
	if fn == nil {
		r.Unresolved(R2, "util.NormalizeSKI")
		return
	}
	has := map[string]bool{}
	core.EachInstr(fn, func(in ssa.Instruction) {
		c := core.Common(in)
		if c == nil {
			return
		}
		switch core.CalleeName(c) {
		case "strings.ToLower":
			has["lower"] = true
		case "strings.ReplaceAll":
			if k := core.ConstOf(c.Args[1]); k != nil {
				if r2 := core.ConstOf(c.Args[2]); r2 != nil && r2.ExactString() == `""` {
					has["rm"+k.ExactString()] = true
				}
			}
		case "strings.NewReplacer", "strings.Map", "strings.Replace":
			has["other"] = true
		}
	})
	// result must derive from the parameter
	for _, w := range []struct{ k, what string }{{"lower", "lower-cases"}, {`rm" "`, "removes spaces"}, {`rm"-"`, "removes dashes"}} {
		key := "util.NormalizeSKI " + w.what
		if has[w.k] || has["other"] {
			r.OK(R2, key, p.Pos(fn.Pos()), "present")
		} else {
			r.Fail(R2, key, p.Pos(fn.Pos()), "the canonicalisation no longer "+w.what+": spellings of one SKI map to different keys")
		}
	}
}
