package rules

import (
	"fmt"
	"go/constant"
	"go/token"
	"go/types"
	"strings"

	"golang.org/x/tools/go/ssa"

	"shipverif/internal/core"
)

func init() { register("C15", checkC15) }

// hubSKITaint builds the taint engine used by C15 (and reused by C10/C01):
// sources are SKI string parameters, sanitiser util.NormalizeSKI, sinks the
// keys of the hub's SKI-keyed maps and the SKI argument of reader callbacks.
func hubSKITaint(p *core.Program) (*core.Taint, map[*types.Var]bool) {
	hub := p.Named("hub", "Hub")
	mapFields := map[*types.Var]bool{}
	if hub != nil {
		st := hub.Underlying().(*types.Struct)
		for i := 0; i < st.NumFields(); i++ {
			if m, ok := st.Field(i).Type().Underlying().(*types.Map); ok {
				if b, ok := m.Key().Underlying().(*types.Basic); ok && b.Info()&types.IsString != 0 {
					mapFields[st.Field(i)] = true
				}
			}
		}
	}
	reader := p.Named("api", "HubReaderInterface")
	isHubMap := func(v ssa.Value) bool { f, _ := core.LoadedField(v); return f != nil && mapFields[f] }
	t := &core.Taint{
		P:       p,
		InScope: func(fn *ssa.Function) bool { s := p.PkgShort(fn); return s == "hub" },
		Sanitizer: func(c *ssa.CallCommon) bool {
			n := core.CalleeName(c)
			return n == core.ModulePath+"/util.NormalizeSKI"
		},
		Sinks: func(in ssa.Instruction) []ssa.Value {
			switch x := in.(type) {
			case *ssa.Lookup:
				if isHubMap(x.X) {
					return []ssa.Value{x.Index}
				}
			case *ssa.MapUpdate:
				if isHubMap(x.Map) {
					return []ssa.Value{x.Key}
				}
			case *ssa.Call:
				if isBuiltin(in, "delete") && isHubMap(x.Call.Args[0]) {
					return []ssa.Value{x.Call.Args[1]}
				}
				if x.Call.IsInvoke() && reader != nil {
					recv := x.Call.Method.Type().(*types.Signature).Recv()
					if recv != nil && core.NamedOf(recv.Type()) == reader && len(x.Call.Args) > 0 {
						if b, ok := x.Call.Args[0].Type().Underlying().(*types.Basic); ok && b.Info()&types.IsString != 0 {
							return []ssa.Value{x.Call.Args[0]}
						}
					}
				}
			}
			return nil
		},
	}
	return t, mapFields
}

// hubSKIEntries: (*Hub) methods implementing api.HubInterface with a string parameter named ski.
func hubSKIEntries(p *core.Program) map[*ssa.Function][]int {
	out := map[*ssa.Function][]int{}
	hi := p.Named("api", "HubInterface")
	if hi == nil {
		return out
	}
	it := hi.Underlying().(*types.Interface)
	for i := 0; i < it.NumMethods(); i++ {
		m := it.Method(i)
		sig := m.Type().(*types.Signature)
		fn := p.Method("hub", "Hub", m.Name())
		if fn == nil {
			continue
		}
		for j := 0; j < sig.Params().Len(); j++ {
			pv := sig.Params().At(j)
			if strings.EqualFold(pv.Name(), "ski") {
				if b, ok := pv.Type().Underlying().(*types.Basic); ok && b.Info()&types.IsString != 0 {
					out[fn] = append(out[fn], j+1) // +1: receiver
				}
			}
		}
	}
	return out
}

func checkSKINormalised(p *core.Program, r *core.Report, R1 string, only map[string]bool) int {
	t, mapFields := hubSKITaint(p)
	if len(mapFields) < 3 {
		r.Unresolved(R1, "SKI-keyed map fields of hub.Hub")
		return 0
	}
	entries := hubSKIEntries(p)
	n := 0
	var fns []*ssa.Function
	for fn := range entries {
		fns = append(fns, fn)
	}
	sortFns(fns)
	// exported Hub methods outside HubInterface that take a SKI (queries used by the SHIP layer and the
	// application alike, e.g. the paired predicate): their map accesses must see the canonical spelling too
	mapOnly := map[*ssa.Function]bool{}
	if only == nil {
		for _, fn := range p.FuncsOf("hub") {
			if fn.Object() == nil || !fn.Object().Exported() || fn.Signature.Recv() == nil || entries[fn] != nil || fn.Parent() != nil {
				continue
			}
			if core.NamedOf(recvType(fn)) != p.Named("hub", "Hub") {
				continue
			}
			for j, pa := range fn.Params {
				if j == 0 || !strings.EqualFold(pa.Name(), "ski") {
					continue
				}
				if b, ok := pa.Type().Underlying().(*types.Basic); ok && b.Info()&types.IsString != 0 {
					entries[fn] = append(entries[fn], j)
					mapOnly[fn] = true
					fns = append(fns, fn)
				}
			}
		}
		sortFns(fns)
	}
	for _, fn := range fns {
		if only != nil && !only[fn.Name()] {
			continue
		}
		for _, idx := range entries[fn] {
			n++
			res := t.From(fn, fn.Params[idx])
			if mapOnly[fn] {
				var kept []core.TaintHit
				for _, h := range res.Hits {
					if c, isCall := h.Sink.(*ssa.Call); isCall && c.Call.IsInvoke() {
						continue // the SKI is handed back to the reader as it was given: not a lookup
					}
					kept = append(kept, h)
				}
				res.Hits = kept
			}
			key := "hub.Hub." + fn.Name() + " ski"
			if len(res.Hits) == 0 {
				r.OK(R1, key, p.Pos(fn.Pos()), "every SKI-keyed map access and reader callback reached from this parameter sees util.NormalizeSKI's result")
				continue
			}
			seen := map[string]bool{}
			for _, h := range res.Hits {
				what := sinkDesc(p, h.Sink)
				k2 := key + " -> " + what
				if seen[k2] {
					continue
				}
				seen[k2] = true
				r.Fail(R1, k2, p.Pos(h.Sink.Pos()), fmt.Sprintf("the raw (un-normalised) SKI spelling given to %s reaches %s: a re-formatted SKI misses the live connection / counter or is reported under a different key", fn.Name(), what), h.Chain...)
			}
		}
	}
	return n
}

func sortFns(fns []*ssa.Function) {
	for i := 0; i < len(fns); i++ {
		for j := i + 1; j < len(fns); j++ {
			if fns[j].Name() < fns[i].Name() {
				fns[i], fns[j] = fns[j], fns[i]
			}
		}
	}
}

func sinkDesc(p *core.Program, in ssa.Instruction) string {
	fnn := p.FnName(in.Parent())
	switch x := in.(type) {
	case *ssa.Lookup:
		f, _ := core.LoadedField(x.X)
		return "lookup " + f.Name() + "[ski] in " + fnn
	case *ssa.MapUpdate:
		f, _ := core.LoadedField(x.Map)
		return "store " + f.Name() + "[ski] in " + fnn
	case *ssa.Call:
		if isBuiltin(in, "delete") {
			f, _ := core.LoadedField(x.Call.Args[0])
			return "delete " + f.Name() + "[ski] in " + fnn
		}
		if x.Call.IsInvoke() {
			return "callback " + x.Call.Method.Name() + "(ski) in " + fnn
		}
	}
	return "sink in " + fnn
}

func checkC15(p *core.Program, r *core.Report) {
	const R1 = "C15.R1 normalise-before-use"
	const R2 = "C15.R2 internal-skis-canonical"
	r.Explanation = "C15 (hub operations invariant under SKI formatting): full metamorphic equality is an input/history property; decided is the source->sanitiser->sink clause it rests on: (R1) for every SKI string parameter of the hub's public API (api.HubInterface), no SKI-keyed map access of hub.Hub (connections, attempt counters/flags, services - discovered as the map[string] fields) and no SKI argument of a HubReaderInterface callback is reached by the raw parameter; only util.NormalizeSKI's result may reach them (interprocedural value flow through the hub's helpers); (R2) the SKIs under which connections are created and registered derive from ServiceDetails.SKI(), which is canonical by construction. Not decided: equality of all other observable effects."
	r.Rule(R1, "taint: HubInterface ski parameters -> (util.NormalizeSKI cuts) -> keys of Hub's map[string] fields, ski argument of reader callbacks")
	r.Rule(R2, "remote-SKI arguments of ship.NewConnectionHandler / ws.NewWebsocketConnection are ServiceDetails.SKI(); NewServiceDetails normalises")
	n := checkSKINormalised(p, r, R1, nil)
	r.Counts["ski_parameters"] = n
	r.Floor(R1, 5)

	// R2
	nch := p.Func("ship", "NewConnectionHandler")
	nws := p.Func("ws", "NewWebsocketConnection")
	if nch == nil || nws == nil {
		r.Unresolved(R2, "ship.NewConnectionHandler / ws.NewWebsocketConnection")
		return
	}
	for _, s := range core.Sites(p.FuncsOf("hub"), func(in ssa.Instruction) bool {
		c := core.Common(in)
		return c != nil && (c.StaticCallee() == nch || c.StaticCallee() == nws)
	}) {
		c := core.Common(s.In)
		arg := c.Args[len(c.Args)-1]
		name := "NewWebsocketConnection"
		if c.StaticCallee() == nch {
			arg = c.Args[4]
			name = "NewConnectionHandler"
		}
		key := name + " remote SKI in " + p.FnName(s.Fn)
		if call, ok := core.Canon(arg).(*ssa.Call); ok && core.CallsMethodNamed(call, apiPath, "ServiceDetails", "SKI") {
			r.OK(R2, key, p.Pos(s.In.Pos()), "ServiceDetails.SKI()")
		} else {
			r.Fail(R2, key, p.Pos(s.In.Pos()), "a connection is created under a SKI string that is not ServiceDetails.SKI() (canonical form)")
		}
	}
	// NewServiceDetails stores NormalizeSKI(param)
	nsd := p.Func("api", "NewServiceDetails")
	fski := p.Field("api", "ServiceDetails", "ski")
	if nsd == nil || fski == nil {
		r.Unresolved(R2, "api.NewServiceDetails / ServiceDetails.ski")
		return
	}
	for _, pk := range []string{"api", "hub", "ship", "ws", "mdns"} {
		for _, s := range core.Sites(p.FuncsOf(pk), func(in ssa.Instruction) bool { return core.IsFieldStore(in, fski) }) {
			_, _, v := core.StoredField(s.In)
			key := "ServiceDetails.ski write in " + p.FnName(s.Fn)
			if call, ok := core.Canon(v).(*ssa.Call); ok && core.CalleeName(&call.Call) == core.ModulePath+"/util.NormalizeSKI" {
				r.OK(R2, key, p.Pos(s.In.Pos()), "normalised")
			} else {
				r.Fail(R2, key, p.Pos(s.In.Pos()), "a service's SKI is stored without normalisation")
			}
		}
	}
	// NormalizeSKI itself: removes spaces and dashes and lower-cases
	checkNormalizer(p, r, R2)
	r.Floor(R2, 6)
	const R3 = "C15.R3 operations-take-effect-for-every-spelling"
	r.Rule(R3, "RegisterRemoteSKI records trust on every path (shared with C10.R1): an early exit that depends on the raw spelling - e.g. a length check made before the SKI is normalised - silently ignores the label spelling of a SKI that the canonical spelling registers")
	importRules(p, r, "C10", map[string]string{"C10.R1 dial-gate": R3}, func(key string) bool { return strings.Contains(key, "RegisterRemoteSKI") })
}

func checkNormalizer(p *core.Program, r *core.Report, R2 string) {
	fn := p.Func("util", "NormalizeSKI")
	if fn == nil {
		r.Unresolved(R2, "util.NormalizeSKI")
		return
	}
	has := map[string]bool{}
	mapEvaluated := false
	var extra []string
	core.EachInstr(fn, func(in ssa.Instruction) {
		c := core.Common(in)
		if c == nil {
			return
		}
		switch core.CalleeName(c) {
		case "strings.ToLower":
			has["lower"] = true
		case "strings.ReplaceAll":
			if k := core.ConstOf(c.Args[1]); k != nil {
				if r2 := core.ConstOf(c.Args[2]); r2 != nil && r2.ExactString() == `""` {
					has["rm"+k.ExactString()] = true
				}
			}
		case "strings.Map":
			// the mapping function is evaluated for every character a SKI spelling can contain
			mf := core.ClosureArg(c.Args[0])
			if mf == nil {
				if f, ok := c.Args[0].(*ssa.Function); ok {
					mf = f
				}
			}
			if mf == nil || len(mf.Params) != 1 || len(mf.FreeVars) != 0 {
				has["other"] = true
				return
			}
			decided := true
			okLower, okSpace, okDash := true, true, true
			for ch := int64(0); ch < 128; ch++ {
				out, ok := evalRuneFunc(mf, ch)
				if !ok {
					decided = false
					break
				}
				switch {
				case ch == ' ':
					okSpace = okSpace && out < 0
				case ch == '-':
					okDash = okDash && out < 0
				case ch >= 'A' && ch <= 'F':
					okLower = okLower && out == ch-'A'+'a'
				case (ch >= 'a' && ch <= 'f') || (ch >= '0' && ch <= '9'):
					okLower = okLower && out == ch
				}
			}
			if !decided {
				has["other"] = true
				return
			}
			mapEvaluated = true
			has["lower"] = has["lower"] || okLower
			has[`rm" "`] = has[`rm" "`] || okSpace
			has[`rm"-"`] = has[`rm"-"`] || okDash
		case "strings.NewReplacer", "strings.Replace":
			has["other"] = true
		default:
			if n := core.CalleeName(c); strings.HasPrefix(n, "strings.Trim") || n == "strings.Fields" || n == "strings.Title" || n == "strings.ToUpper" || n == "strings.TrimFunc" {
				extra = append(extra, n)
			}
		}
	})
	{
		key := "util.NormalizeSKI applies nothing else"
		if len(extra) == 0 {
			r.OK(R2, key, p.Pos(fn.Pos()), "only separator removal and case folding")
		} else {
			r.Fail(R2, key, p.Pos(fn.Pos()), fmt.Sprintf("the canonicalisation also applies %v: characters that belong to the SKI (e.g. leading '0' digits cut by a TrimLeft cutset) are removed, so the canonical form is no longer the certificate's 40 hex digits and distinct SKIs can collide", extra))
		}
	}
	_ = mapEvaluated
	// result must derive from the parameter
	for _, w := range []struct{ k, what string }{{"lower", "lower-cases"}, {`rm" "`, "removes spaces"}, {`rm"-"`, "removes dashes"}} {
		key := "util.NormalizeSKI " + w.what
		if has[w.k] || has["other"] {
			r.OK(R2, key, p.Pos(fn.Pos()), "present")
		} else {
			r.Fail(R2, key, p.Pos(fn.Pos()), "the canonicalisation no longer "+w.what+": spellings of one SKI map to different keys")
		}
	}
}

// evalRuneFunc evaluates a closed func(rune) rune on one argument by interpreting its SSA (integer arithmetic,
// comparisons, boolean short-circuit phis, unicode.ToLower/ToUpper on ASCII). ok=false when the function uses
// anything else.
func evalRuneFunc(fn *ssa.Function, arg int64) (int64, bool) {
	if len(fn.Blocks) == 0 {
		return 0, false
	}
	env := map[ssa.Value]constant.Value{}
	val := func(v ssa.Value) constant.Value {
		if c, ok := v.(*ssa.Const); ok {
			return c.Value
		}
		if _, ok := v.(*ssa.Parameter); ok {
			return constant.MakeInt64(arg)
		}
		return env[v]
	}
	b := fn.Blocks[0]
	var prev *ssa.BasicBlock
	for steps := 0; steps < 400; steps++ {
		var next *ssa.BasicBlock
		for _, in := range b.Instrs {
			switch x := in.(type) {
			case *ssa.Phi:
				found := false
				for k, pr := range b.Preds {
					if pr == prev {
						env[x] = val(x.Edges[k])
						found = true
					}
				}
				if !found || env[x] == nil {
					return 0, false
				}
			case *ssa.BinOp:
				l, r := val(x.X), val(x.Y)
				if l == nil || r == nil {
					return 0, false
				}
				switch x.Op {
				case token.EQL, token.NEQ, token.LSS, token.LEQ, token.GTR, token.GEQ:
					env[x] = constant.MakeBool(constant.Compare(l, x.Op, r))
				case token.ADD, token.SUB, token.MUL, token.AND, token.OR, token.XOR:
					env[x] = constant.BinaryOp(l, x.Op, r)
				default:
					return 0, false
				}
			case *ssa.UnOp:
				v := val(x.X)
				if v == nil {
					return 0, false
				}
				switch x.Op {
				case token.NOT:
					env[x] = constant.MakeBool(!constant.BoolVal(v))
				case token.SUB:
					env[x] = constant.UnaryOp(token.SUB, v, 0)
				default:
					return 0, false
				}
			case *ssa.Convert:
				if v := val(x.X); v != nil {
					env[x] = v
				} else {
					return 0, false
				}
			case *ssa.ChangeType:
				if v := val(x.X); v != nil {
					env[x] = v
				} else {
					return 0, false
				}
			case *ssa.Call:
				v := constant.Value(nil)
				if len(x.Call.Args) == 1 {
					v = val(x.Call.Args[0])
				}
				iv, exact := int64(0), false
				if v != nil {
					iv, exact = constant.Int64Val(v)
				}
				if !exact || iv < 0 || iv > 127 {
					return 0, false
				}
				switch core.CalleeName(&x.Call) {
				case "unicode.ToLower":
					if iv >= 'A' && iv <= 'Z' {
						iv += 'a' - 'A'
					}
				case "unicode.ToUpper":
					if iv >= 'a' && iv <= 'z' {
						iv -= 'a' - 'A'
					}
				default:
					return 0, false
				}
				env[x] = constant.MakeInt64(iv)
			case *ssa.If:
				c := val(x.Cond)
				if c == nil || c.Kind() != constant.Bool {
					return 0, false
				}
				if constant.BoolVal(c) {
					next = b.Succs[0]
				} else {
					next = b.Succs[1]
				}
			case *ssa.Jump:
				next = b.Succs[0]
			case *ssa.Return:
				if len(x.Results) != 1 {
					return 0, false
				}
				v := val(x.Results[0])
				if v == nil {
					return 0, false
				}
				iv, exact := constant.Int64Val(v)
				return iv, exact
			case *ssa.DebugRef:
			default:
				return 0, false
			}
		}
		if next == nil {
			return 0, false
		}
		prev, b = b, next
	}
	return 0, false
}
