package rules

import (
	"fmt"
	"go/constant"
	"go/token"
	"go/types"
	"sort"
	"strings"

	"golang.org/x/tools/go/ssa"

	"shipverif/internal/core"
)

func init() { register("C16", checkC16) }

func strConst(v ssa.Value) (string, bool) {
	c := core.ConstOf(v)
	if c == nil || c.Kind() != constant.String {
		return "", false
	}
	return constant.StringVal(c), true
}

// fieldSource: the MdnsManager field a string value is computed from (through
// local copies, Sprintf, helper calls), "" if none / several.
func fieldSources(v ssa.Value, owner *types.Named, depth int, out map[string]bool) {
	if depth > 8 || v == nil {
		return
	}
	if f, b := core.LoadedField(v); f != nil && b != nil && core.NamedOf(b.Type()) == owner {
		out[f.Name()] = true
		return
	}
	switch x := core.Canon(v).(type) {
	case *ssa.Call:
		// an accessor of the owner: what it returns
		if t := x.Call.StaticCallee(); t != nil && t.Blocks != nil && t.Signature.Recv() != nil && core.NamedOf(t.Signature.Recv().Type()) == owner {
			n0 := len(out)
			core.EachInstr(t, func(in ssa.Instruction) {
				if ret, ok := in.(*ssa.Return); ok && len(ret.Results) == 1 && ret.Block() != t.Recover {
					fieldSources(core.ResultOf(ret, 0), owner, depth+1, out)
				}
			})
			if len(out) > n0 {
				return
			}
		}
		for _, a := range x.Call.Args {
			fieldSources(a, owner, depth+1, out)
		}
	case *ssa.Slice:
		fieldSources(x.X, owner, depth+1, out)
	case *ssa.Alloc:
		for _, ref := range *x.Referrers() {
			switch y := ref.(type) {
			case *ssa.Store:
				if y.Addr == ssa.Value(x) {
					fieldSources(y.Val, owner, depth+1, out)
				}
			case *ssa.IndexAddr:
				for _, r2 := range *y.Referrers() {
					if st, ok := r2.(*ssa.Store); ok && st.Addr == ssa.Value(y) {
						fieldSources(st.Val, owner, depth+1, out)
					}
				}
			}
		}
	case *ssa.MakeInterface:
		fieldSources(x.X, owner, depth+1, out)
	case *ssa.Phi:
		for _, e := range x.Edges {
			fieldSources(e, owner, depth+1, out)
		}
	case *ssa.BinOp:
		fieldSources(x.X, owner, depth+1, out)
		fieldSources(x.Y, owner, depth+1, out)
	case *ssa.Convert:
		fieldSources(x.X, owner, depth+1, out)
	case *ssa.ChangeType:
		fieldSources(x.X, owner, depth+1, out)
	case *ssa.Parameter:
		// value handed in by the (package-local) callers
		idx := -1
		for i, q := range x.Parent().Params {
			if q == x {
				idx = i
			}
		}
		for _, cs := range gCallSites[x.Parent()] {
			if c := core.Common(cs); c != nil && idx >= 0 && idx < len(c.Args) {
				fieldSources(c.Args[idx], owner, depth+1, out)
			}
		}
	}
}

func checkC16(p *core.Program, r *core.Report) {
	const R1 = "C16.R1 txt-table-agreement"
	const R2 = "C16.R2 split-at-first-equals"
	const R3 = "C16.R3 rune-safe-truncation"
	const R4 = "C16.R4 qr-sanitiser"
	r.Explanation = "C16 (announced TXT = what a ship-go browser reads back; QR text): the round trip over all configuration strings is an input property; decided is writer/reader agreement plus three encoding disciplines: (R1) the TXT keys written by the announce routine and the keys read by the resolver callback agree: every mandatory key of the reader is written unconditionally, each key's value comes from the manager field and lands in the MdnsEntry field SHIP 7.3.2 assigns to it, the txtvers constant written equals the one demanded, register is rendered from a bool and accepted as exactly true/false, categories are joined and split with the same separator and base; (R2) the TXT parser separates key and value at the first '=' only; (R3) the four descriptive fields are written only through the shortening helper with a bound <= 32 and that helper never slices at the raw byte bound but at a rune boundary it established (utf8.RuneStart loop / DecodeLastRune / ToValidUTF8 / range index); (R4) every non-constant string interpolated into the SHIP;...;ENDSHIP; text passes the ';'-removing sanitiser and keys are upper-cased. Not decided: full round-trip equality, provider behaviour."
	r.Rule(R1, "TXT key/value tables of AnnounceMdnsEntry (writer) and processMdnsEntry (reader) agree with each other and with the SHIP 7.3.2 field assignment")
	r.Rule(R2, "parseTxt uses strings.Cut / SplitN(..,2) / Index, not strings.Split on '='")
	r.Rule(R3, "descriptive fields stored only from shorten(x, <=32); shorten slices at an established rune boundary")
	r.Rule(R4, "taint: manager fields -> (';' remover cuts) -> arguments of the QR Sprintf")

	mgr := p.Named("mdns", "MdnsManager")
	ann := p.Method("mdns", "MdnsManager", "AnnounceMdnsEntry")
	proc := resolverCallback(p)
	entryT := p.Named("api", "MdnsEntry")
	if mgr == nil || ann == nil || proc == nil || entryT == nil {
		r.Unresolved(R1, "mdns.MdnsManager / AnnounceMdnsEntry / processMdnsEntry / api.MdnsEntry")
		return
	}
	// ---- writer table
	type wkey struct {
		src           map[string]bool
		unconditional bool
		constVal      string
		pos           token.Pos
		// for an item written from a row of a local table (key/value struct literal ranged over):
		// the table and the values of this row's fields
		table *ssa.Alloc
		row   map[int]ssa.Value
	}
	writer := map[string]*wkey{}
	var annCall ssa.Instruction
	mAnn := p.IfaceMethod("api", "MdnsProviderInterface", "Announce")
	core.EachInstr(ann, func(in ssa.Instruction) {
		if core.IsInvokeOf(in, mAnn) {
			annCall = in
		}
	})
	if annCall == nil {
		r.Unresolved(R1, "provider Announce call in AnnounceMdnsEntry")
		return
	}
	ensureCallSites(p)
	// the TXT list may be assembled in package-local helpers called on the way to the Announce call
	var scanWriter func(fn *ssa.Function, uncond bool, depth int)
	scanned := map[*ssa.Function]bool{}
	scanWriter = func(fn *ssa.Function, uncond bool, depth int) {
		if scanned[fn] || fn.Blocks == nil {
			return
		}
		scanned[fn] = true
		onEveryPath := func(b *ssa.BasicBlock) bool {
			if !uncond {
				return false
			}
			if fn == ann {
				return b.Dominates(annCall.Block())
			}
			for _, rb := range fn.Blocks {
				if len(rb.Instrs) > 0 {
					if _, isRet := rb.Instrs[len(rb.Instrs)-1].(*ssa.Return); isRet && !b.Dominates(rb) {
						return false
					}
				}
			}
			return true
		}
		core.EachInstr(fn, func(in ssa.Instruction) {
			switch x := in.(type) {
			case *ssa.BinOp:
				if x.Op != token.ADD {
					return
				}
				if kx, ok := x.X.(*ssa.BinOp); ok && kx.Op == token.ADD {
					// <row>.key + "=" + <row>.value for the rows of a local table
					if eq, ok := strConst(kx.Y); ok && eq == "=" {
						if tab, kf, ok := tableField(kx.X); ok {
							for _, row := range tableRows(tab) {
								key, ok := strConst(row[kf])
								if !ok || strings.Contains(key, "=") {
									continue
								}
								w := &wkey{src: map[string]bool{}, pos: x.Pos(), table: tab, row: row}
								val := x.Y
								if t2, vf, ok := tableField(x.Y); ok && t2 == tab && row[vf] != nil {
									val = row[vf]
								}
								if c, ok := strConst(val); ok {
									w.constVal = c
								} else {
									fieldSources(val, mgr, 0, w.src)
								}
								// written on every path when nothing but the loop over the table guards the site
								guarded := false
								for _, f := range dominatingFacts(x) {
									if !isRangeLoopCond(f.cond) {
										guarded = true
									}
								}
								if !guarded {
									if hdr := loopHeaderOf(x.Block()); hdr != nil {
										w.unconditional = onEveryPath(hdr)
									}
								}
								writer[key] = w
							}
							return
						}
					}
				}
				k, ok := strConst(x.X)
				if !ok || !strings.HasSuffix(k, "=") || strings.Count(k, "=") != 1 {
					return
				}
				key := strings.TrimSuffix(k, "=")
				w := &wkey{src: map[string]bool{}, pos: x.Pos(), unconditional: onEveryPath(x.Block())}
				if c, ok := strConst(x.Y); ok {
					w.constVal = c
				} else {
					fieldSources(x.Y, mgr, 0, w.src)
				}
				writer[key] = w
			case *ssa.Store:
				if c, ok := strConst(x.Val); ok && strings.Count(c, "=") == 1 && !strings.HasSuffix(c, "=") {
					kv := strings.SplitN(c, "=", 2)
					writer[kv[0]] = &wkey{src: map[string]bool{}, constVal: kv[1], pos: x.Pos(), unconditional: onEveryPath(x.Block())}
				}
			case *ssa.Call:
				if t := x.Call.StaticCallee(); t != nil && depth > 0 && p.PkgShort(t) == "mdns" && t.Blocks != nil {
					// only helpers that can contribute to the TXT list: they return strings / string slices
					res := t.Signature.Results()
					if res.Len() == 1 {
						rt := res.At(0).Type().Underlying()
						if sl, ok := rt.(*types.Slice); ok {
							rt = sl.Elem().Underlying()
						}
						if b, ok := rt.(*types.Basic); ok && b.Info()&types.IsString != 0 {
							scanWriter(t, onEveryPath(x.Block()), depth-1)
						}
					}
				}
			}
		})
	}
	scanWriter(ann, true, 2)
	// an optional TXT item is written whenever its own value is non-empty: the conditions guarding its write
	// mention no other manager field
	for key, w := range writer {
		if w.unconditional || len(w.src) == 0 {
			continue
		}
		var site ssa.Instruction
		for fn := range scanned {
			core.EachInstr(fn, func(in ssa.Instruction) {
				if bo, ok := in.(*ssa.BinOp); ok && bo.Pos() == w.pos {
					site = in
				}
			})
		}
		if site == nil {
			continue
		}
		foreign := map[string]bool{}
		for _, f := range dominatingFacts(site) {
			srcs := map[string]bool{}
			var walk func(v ssa.Value, d int)
			walk = func(v ssa.Value, d int) {
				if v == nil || d > 6 {
					return
				}
				if w.table != nil {
					if isRangeLoopCond(v) {
						return
					}
					if t2, f2, ok := tableField(v); ok && t2 == w.table && w.row[f2] != nil {
						v = w.row[f2]
					}
				}
				switch x := v.(type) {
				case *ssa.BinOp:
					walk(x.X, d+1)
					walk(x.Y, d+1)
				case *ssa.UnOp:
					if x.Op == token.NOT {
						walk(x.X, d+1)
						return
					}
					fieldSources(v, mgr, 0, srcs)
				case *ssa.Call:
					if isBuiltin(x, "len") {
						walk(x.Call.Args[0], d+1)
						return
					}
					fieldSources(v, mgr, 0, srcs)
				default:
					fieldSources(v, mgr, 0, srcs)
				}
			}
			walk(f.cond, 0)
			for s := range srcs {
				if w.src[s] {
					continue
				}
				// only fields that are themselves announced values count (not e.g. the provider handle)
				for k2, w2 := range writer {
					if k2 != key && w2.src[s] {
						foreign[s] = true
					}
				}
			}
		}
		k := "optional key " + key + " depends on its own value only"
		if len(foreign) == 0 {
			r.OK(R1, k, p.Pos(w.pos), "written whenever its value is non-empty")
		} else {
			r.Fail(R1, k, p.Pos(w.pos), fmt.Sprintf("TXT key '%s' is only announced when another configuration field (%v) is set as well: a service that has the value but not that field announces nothing for it, and the browser reads back an empty value", key, keysOf(foreign)))
		}
	}
	// constants folded by the compiler: "path=" + shipWebsocketPath is one constant "path=/ship/"
	// ---- reader table
	var elements ssa.Value
	for _, pa := range proc.Params {
		if m, ok := pa.Type().Underlying().(*types.Map); ok {
			if b, ok := m.Key().Underlying().(*types.Basic); ok && b.Info()&types.IsString != 0 {
				elements = pa
			}
		}
	}
	if elements == nil {
		r.Unresolved(R1, "TXT elements parameter of processMdnsEntry")
		return
	}
	mandatory := map[string]bool{}
	lookups := map[string][]*ssa.Lookup{}
	// the reader's checks may sit in a validation helper of the package: its parameters are bound to the call
	mdnsLocalFn := func(f *ssa.Function) bool { return p.PkgShort(f) == "mdns" && f.Blocks != nil }
	for _, cs := range core.ExpandSites(proc, mdnsLocalFn, 1, func(in ssa.Instruction) bool {
		switch in.(type) {
		case *ssa.Store, *ssa.Lookup:
			return true
		}
		return false
	}) {
		undo := cs.Bind()
		switch x := cs.In.(type) {
		case *ssa.Store:
			// mandatory list: constants stored into a local string array that is ranged over
			if ia, ok := x.Addr.(*ssa.IndexAddr); ok {
				if al, ok := ia.X.(*ssa.Alloc); ok {
					if at, ok := al.Type().(*types.Pointer).Elem().Underlying().(*types.Array); ok {
						if b, ok := at.Elem().Underlying().(*types.Basic); ok && b.Info()&types.IsString != 0 {
							if c, ok := strConst(x.Val); ok {
								mandatory[c] = true
							}
						}
					}
				}
			}
		case *ssa.Lookup:
			if core.Canon(x.X) == elements {
				if c, ok := strConst(x.Index); ok {
					lookups[c] = append(lookups[c], x)
				}
			}
		}
		undo()
	}
	// ... or the mandatory list is a package-level []string that the callback ranges over
	for _, cs := range core.ExpandSites(proc, mdnsLocalFn, 1, func(in ssa.Instruction) bool {
		u, ok := in.(*ssa.UnOp)
		if !ok || u.Op != token.MUL {
			return false
		}
		_, isG := u.X.(*ssa.Global)
		return isG
	}) {
		g := cs.In.(*ssa.UnOp).X.(*ssa.Global)
		for _, k := range globalStringList(g) {
			mandatory[k] = true
		}
	}
	// instructions of the resolver callback and of the package-local helpers it calls, each visited with the
	// helper's parameters bound to the call (so that values keep their identity across an extracted helper)
	eachBound := func(f func(in ssa.Instruction)) {
		for _, cs := range core.ExpandSites(proc, mdnsLocalFn, 1, func(ssa.Instruction) bool { return true }) {
			undo := cs.Bind()
			f(cs.In)
			undo()
		}
	}
	// destination fields
	dst := map[string]map[string]bool{} // key -> entry fields
	eachBound(func(in ssa.Instruction) {
		f, b, v := core.StoredField(in)
		if f == nil || core.NamedOf(b.Type()) != entryT {
			return
		}
		if _, fresh := b.(*ssa.Alloc); !fresh {
			return // only the construction of a new entry defines the key -> field assignment
		}
		for k, ls := range lookups {
			for _, l := range ls {
				if derivesFrom(v, l, 25) {
					if dst[k] == nil {
						dst[k] = map[string]bool{}
					}
					dst[k][f.Name()] = true
				}
			}
		}
	})
	// the textual fields are stored exactly as they were read: no normalisation / trimming / case folding between
	// the TXT lookup and the entry field (the announcement carries the configured value verbatim)
	{
		var pure func(v ssa.Value, key string, d int) bool
		pure = func(v ssa.Value, key string, d int) bool {
			if d > 8 || v == nil {
				return false
			}
			if c, ok := strConst(v); ok && c == "" {
				return true
			}
			if pa, isParam := v.(*ssa.Parameter); isParam {
				if b := core.Canon(pa); b != ssa.Value(pa) {
					return pure(b, key, d+1)
				}
				return false
			}
			switch x := v.(type) {
			case *ssa.Lookup:
				for _, l := range lookups[key] {
					if x == l {
						return true
					}
				}
				return false
			case *ssa.Extract:
				if x.Index == 0 {
					return pure(x.Tuple, key, d+1)
				}
				return false
			case *ssa.Phi:
				for _, e := range x.Edges {
					if !pure(e, key, d+1) {
						return false
					}
				}
				return true
			case *ssa.UnOp:
				// a local spilled to memory
				if al, ok := x.X.(*ssa.Alloc); ok {
					okAll, any := true, false
					for _, ref := range *al.Referrers() {
						if st, ok := ref.(*ssa.Store); ok && st.Addr == ssa.Value(al) {
							any = true
							if !pure(st.Val, key, d+1) {
								okAll = false
							}
						}
					}
					return okAll && any
				}
			}
			return false
		}
		fieldOfKey := map[string]string{"ski": "Ski", "id": "Identifier", "brand": "Brand", "model": "Model", "type": "Type", "serial": "Serial"}
		eachBound(func(in ssa.Instruction) {
			f, b, v := core.StoredField(in)
			if f == nil || core.NamedOf(b.Type()) != entryT {
				return
			}
			if _, fresh := b.(*ssa.Alloc); !fresh {
				return
			}
			for k, fld := range fieldOfKey {
				if f.Name() != fld || len(lookups[k]) == 0 {
					continue
				}
				key := "entry field " + fld + " carries TXT value '" + k + "' verbatim"
				if pure(v, k, 0) {
					r.OK(R1, key, p.Pos(in.Pos()), "stored as read")
				} else {
					r.Fail(R1, key, p.Pos(in.Pos()), "the value read from the TXT record is transformed (normalised, trimmed, case-folded, ...) before it is stored in the entry: the browser reports something other than what was announced (e.g. an upper-case SKI comes back lower-cased)")
				}
			}
		})
	}
	// expected assignment (SHIP 7.3.2 + Requirements for Installation Process)
	expect := map[string][2]string{
		"ski": {"ski", "Ski"}, "id": {"identifier", "Identifier"}, "path": {"", "Path"}, "brand": {"deviceBrand", "Brand"},
		"model": {"deviceModel", "Model"}, "type": {"deviceType", "Type"}, "serial": {"deviceSerial", "Serial"},
		"cat": {"deviceCategories", "Categories"}, "register": {"autoaccept", "Register"},
	}
	var wk []string
	for k := range writer {
		wk = append(wk, k)
	}
	sort.Strings(wk)
	r.Counts["txt_keys_written"] = len(writer)
	r.Counts["txt_keys_mandatory"] = len(mandatory)
	for k := range mandatory {
		key := "mandatory key " + k + " written unconditionally"
		if w, ok := writer[k]; ok && w.unconditional {
			r.OK(R1, key, p.Pos(w.pos), "written on every announce")
		} else {
			r.Fail(R1, key, p.Pos(proc.Pos()), "the browser demands TXT key '"+k+"' but the announce routine does not write it on every path: ship-go services ignore each other")
		}
	}
	for _, m := range []string{"txtvers", "id", "path", "ski", "register"} {
		key := "reader demands " + m
		if mandatory[m] {
			r.OK(R1, key, p.Pos(proc.Pos()), "in the mandatory list")
		} else {
			r.Fail(R1, key, p.Pos(proc.Pos()), "the mandatory-key check no longer covers '"+m+"' (SHIP 7.3.2)")
		}
	}
	for _, k := range wk {
		w := writer[k]
		if k == "txtvers" {
			demanded := ""
			for _, l := range lookups["txtvers"] {
				for _, ref := range *l.Referrers() {
					if bo, ok := ref.(*ssa.BinOp); ok && (bo.Op == token.NEQ || bo.Op == token.EQL) {
						if c, ok := strConst(bo.Y); ok {
							demanded = c
						}
					}
				}
			}
			key := "txtvers written == demanded"
			if w.constVal != "" && w.constVal == demanded {
				r.OK(R1, key, p.Pos(w.pos), "both "+demanded)
			} else {
				r.Fail(R1, key, p.Pos(w.pos), fmt.Sprintf("txtvers written %q but the reader demands %q", w.constVal, demanded))
			}
			continue
		}
		exp, known := expect[k]
		key := "key " + k
		if !known {
			r.Fail(R1, key, p.Pos(w.pos), "unknown TXT key written: no ship-go reader stores it")
			continue
		}
		var srcs []string
		for s := range w.src {
			srcs = append(srcs, s)
		}
		sort.Strings(srcs)
		okSrc := exp[0] == "" && w.constVal != "" || len(srcs) == 1 && srcs[0] == exp[0]
		var dsts []string
		for d := range dst[k] {
			dsts = append(dsts, d)
		}
		sort.Strings(dsts)
		okDst := len(dsts) == 1 && dsts[0] == exp[1]
		switch {
		case okSrc && okDst:
			r.OK(R1, key, p.Pos(w.pos), fmt.Sprintf("written from %v, read into MdnsEntry.%s", srcs, exp[1]))
		case !okSrc:
			r.Fail(R1, key, p.Pos(w.pos), fmt.Sprintf("TXT key '%s' is written from %v (expected manager field %s)", k, srcs, exp[0]))
		default:
			r.Fail(R1, key, p.Pos(w.pos), fmt.Sprintf("TXT key '%s' is read into MdnsEntry fields %v (expected %s): the browser reports something else than was announced", k, dsts, exp[1]))
		}
	}
	for k := range expect {
		if _, ok := writer[k]; !ok {
			r.Fail(R1, "key "+k, p.Pos(ann.Pos()), "TXT key '"+k+"' is no longer announced")
		}
	}
	// register encoding
	regVals := map[string]bool{}
	for _, l := range lookups["register"] {
		for _, ref := range *l.Referrers() {
			if bo, ok := ref.(*ssa.BinOp); ok && (bo.Op == token.NEQ || bo.Op == token.EQL) {
				if c, ok := strConst(bo.Y); ok {
					regVals[c] = true
				}
			}
		}
	}
	if len(regVals) == 2 && regVals["true"] && regVals["false"] {
		r.OK(R1, "register accepts exactly true/false", p.Pos(proc.Pos()), "matches the %v / FormatBool rendering of a bool")
	} else {
		r.Fail(R1, "register accepts exactly true/false", p.Pos(proc.Pos()), fmt.Sprintf("the reader compares register against %v", keysOf(regVals)))
	}
	regFromBool := false
	eachInstrWithCallees(p, ann, "mdns", 2, func(in ssa.Instruction) {
		c := core.Common(in)
		if c == nil {
			return
		}
		n := core.CalleeName(c)
		if n == "strconv.FormatBool" {
			regFromBool = true
		}
		if n == "fmt.Sprintf" {
			if f, ok := strConst(c.Args[0]); ok && (f == "%v" || f == "%t") {
				regFromBool = true
			}
		}
	})
	if regFromBool {
		r.OK(R1, "register rendered from bool", p.Pos(ann.Pos()), "fmt %v/%t or strconv.FormatBool")
	} else {
		r.Fail(R1, "register rendered from bool", p.Pos(ann.Pos()), "register is not rendered with %v/%t/FormatBool of the auto-accept flag")
	}
	// register value true maps to true
	eachBound(func(in ssa.Instruction) {
		f, b, v := core.StoredField(in)
		if f == nil || f.Name() != "Register" || core.NamedOf(b.Type()) != entryT {
			return
		}
		key := "Register = (register == \"true\")"
		if bo, ok := v.(*ssa.BinOp); ok && bo.Op == token.EQL {
			if c, ok := strConst(bo.Y); ok && c == "true" {
				r.OK(R1, key, p.Pos(in.Pos()), "holds")
				return
			}
		}
		r.Fail(R1, key, p.Pos(in.Pos()), "the auto-accept flag is not derived as register == \"true\"")
	})
	// categories separator/base
	var catFn *ssa.Function
	for _, fn := range p.FuncsOf("mdns") {
		if fn.Signature.Results().Len() == 1 && fn.Signature.Params().Len() == 1 {
			if st, ok := fn.Signature.Params().At(0).Type().Underlying().(*types.Slice); ok && core.TypeIs(st.Elem(), apiPath, "DeviceCategoryType") {
				if b, ok := fn.Signature.Results().At(0).Type().Underlying().(*types.Basic); ok && b.Info()&types.IsString != 0 {
					catFn = fn
				}
			}
		}
	}
	wsep, wfmt := "", ""
	if catFn != nil {
		core.EachInstr(catFn, func(in ssa.Instruction) {
			if bo, ok := in.(*ssa.BinOp); ok && bo.Op == token.ADD {
				if c, ok := strConst(bo.Y); ok && len(c) == 1 {
					wsep = c
				}
			}
			if c := core.Common(in); c != nil && core.CalleeName(c) == "fmt.Sprintf" {
				wfmt, _ = strConst(c.Args[0])
			}
			if c := core.Common(in); c != nil && (core.CalleeName(c) == "strconv.Itoa" || core.CalleeName(c) == "strconv.FormatUint" || core.CalleeName(c) == "strconv.FormatInt") {
				wfmt = "%d"
			}
			if c := core.Common(in); c != nil && core.CalleeName(c) == "strings.Join" {
				wsep, _ = strConst(c.Args[1])
			}
		})
	}
	rsep, rbase := "", int64(0)
	eachInstrWithCallees(p, proc, "mdns", 2, func(in ssa.Instruction) {
		c := core.Common(in)
		if c == nil {
			return
		}
		switch core.CalleeName(c) {
		case "strings.Split":
			rsep, _ = strConst(c.Args[1])
		case "strconv.ParseUint", "strconv.ParseInt":
			rbase, _ = intConst(c.Args[1])
		case "strconv.Atoi":
			rbase = 10
		}
	})
	if wsep != "" && wsep == rsep && wfmt == "%d" && rbase == 10 {
		r.OK(R1, "categories encoding", p.Pos(proc.Pos()), "decimal numbers joined/split by "+wsep)
	} else {
		r.Fail(R1, "categories encoding", p.Pos(proc.Pos()), fmt.Sprintf("categories are written with separator %q format %q but read with separator %q base %d", wsep, wfmt, rsep, rbase))
	}
	// every category that parses is kept (the list is a list, not a set) ...
	ncat := 0
	eachInstrWithCallees(p, proc, "mdns", 2, func(in ssa.Instruction) {
		c, ok := in.(*ssa.Call)
		if !ok || !isBuiltin(in, "append") || !core.InLoop(in.Block()) {
			return
		}
		st, ok := c.Type().Underlying().(*types.Slice)
		if !ok || !core.TypeIs(st.Elem(), apiPath, "DeviceCategoryType") {
			return
		}
		ncat++
		key := "reader keeps every parsed category"
		var foreign []string
		for _, f := range loopGuards(in) {
			if isRangeLoopCond(f.cond) || isParseErrTest(f.cond) {
				continue
			}
			foreign = append(foreign, f.cond.String())
		}
		if len(foreign) == 0 {
			r.OK(R1, key, p.Pos(in.Pos()), "inside the loop only the parse error guards the append")
		} else {
			r.Fail(R1, key, p.Pos(in.Pos()), "a category that parsed is appended only under a further condition (e.g. 'not listed yet'): the announcer writes every configured category, repeats included, so the browser reads back a different list")
		}
	})
	if ncat == 0 {
		r.Fail(R1, "reader keeps every parsed category", p.Pos(proc.Pos()), "the loop that collects the categories is not recognisable")
	}
	// ... and the TXT list handed to the provider is the list as built: literal + appends, nothing filtered out
	{
		key := "announced TXT list is passed as built"
		var txtArg ssa.Value
		for _, a := range core.Common(annCall).Args {
			if st, ok := a.Type().Underlying().(*types.Slice); ok {
				if b, ok := st.Elem().Underlying().(*types.Basic); ok && b.Info()&types.IsString != 0 {
					txtArg = a
				}
			}
		}
		if txtArg == nil {
			r.Fail(R1, key, p.Pos(annCall.Pos()), "no []string argument of the provider's Announce call")
		} else if mod := listElementStore(scannedFns(scanned)); mod != nil {
			r.Fail(R1, key, p.Pos(mod.Pos()), "an item of the TXT list is overwritten after the list was built (e.g. every key=value item is cut to a byte bound): what is announced for a long identifier, SKI or category list is not the configured value - and no longer what the QR text says")
		} else if why := builtList(p, txtArg, 0); why != "" {
			r.Fail(R1, key, p.Pos(annCall.Pos()), "the TXT list passes through "+why+" before it is announced: items are removed depending on their text (e.g. every item ending in '='), so a value that happens to match - a base64 serial, a model cut at '=' - is not announced although it is configured")
		} else {
			r.OK(R1, key, p.Pos(annCall.Pos()), "slice literal and appends only")
		}
	}
	r.Floor(R1, 18)

	// ---- R5: a changed auto-accept flag is re-announced
	// R6: after an avahi reconnect the record on the network is built from the current request (shared with C19.R1)
	const R6 = "C16.R6 reannounce-carries-current-record"
	r.Rule(R6, "the re-announce after a daemon reconnect passes the TXT list loaded from the stored request under the provider mutex after the restart - a list captured before the wait would put a superseded auto-accept flag on the network (rule shared with C19.R1)")
	c19(p, r, R6)
	r.Floor(R6, 1)

	const R5 = "C16.R5 flag-change-reannounced"
	r.Rule(R5, "the announce routine reaches the provider's Announce on every path (unless no provider); SetAutoAccept re-announces whenever the service is announced")
	providerNil := func(b *ssa.BasicBlock, idx int) bool {
		i := core.BlockIf(b)
		if i == nil {
			return false
		}
		v, truth := core.Truth(i.Cond, idx)
		bo, ok := v.(*ssa.BinOp)
		if !ok || (bo.Op != token.EQL && bo.Op != token.NEQ) || !core.IsNilConst(bo.Y) {
			return false
		}
		f, _ := core.LoadedField(bo.X)
		return f != nil && f.Name() == "mdnsProvider" && truth == (bo.Op == token.EQL)
	}
	if bad := core.MustPass(ann, nil, func(in ssa.Instruction) bool { return core.IsInvokeOf(in, mAnn) }, providerNil); bad != nil {
		r.Fail(R5, "AnnounceMdnsEntry always announces", p.Pos(bad.Pos()), "the announce routine can return without handing the current TXT record to the provider: a changed auto-accept flag (or the re-announce after a lost connection) keeps the old record")
	} else {
		r.OK(R5, "AnnounceMdnsEntry always announces", p.Pos(ann.Pos()), "every path with a provider reaches Announce")
	}
	if saa := p.Method("mdns", "MdnsManager", "SetAutoAccept"); saa == nil {
		r.Unresolved(R5, "mdns.MdnsManager.SetAutoAccept")
	} else {
		notAnnounced := func(b *ssa.BasicBlock, idx int) bool {
			i := core.BlockIf(b)
			if i == nil {
				return false
			}
			v, truth := core.Truth(i.Cond, idx)
			c, ok := v.(*ssa.Call)
			if !ok || truth || c.Call.StaticCallee() == nil {
				return false
			}
			// a getter of a bool field of the manager (the "is announced" flag)
			callee := c.Call.StaticCallee()
			isGetter := false
			core.EachInstr(callee, func(y ssa.Instruction) {
				if ret, ok := y.(*ssa.Return); ok && len(ret.Results) == 1 && ret.Block() != callee.Recover {
					if f, b := core.LoadedField(core.ResultOf(ret, 0)); f != nil && b != nil && core.NamedOf(b.Type()) == mgr {
						isGetter = true
					}
				}
			})
			return isGetter
		}
		var st ssa.Instruction
		storesFlag := core.NewMust(p, 2, func(in ssa.Instruction) bool {
			f, _, _ := core.StoredField(in)
			return f != nil && f.Name() == "autoaccept"
		})
		core.EachInstr(saa, func(in ssa.Instruction) {
			switch in.(type) {
			case *ssa.Store, *ssa.Call:
				if storesFlag.Instr(in) {
					st = in
				}
			}
		})
		callsAnn := func(in ssa.Instruction) bool {
			c, ok := in.(*ssa.Call)
			return ok && c.Call.StaticCallee() == ann
		}
		// the re-announce may sit in a helper that always performs it (unless the service is not announced)
		mustAnn := core.NewMust(p, 2, callsAnn)
		mustAnn.Removed = notAnnounced
		if st == nil {
			r.Fail(R5, "SetAutoAccept stores the flag", p.Pos(saa.Pos()), "the flag is not stored")
		} else if bad := core.PathSearch(saa, st, core.IsReturn, mustAnn.Instr, notAnnounced); bad != nil {
			r.Fail(R5, "SetAutoAccept re-announces", p.Pos(bad.Pos()), "after storing a new auto-accept value an announced service is not re-announced on every path")
		} else {
			r.OK(R5, "SetAutoAccept re-announces", p.Pos(st.Pos()), "store, then announce unless not announced")
		}
	}

	// ---- R2
	n2 := 0
	for _, fn := range p.FuncsOf("mdns") {
		// TXT parser: takes []string, returns map[string]string
		if fn.Signature.Results().Len() != 1 || fn.Signature.Params().Len() != 1 {
			continue
		}
		if _, ok := fn.Signature.Results().At(0).Type().Underlying().(*types.Map); !ok {
			continue
		}
		n2++
		name := p.FnName(fn)
		good, bad := false, false
		var badPos token.Pos
		core.EachInstr(fn, func(in ssa.Instruction) {
			c := core.Common(in)
			if c == nil {
				return
			}
			switch core.CalleeName(c) {
			case "strings.Cut", "strings.Index", "strings.IndexByte", "strings.IndexRune":
				if s, ok := strConst(c.Args[len(c.Args)-1]); ok && s == "=" {
					good = true
				}
				if k, ok := intConst(c.Args[len(c.Args)-1]); ok && k == '=' {
					good = true
				}
			case "strings.SplitN":
				if k, ok := intConst(c.Args[2]); ok && k == 2 {
					good = true
				} else {
					bad, badPos = true, in.Pos()
				}
			case "strings.Split", "strings.Fields", "strings.FieldsFunc", "strings.LastIndex", "strings.LastIndexByte", "strings.SplitAfter":
				bad, badPos = true, in.Pos()
			}
		})
		key := "TXT parser " + name
		if good && !bad {
			r.OK(R2, key, p.Pos(fn.Pos()), "key/value separated at the first '='")
		} else if bad {
			r.Fail(R2, key, p.Pos(badPos), "the TXT item is split at every '=' (or at the last one): a value containing '=' is dropped or truncated by the browser")
		} else {
			r.Fail(R2, key, p.Pos(fn.Pos()), "no recognised first-'=' separation (strings.Cut / SplitN(..,2) / Index)")
		}
	}
	if n2 == 0 {
		r.Unresolved(R2, "TXT parser function")
	}
	// R2b: the value is handed on byte for byte
	for _, fn := range p.FuncsOf("mdns") {
		if fn.Signature.Results().Len() != 1 || fn.Signature.Params().Len() != 1 {
			continue
		}
		if _, ok := fn.Signature.Results().At(0).Type().Underlying().(*types.Map); !ok {
			continue
		}
		var pure func(v ssa.Value, depth int) (bool, string)
		pure = func(v ssa.Value, depth int) (bool, string) {
			if depth == 0 {
				return false, "derivation too deep"
			}
			switch x := v.(type) {
			case *ssa.Extract:
				if c, ok := x.Tuple.(*ssa.Call); ok {
					switch core.CalleeName(&c.Call) {
					case "strings.Cut", "strings.CutPrefix", "strings.CutSuffix":
						return true, ""
					}
					return false, "result of " + core.CalleeName(&c.Call)
				}
				return true, "" // range / map element
			case *ssa.Slice:
				return pure(x.X, depth-1)
			case *ssa.UnOp:
				if ia, ok := x.X.(*ssa.IndexAddr); ok {
					if c, ok := ia.X.(*ssa.Call); ok {
						if n := core.CalleeName(&c.Call); n != "strings.SplitN" {
							return false, "result of " + n
						}
					}
					return true, ""
				}
				return true, ""
			case *ssa.Phi:
				for _, e := range x.Edges {
					if ok, why := pure(e, depth-1); !ok {
						return false, why
					}
				}
				return true, ""
			case *ssa.Call:
				return false, "result of " + core.CalleeName(&x.Call)
			case *ssa.BinOp:
				return false, "a concatenation"
			case *ssa.Const, *ssa.Parameter:
				return true, ""
			}
			return true, ""
		}
		core.EachInstr(fn, func(in ssa.Instruction) {
			mu, ok := in.(*ssa.MapUpdate)
			if !ok {
				return
			}
			key := "TXT parser " + p.FnName(fn) + " stores the value unchanged"
			if ok, why := pure(mu.Value, 8); ok {
				r.OK(R2, key, p.Pos(in.Pos()), "the stored value is a piece of the TXT element (cut/slice only)")
			} else {
				r.Fail(R2, key, p.Pos(in.Pos()), "the value stored for a TXT key is "+why+", not the bytes after the first '=': an announced value (e.g. one shortened behind a blank) is read back altered")
			}
		})
	}
	r.Floor(R2, 2)

	// ---- R3
	ctor := p.Func("mdns", "NewMDNS")
	if ctor == nil {
		r.Unresolved(R3, "mdns.NewMDNS")
	} else {
		var helper *ssa.Function
		desc := map[string]bool{"deviceBrand": true, "deviceModel": true, "deviceType": true, "deviceSerial": true}
		for _, pk := range []string{"mdns"} {
			for _, s := range core.Sites(p.FuncsOf(pk), func(in ssa.Instruction) bool {
				f, b, _ := core.StoredField(in)
				return f != nil && desc[f.Name()] && core.NamedOf(b.Type()) == mgr
			}) {
				f, _, v := core.StoredField(s.In)
				key := "field " + f.Name() + " written in " + p.FnName(s.Fn)
				call, ok := core.Canon(v).(*ssa.Call)
				if !ok || call.Call.StaticCallee() == nil || p.PkgShort(call.Call.StaticCallee()) != "mdns" || len(call.Call.Args) != 2 {
					r.Fail(R3, key, p.Pos(s.In.Pos()), "the descriptive field is stored without going through the shortening helper: more than 32 bytes can be announced")
					continue
				}
				k, isC := intConst(call.Call.Args[1])
				if !isC || k > 32 || k < 1 {
					r.Fail(R3, key, p.Pos(s.In.Pos()), "the descriptive field is shortened to a bound other than (at most) 32 bytes")
					continue
				}
				helper = call.Call.StaticCallee()
				r.OK(R3, key, p.Pos(s.In.Pos()), fmt.Sprintf("through %s(x, %d)", helper.Name(), k))
			}
		}
		if helper == nil {
			r.Fail(R3, "shortening helper", "", "not found")
		} else {
			sparam := helper.Params[0]
			lim := helper.Params[1]
			idiom := false
			core.EachInstr(helper, func(in ssa.Instruction) {
				if c := core.Common(in); c != nil {
					switch core.CalleeName(c) {
					case "unicode/utf8.RuneStart", "unicode/utf8.DecodeLastRuneInString", "unicode/utf8.DecodeRuneInString", "strings.ToValidUTF8", "unicode/utf8.ValidString":
						idiom = true
					}
				}
				if _, ok := in.(*ssa.Range); ok {
					idiom = true
				}
			})
			nsl := 0
			core.EachInstr(helper, func(in ssa.Instruction) {
				sl, ok := in.(*ssa.Slice)
				if !ok || core.Canon(sl.X) != ssa.Value(sparam) {
					return
				}
				nsl++
				key := "cut in " + p.FnName(helper)
				raw := sl.High != nil && (core.Canon(sl.High) == ssa.Value(lim) || core.ConstOf(sl.High) != nil)
				// the cut position may be computed by a package-local helper: judge its result at every return
				if hc, ok := sl.High.(*ssa.Call); ok && !raw {
					if t := hc.Call.StaticCallee(); t != nil && t.Blocks != nil && p.PkgShort(t) == "mdns" && t.Signature.Results().Len() == 1 {
						var sp ssa.Value
						for i, a := range hc.Call.Args {
							if core.Canon(a) == ssa.Value(sparam) && i < len(t.Params) {
								sp = t.Params[i]
							}
						}
						why := "the helper that computes the cut position does not look at the string"
						if sp != nil {
							why = ""
							usesRS := false
							core.EachInstr(t, func(y ssa.Instruction) {
								if c := core.Common(y); c != nil && core.CalleeName(c) == "unicode/utf8.RuneStart" {
									usesRS = true
								}
							})
							if !usesRS {
								why = "the helper that computes the cut position never tests for a rune start"
							}
							for _, b := range t.Blocks {
								if ret, ok := b.Instrs[len(b.Instrs)-1].(*ssa.Return); ok && why == "" {
									why = runeStartEstablishedAt(t, ret.Results[0], b, sp)
								}
							}
						}
						if why != "" {
							r.Fail(R3, key, p.Pos(in.Pos()), why)
						} else {
							r.OK(R3, key, p.Pos(in.Pos()), "cut at a bound a helper established on a rune boundary")
						}
						return
					}
				}
				if !raw && idiom && sl.High != nil {
					if why := runeStartEstablished(helper, sl, sparam); why != "" {
						r.Fail(R3, key, p.Pos(in.Pos()), why)
						return
					}
				}
				if raw || !idiom {
					r.Fail(R3, key, p.Pos(in.Pos()), "the string is cut at the raw byte bound: a multi-byte character straddling the bound is split and invalid UTF-8 is announced")
				} else {
					r.OK(R3, key, p.Pos(in.Pos()), "cut at a bound established on a rune boundary")
				}
			})
			if nsl == 0 {
				if idiom {
					r.OK(R3, "cut in "+p.FnName(helper), p.Pos(helper.Pos()), "no byte slicing; rune-wise construction")
				} else {
					r.Fail(R3, "cut in "+p.FnName(helper), p.Pos(helper.Pos()), "the helper does not shorten")
				}
			}
			// the bound check exists: len(s) <= max returns s
			guard := false
			core.EachInstr(helper, func(in ssa.Instruction) {
				if bo, ok := in.(*ssa.BinOp); ok {
					if lx := lenCallOf(bo.X); lx != nil && core.Canon(lx) == ssa.Value(sparam) && core.Canon(bo.Y) == ssa.Value(lim) && (bo.Op == token.LEQ || bo.Op == token.GTR) {
						guard = true
					}
				}
			})
			if guard {
				r.OK(R3, "bound test in "+p.FnName(helper), p.Pos(helper.Pos()), "len(s) compared with the bound")
			} else {
				r.Fail(R3, "bound test in "+p.FnName(helper), p.Pos(helper.Pos()), "the helper does not compare len(s) with the bound (<=)")
			}
		}
		r.Floor(R3, 5)
	}

	// ---- R4
	qr := p.Method("mdns", "MdnsManager", "QRCodeText")
	if qr == nil {
		r.Unresolved(R4, "mdns.MdnsManager.QRCodeText")
		return
	}
	isSemicolonRemover := func(c *ssa.CallCommon) bool {
		if core.CalleeName(c) == "strings.ReplaceAll" && len(c.Args) == 3 {
			a, ok1 := strConst(c.Args[1])
			b, ok2 := strConst(c.Args[2])
			return ok1 && ok2 && a == ";" && b == ""
		}
		return false
	}
	// the text is whatever QRCodeText returns (Sprintf or concatenation); its constant pieces form the frame
	var pieces []string
	var collect func(v ssa.Value, d int)
	collect = func(v ssa.Value, d int) {
		if d > 10 || v == nil {
			return
		}
		if c, ok := strConst(v); ok {
			pieces = append(pieces, c)
			return
		}
		switch x := v.(type) {
		case *ssa.BinOp:
			collect(x.X, d+1)
			collect(x.Y, d+1)
			return
		case *ssa.Call:
			if core.CalleeName(&x.Call) == "fmt.Sprintf" {
				if f, ok := strConst(x.Call.Args[0]); ok {
					for _, verb := range []string{"%s", "%v", "%d"} {
						f = strings.ReplaceAll(f, verb, "\x00")
					}
					pieces = append(pieces, f)
					return
				}
			}
			if core.CalleeName(&x.Call) == "strings.Join" {
				collect(x.Call.Args[1], d+1)
				return
			}
		case *ssa.Phi:
			// alternatives of one position (e.g. the optional fields built up step by step): one placeholder
			pieces = append(pieces, "\x00")
			return
		}
		pieces = append(pieces, "\x00") // a computed value
	}
	var rets []*ssa.Return
	core.EachInstr(qr, func(in ssa.Instruction) {
		if ret, ok := in.(*ssa.Return); ok && ret.Block() != qr.Recover && len(ret.Results) == 1 {
			rets = append(rets, ret)
			collect(core.ResultOf(ret, 0), 0)
		}
	})
	// loops that build the text (e.g. a table of optional fields) visit every element: no break / return inside
	{
		nl := 0
		bad := false
		eachFn := map[*ssa.Function]bool{}
		eachInstrWithCallees(p, qr, "mdns", 2, func(in ssa.Instruction) { eachFn[in.Parent()] = true })
		for fn := range eachFn {
			for _, b := range fn.Blocks {
				iff := core.BlockIf(b)
				if iff == nil {
					continue
				}
				bo, ok := iff.Cond.(*ssa.BinOp)
				if !ok || bo.Op != token.LSS {
					continue
				}
				if lc, ok := bo.Y.(*ssa.Call); !ok || !isBuiltin(lc, "len") {
					if _, isConst := bo.Y.(*ssa.Const); !isConst {
						continue
					}
				}
				if !core.InLoop(b) {
					continue
				}
				nl++
				if from, _ := core.LoopEarlyExit(b); from != nil {
					bad = true
					last := from.Instrs[len(from.Instrs)-1]
					r.Fail(R4, "QR field loop in "+p.FnName(fn)+" visits every field", p.Pos(last.Pos()), "a loop that assembles the QR text can be left early (break/return): the fields after that point - e.g. every optional field behind an empty one - are missing from the text although they are configured (and announced via mDNS)")
				}
			}
		}
		if !bad {
			r.OK(R4, "QR field loops visit every field", p.Pos(qr.Pos()), fmt.Sprintf("%d loop(s), none with an early exit", nl))
		}
	}
	frame := strings.Join(pieces, "")
	for strings.Contains(frame, "\x00\x00") {
		frame = strings.ReplaceAll(frame, "\x00\x00", "\x00")
	}
	okFrame := len(rets) > 0 && strings.HasPrefix(frame, "SHIP;SKI:\x00;ID:\x00;") && strings.HasSuffix(frame, "ENDSHIP;")
	frame = strings.ReplaceAll(frame, "\x00", "<v>")
	if okFrame {
		r.OK(R4, "QR frame literal", p.Pos(qr.Pos()), "SHIP;SKI:..;ID:..;..ENDSHIP; ("+frame+")")
	} else {
		r.Fail(R4, "QR frame literal", p.Pos(qr.Pos()), "the QR text is not framed as SHIP;SKI:<ski>;ID:<id>;<optionals>ENDSHIP; (constant pieces: "+frame+")")
	}
	for _, pc := range pieces {
		if strings.ContainsAny(pc, "%") && !(strings.Contains(pc, "%s") && strings.Count(pc, "%") == strings.Count(pc, "%s")) {
			r.Fail(R4, "QR format verbs", p.Pos(qr.Pos()), "the QR text is built with a format string other than plain %s verbs: "+pc)
		}
	}
	// a value must never be part of a format string: Sprintf formats in the QR path are constants
	eachInstrWithCallees(p, qr, "mdns", 2, func(in ssa.Instruction) {
		if c := core.Common(in); c != nil && core.CalleeName(c) == "fmt.Sprintf" {
			if _, isConst := strConst(c.Args[0]); !isConst {
				r.Fail(R4, "QR format string constant in "+p.FnName(in.Parent()), p.Pos(in.Pos()), "a configuration value is used as (part of) a fmt format string: a '%' in it corrupts the QR text")
			}
		}
	})
	t := &core.Taint{
		P:         p,
		InScope:   func(fn *ssa.Function) bool { return p.PkgShort(fn) == "mdns" },
		Sanitizer: isSemicolonRemover,
		Sinks: func(in ssa.Instruction) []ssa.Value {
			if ret, ok := in.(*ssa.Return); ok && in.Parent() == qr {
				return ret.Results
			}
			return nil
		},
	}
	nsrc := 0
	core.EachInstr(qr, func(in ssa.Instruction) {
		u, ok := in.(*ssa.UnOp)
		if !ok || u.Op != token.MUL {
			return
		}
		fa, ok := u.X.(*ssa.FieldAddr)
		if !ok || core.NamedOf(fa.X.Type()) != mgr {
			return
		}
		f := core.FieldVar(fa)
		if b, ok := f.Type().Underlying().(*types.Basic); !ok || b.Info()&types.IsString == 0 {
			return
		}
		nsrc++
		res := t.From(qr, u)
		key := "field " + f.Name() + " in QR text"
		if len(res.Hits) > 0 {
			r.Fail(R4, key, p.Pos(in.Pos()), "manager field "+f.Name()+" reaches the QR text without passing the ';' remover: a value containing ';' breaks the field structure of the text", res.Hits[0].Chain...)
		} else {
			r.OK(R4, key, p.Pos(in.Pos()), "sanitised before interpolation")
		}
	})
	r.Counts["qr_sources"] = nsrc
	// keys upper-cased
	upper := core.NewMay(p, false, func(in ssa.Instruction) bool {
		c := core.Common(in)
		return c != nil && core.CalleeName(c) == "strings.ToUpper"
	}).Fn(qr)
	if upper {
		r.OK(R4, "optional keys upper-cased", "", "strings.ToUpper on the key")
	} else {
		r.Fail(R4, "optional keys upper-cased", "", "optional QR keys are not upper-cased")
	}
	r.Floor(R4, 5)
}

// eachInstrWithCallees visits fn and, up to depth, the functions of package pkg it calls statically.
func eachInstrWithCallees(p *core.Program, fn *ssa.Function, pkg string, depth int, f func(ssa.Instruction)) {
	seen := map[*ssa.Function]bool{}
	var visit func(g *ssa.Function, d int)
	visit = func(g *ssa.Function, d int) {
		if g == nil || seen[g] || g.Blocks == nil {
			return
		}
		seen[g] = true
		core.EachInstr(g, func(in ssa.Instruction) {
			f(in)
			if d > 0 {
				if c := core.Common(in); c != nil {
					if t := c.StaticCallee(); t != nil && p.PkgShort(t) == pkg {
						visit(t, d-1)
					}
				}
			}
		})
	}
	visit(fn, depth)
}

// runeStartEstablished: when the helper establishes its cut position with utf8.RuneStart(s[cut]), every
// decisive branch edge leading into the slice must either have seen RuneStart(s[cut]) == true for the
// very value the slice uses, or cut <= 0. Returns "" when that holds (or the helper uses another idiom).
func runeStartEstablished(helper *ssa.Function, sl *ssa.Slice, sparam ssa.Value) string {
	return runeStartEstablishedAt(helper, sl.High, sl.Block(), sparam)
}

// runeStartEstablishedAt: the same test for the value high as it reaches block blk of fn (used for the slice
// itself and for the result of a package-local helper that computes the cut position).
func runeStartEstablishedAt(helper *ssa.Function, high ssa.Value, blk *ssa.BasicBlock, sparam ssa.Value) string {
	uses := false
	core.EachInstr(helper, func(in ssa.Instruction) {
		if c := core.Common(in); c != nil && core.CalleeName(c) == "unicode/utf8.RuneStart" {
			uses = true
		}
	})
	if !uses {
		return ""
	}
	isHigh := func(v ssa.Value) bool { return v == high || core.Canon(v) == core.Canon(high) }
	okEdge := func(b *ssa.BasicBlock, idx int) bool {
		i := core.BlockIf(b)
		if i == nil {
			return false
		}
		v, truth := core.Truth(i.Cond, idx)
		switch x := v.(type) {
		case *ssa.Call:
			if core.CalleeName(&x.Call) != "unicode/utf8.RuneStart" || !truth {
				return false
			}
			var idxV, strV ssa.Value
			switch a := x.Call.Args[0].(type) {
			case *ssa.Lookup:
				idxV, strV = a.Index, a.X
			case *ssa.Index:
				idxV, strV = a.Index, a.X
			case *ssa.UnOp:
				if ia, ok := a.X.(*ssa.IndexAddr); ok {
					idxV, strV = ia.Index, ia.X
				}
			}
			return idxV != nil && isHigh(idxV) && core.Canon(strV) == core.Canon(sparam)
		case *ssa.BinOp:
			k := func(v ssa.Value) (int64, bool) { return intConst(v) }
			if isHigh(x.X) {
				if c, ok := k(x.Y); ok {
					switch {
					case x.Op == token.GTR && c == 0 && !truth, x.Op == token.LEQ && c == 0 && truth,
						x.Op == token.EQL && c == 0 && truth, x.Op == token.NEQ && c == 0 && !truth,
						x.Op == token.GEQ && c == 1 && !truth, x.Op == token.LSS && c == 1 && truth:
						return true
					}
				}
			}
			if isHigh(x.Y) {
				if c, ok := k(x.X); ok {
					switch {
					case x.Op == token.LSS && c == 0 && !truth, x.Op == token.GEQ && c == 0 && truth,
						x.Op == token.EQL && c == 0 && truth, x.Op == token.NEQ && c == 0 && !truth:
						return true
					}
				}
			}
		}
		return false
	}
	// decisive edges: walk back from the slice's block over unconditional jumps
	seen := map[*ssa.BasicBlock]bool{}
	var bad string
	var back func(b *ssa.BasicBlock)
	back = func(b *ssa.BasicBlock) {
		if seen[b] || bad != "" {
			return
		}
		seen[b] = true
		if len(b.Preds) == 0 {
			bad = "the cut position reaches the slice without any rune-boundary test"
			return
		}
		for _, pr := range b.Preds {
			if core.BlockIf(pr) == nil {
				back(pr)
				continue
			}
			for idx, su := range pr.Succs {
				if su == b && !okEdge(pr, idx) {
					bad = "the loop that moves the cut back to a rune start can be left on a branch that is neither 'RuneStart(s[cut]) is true' nor 'cut <= 0' (a step limit or another condition): the slice then cuts inside a multi-byte character and invalid UTF-8 is announced"
				}
			}
		}
	}
	back(blk)
	return bad
}

// globalStringList: the constant elements a package-level []string / [N]string variable is initialised with.
func globalStringList(g *ssa.Global) []string {
	if g.Pkg == nil {
		return nil
	}
	initFn := g.Pkg.Func("init")
	if initFn == nil {
		return nil
	}
	var out []string
	collect := func(al *ssa.Alloc) {
		for _, ref := range *al.Referrers() {
			if ia, ok := ref.(*ssa.IndexAddr); ok {
				for _, r2 := range *ia.Referrers() {
					if st, ok := r2.(*ssa.Store); ok && st.Addr == ssa.Value(ia) {
						if c, ok := strConst(st.Val); ok {
							out = append(out, c)
						}
					}
				}
			}
		}
	}
	core.EachInstr(initFn, func(in ssa.Instruction) {
		switch x := in.(type) {
		case *ssa.Store:
			if x.Addr == ssa.Value(g) {
				if sl, ok := x.Val.(*ssa.Slice); ok {
					if al, ok := sl.X.(*ssa.Alloc); ok {
						collect(al)
					}
				}
			}
			// [N]string global: elements stored directly
			if ia, ok := x.Addr.(*ssa.IndexAddr); ok && ia.X == ssa.Value(g) {
				if c, ok := strConst(x.Val); ok {
					out = append(out, c)
				}
			}
		}
	})
	return out
}

// tableField recognises v as field f of the current row of a loop over a local table - a slice or array
// literal of structs that the function ranges over - and returns the table's backing array.
func tableField(v ssa.Value) (*ssa.Alloc, int, bool) {
	var rowVal ssa.Value
	field := -1
	switch x := v.(type) {
	case *ssa.Field:
		rowVal, field = x.X, x.Field
	case *ssa.UnOp:
		if x.Op != token.MUL {
			return nil, 0, false
		}
		fa, ok := x.X.(*ssa.FieldAddr)
		if !ok {
			return nil, 0, false
		}
		field = fa.Field
		switch a := fa.X.(type) {
		case *ssa.Alloc:
			// local copy of the range element: exactly one store, of the loaded element
			for _, ref := range *a.Referrers() {
				if st, ok := ref.(*ssa.Store); ok && st.Addr == a {
					if rowVal != nil {
						return nil, 0, false
					}
					rowVal = st.Val
				}
			}
		case *ssa.IndexAddr:
			return tableOfElemAddr(a, field)
		}
	}
	if rowVal == nil {
		return nil, 0, false
	}
	ld, ok := rowVal.(*ssa.UnOp)
	if !ok || ld.Op != token.MUL {
		return nil, 0, false
	}
	ia, ok := ld.X.(*ssa.IndexAddr)
	if !ok {
		return nil, 0, false
	}
	return tableOfElemAddr(ia, field)
}

func tableOfElemAddr(ia *ssa.IndexAddr, field int) (*ssa.Alloc, int, bool) {
	if _, isConst := ia.Index.(*ssa.Const); isConst {
		return nil, 0, false // a fixed row, not the loop's current one
	}
	x := ia.X
	if sl, ok := x.(*ssa.Slice); ok && sl.Low == nil && sl.High == nil {
		x = sl.X
	}
	al, ok := x.(*ssa.Alloc)
	if !ok {
		return nil, 0, false
	}
	at, ok := al.Type().(*types.Pointer).Elem().Underlying().(*types.Array)
	if !ok {
		return nil, 0, false
	}
	if _, ok := at.Elem().Underlying().(*types.Struct); !ok {
		return nil, 0, false
	}
	return al, field, true
}

// tableRows returns, per row of the table literal, the value stored into each field.
func tableRows(tab *ssa.Alloc) []map[int]ssa.Value {
	var rows []map[int]ssa.Value
	for _, ref := range *tab.Referrers() {
		ia, ok := ref.(*ssa.IndexAddr)
		if !ok {
			continue
		}
		if _, isConst := ia.Index.(*ssa.Const); !isConst {
			continue
		}
		row := map[int]ssa.Value{}
		fill := func(base ssa.Value) {
			for _, r2 := range *base.Referrers() {
				if fa, ok := r2.(*ssa.FieldAddr); ok {
					for _, r3 := range *fa.Referrers() {
						if st, ok := r3.(*ssa.Store); ok && st.Addr == fa {
							row[fa.Field] = st.Val
						}
					}
				}
			}
		}
		fill(ia) // &tab[i].f = v
		for _, r2 := range *ia.Referrers() {
			if st, ok := r2.(*ssa.Store); ok && st.Addr == ia {
				// tab[i] = *complit
				if ld, ok := st.Val.(*ssa.UnOp); ok && ld.Op == token.MUL {
					if c, ok := ld.X.(*ssa.Alloc); ok {
						fill(c)
					}
				}
			}
		}
		if len(row) > 0 {
			rows = append(rows, row)
		}
	}
	return rows
}

// isRangeLoopCond: the continuation test of a range loop (index < len).
func isRangeLoopCond(v ssa.Value) bool {
	bo, ok := v.(*ssa.BinOp)
	if !ok || bo.Op != token.LSS {
		return false
	}
	inc, ok := bo.X.(*ssa.BinOp)
	if !ok || inc.Op != token.ADD {
		return false
	}
	ph, ok := inc.X.(*ssa.Phi)
	return ok && ph.Comment == "rangeindex"
}

// loopHeaderOf returns the nearest dominator of b that is a range-loop header.
func loopHeaderOf(b *ssa.BasicBlock) *ssa.BasicBlock {
	for d := b; d != nil; d = d.Idom() {
		if d.Comment == "rangeindex.loop" {
			return d
		}
	}
	return nil
}

// loopGuards: the branch facts that guard in inside its innermost loop (the loop test included).
func loopGuards(in ssa.Instruction) []fact {
	b := in.Block()
	reach := core.ReachableFrom(b, nil)
	var hdr *ssa.BasicBlock
	for d := b; d != nil && hdr == nil; d = d.Idom() {
		for _, pr := range d.Preds {
			if d.Dominates(pr) && reach[pr] {
				hdr = d
				break
			}
		}
	}
	var out []fact
	for _, f := range dominatingFactsWithBlock(in) {
		if hdr == nil || (hdr.Dominates(f.at)) {
			out = append(out, f.fact)
		}
	}
	return out
}

type factAt struct {
	fact
	at *ssa.BasicBlock // the block whose branch establishes the fact
}

func dominatingFactsWithBlock(in ssa.Instruction) []factAt {
	var out []factAt
	for b := in.Block(); b != nil; b = b.Idom() {
		if len(b.Preds) != 1 {
			continue
		}
		d := b.Preds[0]
		iff := core.BlockIf(d)
		if iff == nil {
			continue
		}
		for idx, s := range d.Succs {
			if s == b && d.Succs[1-idx] != b {
				v, t := core.Truth(iff.Cond, idx)
				out = append(out, factAt{fact{v, t}, d})
			}
		}
	}
	return out
}

// isParseErrTest: err != nil / err == nil on the error result of a strconv parse call.
func isParseErrTest(v ssa.Value) bool {
	bo, ok := v.(*ssa.BinOp)
	if !ok || (bo.Op != token.EQL && bo.Op != token.NEQ) {
		return false
	}
	var other ssa.Value
	if core.IsNilConst(bo.Y) {
		other = bo.X
	} else if core.IsNilConst(bo.X) {
		other = bo.Y
	}
	e, ok := other.(*ssa.Extract)
	if !ok {
		return false
	}
	c, ok := e.Tuple.(*ssa.Call)
	return ok && strings.HasPrefix(core.CalleeName(&c.Call), "strconv.")
}

// builtList: "" when the string slice is a literal extended by appends (possibly in package-local helpers);
// otherwise names what else it passes through.
func builtList(p *core.Program, v ssa.Value, depth int) string {
	return builtListV(p, v, depth, map[ssa.Value]bool{})
}

func builtListV(p *core.Program, v ssa.Value, depth int, seen map[ssa.Value]bool) string {
	if seen[v] {
		return ""
	}
	seen[v] = true
	if depth > 12 {
		return "an unrecognised construction"
	}
	builtList := func(p *core.Program, v ssa.Value, depth int) string { return builtListV(p, v, depth, seen) }
	switch x := v.(type) {
	case *ssa.Const:
		return ""
	case *ssa.MakeSlice:
		return ""
	case *ssa.Slice:
		if _, ok := x.X.(*ssa.Alloc); ok {
			return ""
		}
		return builtList(p, x.X, depth+1)
	case *ssa.Phi:
		for _, e := range x.Edges {
			if why := builtList(p, e, depth+1); why != "" {
				return why
			}
		}
		return ""
	case *ssa.Call:
		if b, ok := x.Call.Value.(*ssa.Builtin); ok && b.Name() == "append" {
			return builtList(p, x.Call.Args[0], depth+1)
		}
		if t := x.Call.StaticCallee(); t != nil && t.Blocks != nil && p.PkgShort(t) == "mdns" {
			for _, b := range t.Blocks {
				if ret, ok := b.Instrs[len(b.Instrs)-1].(*ssa.Return); ok && len(ret.Results) == 1 {
					if why := builtList(p, ret.Results[0], depth+1); why != "" {
						return why
					}
				}
			}
			return ""
		}
		return core.CalleeName(&x.Call)
	case *ssa.UnOp:
		if al, ok := x.X.(*ssa.Alloc); ok && x.Op == token.MUL {
			// local variable spilled to a cell: every value stored into it
			for _, ref := range *al.Referrers() {
				if st, ok := ref.(*ssa.Store); ok && st.Addr == al {
					if why := builtList(p, st.Val, depth+1); why != "" {
						return why
					}
				}
			}
			return ""
		}
	}
	return "an unrecognised construction"
}

func scannedFns(m map[*ssa.Function]bool) []*ssa.Function {
	var out []*ssa.Function
	for f := range m {
		out = append(out, f)
	}
	sort.Slice(out, func(i, j int) bool { return out[i].String() < out[j].String() })
	return out
}

// listElementStore: a store into an element of a []string slice value (l[i] = x) in one of fns - the elements
// of a slice literal are stored through its backing array, not through the slice.
func listElementStore(fns []*ssa.Function) ssa.Instruction {
	var found ssa.Instruction
	for _, fn := range fns {
		core.EachInstr(fn, func(in ssa.Instruction) {
			st, ok := in.(*ssa.Store)
			if !ok || found != nil {
				return
			}
			ia, ok := st.Addr.(*ssa.IndexAddr)
			if !ok {
				return
			}
			sl, ok := ia.X.Type().Underlying().(*types.Slice)
			if !ok {
				return
			}
			if b, ok := sl.Elem().Underlying().(*types.Basic); ok && b.Info()&types.IsString != 0 {
				// the one-element varargs slice of an append is an array store, never a slice store
				found = in
			}
		})
	}
	return found
}
