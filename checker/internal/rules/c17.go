package rules

import (
	"fmt"
	"go/token"
	"go/types"
	"sort"
	"strings"

	"golang.org/x/tools/go/ssa"

	"shipverif/internal/core"
)

func init() { register("C17", checkC17) }

// detachedNotification reports call sites of an interface method that are
// issued from a goroutine spawned per event (a `go` statement on the call
// itself or a call inside a function literal started with `go`).
func detachedSites(p *core.Program, fns []*ssa.Function, m *types.Func) (detached, sync []core.Site) {
	goBodies := map[*ssa.Function]bool{}
	for _, fn := range fns {
		core.EachInstr(fn, func(in ssa.Instruction) {
			if g, ok := in.(*ssa.Go); ok {
				if cl := core.ClosureArg(g.Call.Value); cl != nil {
					goBodies[cl] = true
				}
			}
		})
	}
	for _, s := range core.Sites(fns, func(in ssa.Instruction) bool { return core.IsInvokeOf(in, m) }) {
		_, isGo := s.In.(*ssa.Go)
		inGoBody := false
		for f := s.Fn; f != nil; f = f.Parent() {
			if goBodies[f] {
				inGoBody = true
			}
		}
		if isGo || inGoBody {
			detached = append(detached, s)
		} else {
			sync = append(sync, s)
		}
	}
	return
}

// goOrigin: the function a construct is attributed to in instance keys. For code inside a goroutine body - a
// function literal, or a named function that is only ever started with go - that is the (outermost) function
// containing the go statement, so that turning `go func(){...}()` into `go x.helper(...)` keeps the key.
func goOrigin(p *core.Program, fn *ssa.Function) *ssa.Function {
	ensureCallSites(p)
	for depth := 0; depth < 4; depth++ {
		fn = core.Outermost(fn)
		sites := gCallSites[fn]
		if len(sites) == 0 {
			return fn
		}
		var spawner *ssa.Function
		for _, s := range sites {
			if _, isGo := s.(*ssa.Go); !isGo {
				return fn
			}
			if spawner != nil && core.Outermost(s.Parent()) != spawner {
				return fn
			}
			spawner = core.Outermost(s.Parent())
		}
		fn = spawner
	}
	return fn
}

// resolveGoParam: a parameter of a function that is only started by one go statement stands for that
// statement's argument.
func resolveGoParam(p *core.Program, v ssa.Value) ssa.Value {
	ensureCallSites(p)
	for i := 0; i < 3; i++ {
		v = core.Canon(v)
		pa, ok := v.(*ssa.Parameter)
		if !ok {
			return v
		}
		sites := gCallSites[pa.Parent()]
		if len(sites) != 1 {
			return v
		}
		g, isGo := sites[0].(*ssa.Go)
		if !isGo {
			return v
		}
		idx := -1
		for k, q := range pa.Parent().Params {
			if q == pa {
				idx = k
			}
		}
		if idx < 0 || idx >= len(g.Call.Args) {
			return v
		}
		v = g.Call.Args[idx]
	}
	return core.Canon(v)
}

func checkC17(p *core.Program, r *core.Report) {
	const R1 = "C17.R1 validity-filter-dominates"
	const R2 = "C17.R2 address-hygiene"
	const R3 = "C17.R3 snapshot-not-alias"
	const R4 = "C17.R4 reports-sequenced"
	r.Explanation = "C17 (visible-services view tracks the mDNS history): map-vs-history equivalence is a model-based property; decided clauses in package mdns: (R1) every insertion into MdnsManager.entries is reachable only through the pass edges of the validity filter (all mandatory keys present, txtvers == 1, ski != own ski, register is true/false) and only for add events, the deletion only for remove events of known entries; (R2) addresses enter an entry only on the not-(IPv6 link-local) edge and, when merging, only on the not-yet-present edge; (R3) the map handed to the hub is the fresh copy (new map, new entries) made under the manager's mutex, never the live map, and all accesses to the live map hold that mutex; (R4) successive snapshots are delivered from one sequencing context - a goroutine spawned per change lets two changes' reports arrive in either order, so the last report the application sees need not be the last change. Not decided: history equivalence."
	r.Rule(R1, "insert/delete sites of entries guarded by the validity-filter pass edges and the remove flag")
	r.Rule(R2, "address appends guarded by not-link-local resp. not-present edges")
	r.Rule(R3, "report argument derives from a MakeMap filled with freshly allocated entries under mux; entries accessed only under mux")
	r.Rule(R4, "ReportMdnsEntries is not invoked from a per-event goroutine")

	mgr := p.Named("mdns", "MdnsManager")
	proc := resolverCallback(p)
	fEntries := p.Field("mdns", "MdnsManager", "entries")
	fSki := p.Field("mdns", "MdnsManager", "ski")
	mReport := p.IfaceMethod("api", "MdnsReportInterface", "ReportMdnsEntries")
	if mgr == nil || proc == nil || fEntries == nil || fSki == nil || mReport == nil {
		r.Unresolved(R1, "mdns.MdnsManager / processMdnsEntry / entries / ski / ReportMdnsEntries")
		return
	}
	fns := p.FuncsOf("mdns")
	isEntries := func(v ssa.Value) bool { f, _ := core.LoadedField(v); return f == fEntries }
	// helper summaries
	inserts := core.NewMay(p, false, func(in ssa.Instruction) bool {
		mu, ok := in.(*ssa.MapUpdate)
		return ok && isEntries(mu.Map)
	})
	deletes := core.NewMay(p, false, func(in ssa.Instruction) bool {
		return isBuiltin(in, "delete") && isEntries(core.Common(in).Args[0])
	})
	var elements, removeP ssa.Value
	for _, pa := range proc.Params {
		if _, ok := pa.Type().Underlying().(*types.Map); ok {
			elements = pa
		}
		if b, ok := pa.Type().Underlying().(*types.Basic); ok && b.Kind() == types.Bool {
			removeP = pa
		}
	}
	if elements == nil || removeP == nil {
		r.Unresolved(R1, "elements / remove parameters")
		return
	}
	lookupOf := func(v ssa.Value, key string) bool {
		l, ok := core.Canon(v).(*ssa.Lookup)
		if !ok || core.Canon(l.X) != elements {
			return false
		}
		k, ok := strConst(l.Index)
		return ok && k == key
	}
	cmpEdge := func(match func(bo *ssa.BinOp) bool, wantEqual bool) core.EdgeFilter {
		return func(b *ssa.BasicBlock, idx int) bool {
			i := core.BlockIf(b)
			if i == nil {
				return false
			}
			v, truth := core.Truth(i.Cond, idx)
			bo, ok := v.(*ssa.BinOp)
			if !ok || (bo.Op != token.EQL && bo.Op != token.NEQ) || !match(bo) {
				return false
			}
			return (truth == (bo.Op == token.EQL)) == wantEqual
		}
	}
	txtversOK := cmpEdge(func(bo *ssa.BinOp) bool {
		c, ok := strConst(bo.Y)
		return ok && c == "1" && lookupOf(bo.X, "txtvers")
	}, true)
	notOwn := cmpEdge(func(bo *ssa.BinOp) bool {
		f, _ := core.LoadedField(bo.Y)
		g, _ := core.LoadedField(bo.X)
		return (f == fSki && lookupOf(bo.X, "ski")) || (g == fSki && lookupOf(bo.Y, "ski"))
	}, false)
	regIs := func(val string) core.EdgeFilter {
		return cmpEdge(func(bo *ssa.BinOp) bool {
			c, ok := strConst(bo.Y)
			return ok && c == val && lookupOf(bo.X, "register")
		}, true)
	}
	registerOK := orEdges(regIs("true"), regIs("false"))
	removeIs := func(want bool) core.EdgeFilter {
		return func(b *ssa.BasicBlock, idx int) bool {
			i := core.BlockIf(b)
			if i == nil {
				return false
			}
			v, truth := core.Truth(i.Cond, idx)
			return core.Canon(v) == removeP && truth == want
		}
	}
	// presence loop: comma-ok lookup with non-constant key whose failing edge cannot reach any insertion
	mdnsLocalFn := func(f *ssa.Function) bool { return p.PkgShort(f) == "mdns" && f.Blocks != nil }
	var presence *ssa.Lookup
	var presenceCall ssa.Instruction // call in proc of the validation helper containing the presence loop, if any
	for _, cs := range core.ExpandSites(proc, mdnsLocalFn, 1, func(in ssa.Instruction) bool {
		l, ok := in.(*ssa.Lookup)
		if !ok || !l.CommaOk {
			return false
		}
		_, isC := strConst(l.Index)
		return !isC && core.InLoop(l.Block())
	}) {
		undo := cs.Bind()
		l := cs.In.(*ssa.Lookup)
		if core.Canon(l.X) == elements {
			presence = l
			if len(cs.Chain) > 0 {
				presenceCall = cs.Chain[0]
			}
		}
		undo()
	}
	ninsert := 0
	core.EachInstr(proc, func(in ssa.Instruction) {
		if _, ok := in.(*ssa.Call); !ok {
			if _, ok := in.(*ssa.MapUpdate); !ok {
				return
			}
		}
		isIns := inserts.Instr(in)
		isDel := deletes.Instr(in)
		if !isIns && !isDel {
			return
		}
		what := "insert"
		if isDel && !isIns {
			what = "delete"
		}
		if isIns {
			ninsert++
		}
		base := fmt.Sprintf("%s of entries in processMdnsEntry via %s", what, calleeShort(p, in))
		checks := []struct {
			name string
			e    core.EdgeFilter
			msg  string
		}{
			{"txtvers==1", txtversOK, "without the txtvers == \"1\" check"},
			{"not-own-ski", notOwn, "without excluding the local SKI"},
			{"register-boolean", registerOK, "without the register in {true,false} check"},
		}
		if what == "insert" {
			checks = append(checks, struct {
				name string
				e    core.EdgeFilter
				msg  string
			}{"add-event", removeIs(false), "for a remove event"})
		} else {
			checks = append(checks, struct {
				name string
				e    core.EdgeFilter
				msg  string
			}{"remove-event", removeIs(true), "for an add event"})
		}
		for _, c := range checks {
			key := base + " guarded " + c.name
			if core.GuardedPS(in, core.LiftEdge(c.e, mdnsLocalFn, 2)) {
				r.OK(R1, key, p.Pos(in.Pos()), "every path passes the filter edge")
			} else {
				r.Fail(R1, key, p.Pos(in.Pos()), "the visible-services map is modified "+c.msg+" on some path")
			}
		}
		key := base + " guarded mandatory-keys"
		if presence == nil {
			r.Fail(R1, key, p.Pos(in.Pos()), "no presence check of the mandatory TXT keys found")
		} else if presenceCall != nil {
			// the presence loop lives in a boolean validation helper: a missing key must make the helper answer
			// false, and the modification must sit behind the helper's true edge
			h := presence.Parent()
			var okEx *ssa.Extract
			for _, ref := range *presence.Referrers() {
				if ex, ok := ref.(*ssa.Extract); ok && ex.Index == 1 {
					okEx = ex
				}
			}
			helperOK := okEx != nil
			if helperOK {
				for _, b := range h.Blocks {
					iff := core.BlockIf(b)
					if iff == nil {
						continue
					}
					for idx := range b.Succs {
						v, truth := core.Truth(iff.Cond, idx)
						if v != ssa.Value(okEx) || truth {
							continue
						}
						// from the missing edge only `return false` is reachable
						for rb := range core.ReachableFrom(b.Succs[idx], nil) {
							if len(rb.Instrs) == 0 {
								continue
							}
							if ret, isRet := rb.Instrs[len(rb.Instrs)-1].(*ssa.Return); isRet {
								if !isBoolConst(core.ResultOf(ret, 0), false) {
									helperOK = false
								}
							}
						}
					}
				}
			}
			trueEdge := func(b *ssa.BasicBlock, idx int) bool {
				i := core.BlockIf(b)
				if i == nil {
					return false
				}
				v, truth := core.Truth(i.Cond, idx)
				return v == ssa.Value(presenceCall.(ssa.Value)) && truth
			}
			if helperOK && core.Guarded(in, trueEdge) {
				r.OK(R1, key, p.Pos(in.Pos()), "a missing mandatory key makes the validation helper answer false, and the map is only modified behind its true edge")
			} else {
				r.Fail(R1, key, p.Pos(in.Pos()), "a record with a missing mandatory TXT key can still modify the map")
			}
		} else {
			// the !ok edge of the presence test must not reach the modification
			okEx := func() *ssa.Extract {
				for _, ref := range *presence.Referrers() {
					if ex, ok := ref.(*ssa.Extract); ok && ex.Index == 1 {
						return ex
					}
				}
				return nil
			}()
			missingEdge := func(b *ssa.BasicBlock, idx int) bool {
				i := core.BlockIf(b)
				if i == nil || okEx == nil {
					return false
				}
				v, truth := core.Truth(i.Cond, idx)
				return v == ssa.Value(okEx) && !truth
			}
			// remove the ok==true edges: then the modification must be unreachable... equivalently:
			// from each missing-edge target the modification is unreachable
			reach := false
			for _, b := range proc.Blocks {
				for idx := range b.Succs {
					if missingEdge(b, idx) {
						if core.ReachableFrom(b.Succs[idx], nil)[in.Block()] {
							reach = true
						}
					}
				}
			}
			// the loop that performs the test is passed on every path: the block that dominates the test (loop head) dominates the site
			head := presence.Block()
			if head.Idom() != nil {
				head = head.Idom()
			}
			if okEx != nil && !reach && head.Dominates(in.Block()) {
				r.OK(R1, key, p.Pos(in.Pos()), "a missing mandatory key leaves the function")
			} else {
				r.Fail(R1, key, p.Pos(in.Pos()), "a record with a missing mandatory TXT key can still modify the map")
			}
		}
	})
	if ninsert < 2 {
		r.Fail(R1, "insert sites", "", "expected the new-entry and the merge insertion")
	}
	r.Floor(R1, 10)

	// ---- R2
	nap := 0
	eachInstrWithCallees(p, proc, "mdns", 2, func(in ssa.Instruction) {
		c, ok := in.(*ssa.Call)
		if !ok || !isBuiltin(in, "append") {
			return
		}
		st, ok := c.Type().Underlying().(*types.Slice)
		if !ok || !core.TypeIs(st.Elem(), "net", "IP") {
			return
		}
		nap++
		if f, _ := core.LoadedField(c.Call.Args[0]); f != nil && f.Name() == "Addresses" {
			// merge: guarded by a dedup flag
			key := "address merge append"
			flagEdge := func(b *ssa.BasicBlock, idx int) bool {
				i := core.BlockIf(b)
				if i == nil {
					return false
				}
				v, truth := core.Truth(i.Cond, idx)
				phi, ok := v.(*ssa.Phi)
				if !ok || !truth {
					return false
				}
				hasFalse := false
				for _, e := range phi.Edges {
					if isBoolConst(e, false) {
						hasFalse = true
					}
				}
				return hasFalse
			}
			containsEdge := func(b *ssa.BasicBlock, idx int) bool {
				i := core.BlockIf(b)
				if i == nil {
					return false
				}
				v, truth := core.Truth(i.Cond, idx)
				call, ok := v.(*ssa.Call)
				if !ok || truth {
					return false
				}
				n := core.CalleeName(&call.Call)
				return n == "slices.Contains" || n == "slices.ContainsFunc" || n == "slices.IndexFunc"
			}
			// equality edges: an address equal to the event's address was found in the entry
			eqFound := func(b *ssa.BasicBlock, idx int) bool {
				i := core.BlockIf(b)
				if i == nil {
					return false
				}
				v, truth := core.Truth(i.Cond, idx)
				if bo, ok := v.(*ssa.BinOp); ok && (bo.Op == token.EQL || bo.Op == token.NEQ) {
					isStr := func(x ssa.Value) bool {
						c, ok := x.(*ssa.Call)
						return ok && core.CalleeName(&c.Call) == "(net.IP).String"
					}
					if isStr(bo.X) && isStr(bo.Y) {
						return truth == (bo.Op == token.EQL)
					}
				}
				if call, ok := v.(*ssa.Call); ok && truth {
					n := core.CalleeName(&call.Call)
					return n == "(net.IP).Equal" || n == "bytes.Equal"
				}
				return false
			}
			// headers of loops over the event's own address list end "this address"
			isIterEnd := func(y ssa.Instruction) bool {
				b := y.Block()
				if len(b.Instrs) == 0 || b.Instrs[0] != y {
					return false
				}
				iff := core.BlockIf(b)
				if iff == nil {
					return false
				}
				bo, ok := iff.Cond.(*ssa.BinOp)
				if !ok || bo.Op != token.LSS {
					return false
				}
				lc, ok := bo.Y.(*ssa.Call)
				if !ok || !isBuiltin(lc, "len") {
					return false
				}
				if f, _ := core.LoadedField(lc.Call.Args[0]); f != nil {
					return false // loop over entry.Addresses (inner)
				}
				st, ok := lc.Call.Args[0].Type().Underlying().(*types.Slice)
				return ok && core.TypeIs(st.Elem(), "net", "IP")
			}
			neq, leaks := 0, false
			for _, b := range in.Parent().Blocks {
				for idx := range b.Succs {
					if eqFound(b, idx) {
						neq++
						first := b.Succs[idx].Instrs[0]
						if first == in || core.PathSearch(in.Parent(), first, func(y ssa.Instruction) bool { return y == in }, isIterEnd, nil) != nil {
							leaks = true
						}
					}
				}
			}
			if core.Guarded(in, orEdges(flagEdge, containsEdge)) || (neq > 0 && !leaks) {
				r.OK(R2, key, p.Pos(in.Pos()), "only when no equal address is present")
			} else {
				r.Fail(R2, key, p.Pos(in.Pos()), "an address is merged into an entry without the not-yet-present check: duplicates accumulate")
			}
			return
		}
		key := "address filter append"
		notLL := func(b *ssa.BasicBlock, idx int) bool {
			i := core.BlockIf(b)
			if i == nil {
				return false
			}
			v, truth := core.Truth(i.Cond, idx)
			if call, ok := v.(*ssa.Call); ok && core.CalleeName(&call.Call) == "(net.IP).IsLinkLocalUnicast" && !truth {
				return true
			}
			// To4() != nil  (IPv4)
			if bo, ok := v.(*ssa.BinOp); ok && (bo.Op == token.EQL || bo.Op == token.NEQ) && core.IsNilConst(bo.Y) {
				if call, ok := bo.X.(*ssa.Call); ok && core.CalleeName(&call.Call) == "(net.IP).To4" {
					return truth == (bo.Op == token.NEQ)
				}
			}
			return false
		}
		if core.Guarded(in, notLL) {
			r.OK(R2, key, p.Pos(in.Pos()), "IPv6 link-local addresses are skipped")
		} else {
			r.Fail(R2, key, p.Pos(in.Pos()), "addresses are collected without excluding IPv6 link-local ones")
		}
		// ... and only those: an IPv6 address that is not link-local, and every IPv4 address, still reaches the append
		isV4 := func(b *ssa.BasicBlock, idx int) bool { // edge asserting To4() != nil
			i := core.BlockIf(b)
			if i == nil {
				return false
			}
			v, truth := core.Truth(i.Cond, idx)
			if bo, ok := v.(*ssa.BinOp); ok && (bo.Op == token.EQL || bo.Op == token.NEQ) && core.IsNilConst(bo.Y) {
				if call, ok := bo.X.(*ssa.Call); ok && core.CalleeName(&call.Call) == "(net.IP).To4" {
					return truth == (bo.Op == token.NEQ)
				}
			}
			return false
		}
		isLL := func(b *ssa.BasicBlock, idx int) bool { // edge asserting IsLinkLocalUnicast() == true
			i := core.BlockIf(b)
			if i == nil {
				return false
			}
			v, truth := core.Truth(i.Cond, idx)
			call, ok := v.(*ssa.Call)
			return ok && truth && core.CalleeName(&call.Call) == "(net.IP).IsLinkLocalUnicast"
		}
		isV6 := func(b *ssa.BasicBlock, idx int) bool { // edge asserting To4() == nil
			i := core.BlockIf(b)
			if i == nil {
				return false
			}
			v, truth := core.Truth(i.Cond, idx)
			if bo, ok := v.(*ssa.BinOp); ok && (bo.Op == token.EQL || bo.Op == token.NEQ) && core.IsNilConst(bo.Y) {
				if call, ok := bo.X.(*ssa.Call); ok && core.CalleeName(&call.Call) == "(net.IP).To4" {
					return truth == (bo.Op == token.EQL)
				}
			}
			return false
		}
		fnIn := in.Parent()
		tgt := func(y ssa.Instruction) bool { return y == in }
		key = "global IPv6 addresses are kept"
		if core.PathSearch(fnIn, nil, tgt, nil, orEdges(isV4, isLL)) != nil {
			r.OK(R2, key, p.Pos(in.Pos()), "an address with To4()==nil that is not link-local reaches the append")
		} else {
			r.Fail(R2, key, p.Pos(in.Pos()), "IPv6 addresses that are not link-local never reach the address list (the union of usable addresses loses them)")
		}
		key = "IPv4 addresses are kept"
		if core.PathSearch(fnIn, nil, tgt, nil, isV6) != nil {
			r.OK(R2, key, p.Pos(in.Pos()), "an IPv4 address reaches the append")
		} else {
			r.Fail(R2, key, p.Pos(in.Pos()), "IPv4 addresses never reach the address list")
		}
		// IsLinkLocalUnicast is also true for 169.254.0.0/16: an IPv4 link-local address (direct cable, no DHCP) is usable and kept
		notLL2 := func(b *ssa.BasicBlock, idx int) bool { // edge asserting IsLinkLocalUnicast() == false
			i := core.BlockIf(b)
			if i == nil {
				return false
			}
			v, truth := core.Truth(i.Cond, idx)
			call, ok := v.(*ssa.Call)
			return ok && !truth && core.CalleeName(&call.Call) == "(net.IP).IsLinkLocalUnicast"
		}
		key = "IPv4 link-local addresses are kept"
		if core.PathSearch(fnIn, nil, tgt, nil, orEdges(isV6, notLL2)) != nil {
			r.OK(R2, key, p.Pos(in.Pos()), "an address with To4()!=nil reaches the append whatever IsLinkLocalUnicast says")
		} else {
			r.Fail(R2, key, p.Pos(in.Pos()), "the link-local filter is not restricted to IPv6 (To4()==nil): IsLinkLocalUnicast is also true for 169.254.0.0/16, so a peer that is reachable only over an IPv4 link-local address (direct cable, no DHCP) is reported without any address and can never be dialled")
		}
	})
	if nap < 2 {
		r.Fail(R2, "address appends", "", "expected the filter append and the merge append")
	}
	checkAddressProvenance(p, r, proc, R2)
	{
		// addresses are compared by value (String / Equal): the 4-byte and the 16-byte form of one IPv4 address differ as bytes
		key := "addresses are compared by value, not by byte representation"
		var bad ssa.Instruction
		for _, fn := range fns {
			core.EachInstr(fn, func(in ssa.Instruction) {
				c := core.Common(in)
				if c == nil || bad != nil {
					return
				}
				switch core.CalleeName(c) {
				case "bytes.Equal", "bytes.Compare", "slices.Equal":
					for _, a := range c.Args {
						t := a.Type()
						if ct, ok := a.(*ssa.ChangeType); ok {
							t = ct.X.Type()
						}
						if cv, ok := a.(*ssa.Convert); ok {
							t = cv.X.Type()
						}
						if types.TypeString(t, nil) == "net.IP" {
							bad = in
						}
					}
				}
			})
		}
		if bad != nil {
			r.Fail(R2, key, p.Pos(bad.Pos()), "two net.IP values are compared byte-wise: the same IPv4 address arrives as 4 bytes from one source and as 16 bytes from another, is not recognised as known and is stored twice")
		} else {
			r.OK(R2, key, p.Pos(proc.Pos()), "no byte-wise comparison of net.IP values in package mdns")
		}
	}
	checkEntryKeys(p, r, proc, fEntries, R1)
	// only the local SKI identifies the local service: no other TXT value is compared with a field of the manager
	{
		nOwn, bad := 0, false
		for _, cs := range core.ExpandSites(proc, func(f *ssa.Function) bool { return p.PkgShort(f) == "mdns" && f.Blocks != nil }, 1, func(in ssa.Instruction) bool {
			bo, ok := in.(*ssa.BinOp)
			return ok && (bo.Op == token.EQL || bo.Op == token.NEQ)
		}) {
			undo := cs.Bind()
			bo := cs.In.(*ssa.BinOp)
			keyOfLookup := func(v ssa.Value) (string, bool) {
				v = core.Canon(v)
				if ex, ok := v.(*ssa.Extract); ok {
					v = ex.Tuple
				}
				l, ok := v.(*ssa.Lookup)
				if !ok || core.Canon(l.X) != elements {
					return "", false
				}
				return strConst(l.Index)
			}
			mgrField := func(v ssa.Value) *types.Var {
				f, b := core.LoadedField(core.Canon(v))
				if f != nil && b != nil && core.NamedOf(b.Type()) == mgr {
					return f
				}
				return nil
			}
			check := func(a, b ssa.Value) {
				k, ok := keyOfLookup(a)
				f := mgrField(b)
				if !ok || f == nil {
					return
				}
				nOwn++
				if k == "ski" && f == fSki {
					return
				}
				bad = true
				r.Fail(R1, "own-service test compares TXT '"+k+"' with MdnsManager."+f.Name(), p.Pos(bo.Pos()), "a record is compared with a field of the local manager other than the SKI: a remote service that merely shares that value (e.g. the same default SHIP id) is dropped from the visible services although its SKI is not the local one")
			}
			check(bo.X, bo.Y)
			check(bo.Y, bo.X)
			undo()
		}
		if !bad {
			r.OK(R1, "own-service test uses the SKI only", p.Pos(proc.Pos()), fmt.Sprintf("%d comparison(s) of TXT values with manager fields, all on the SKI", nOwn))
		}
	}
	// every address of an event is considered: the loops over the event's address list have no early exit
	var addrParam ssa.Value
	for _, pa := range proc.Params {
		if st, ok := pa.Type().Underlying().(*types.Slice); ok && core.TypeIs(st.Elem(), "net", "IP") {
			addrParam = pa
		}
	}
	nloops := 0
	var loopBlocks []*ssa.BasicBlock
	{
		seenFn := map[*ssa.Function]bool{}
		eachInstrWithCallees(p, proc, "mdns", 2, func(in ssa.Instruction) {
			if !seenFn[in.Parent()] {
				seenFn[in.Parent()] = true
				loopBlocks = append(loopBlocks, in.Parent().Blocks...)
			}
		})
	}
	for _, b := range loopBlocks {
		iff := core.BlockIf(b)
		if iff == nil {
			continue
		}
		bo, ok := iff.Cond.(*ssa.BinOp)
		if !ok || bo.Op != token.LSS {
			continue
		}
		lenCall, ok := bo.Y.(*ssa.Call)
		if !ok || !isBuiltin(lenCall, "len") {
			continue
		}
		ranged := lenCall.Call.Args[0]
		st, ok := ranged.Type().Underlying().(*types.Slice)
		if !ok || !core.TypeIs(st.Elem(), "net", "IP") {
			continue
		}
		// only loops over the event's own list (parameter or the filtered copy), not over entry.Addresses
		if f, _ := core.LoadedField(ranged); f != nil {
			continue
		}
		_ = addrParam
		nloops++
		key := fmt.Sprintf("address loop #%d considers every address", nloops)
		if from, _ := core.LoopEarlyExit(b); from != nil {
			last := from.Instrs[len(from.Instrs)-1]
			r.Fail(R2, key, p.Pos(last.Pos()), "the loop over the event's addresses can be left early (break/return): addresses listed after that point are dropped from the union")
		} else {
			r.OK(R2, key, p.Pos(iff.Pos()), "no early exit")
		}
	}
	if nloops < 2 {
		r.Fail(R2, "address loops", "", "expected the filter loop and the merge loop over the event's addresses")
	}

	// ---- R3
	li := core.AnalyzeLocks(fns, func(fn *ssa.Function) bool { return fn.Object() != nil && fn.Object().Exported() })
	for _, fn := range fns {
		if fn.Name() == "NewMDNS" {
			continue
		}
		core.EachInstr(fn, func(in ssa.Instruction) {
			u, ok := in.(*ssa.UnOp)
			if !ok || u.Op != token.MUL {
				return
			}
			fa, ok := u.X.(*ssa.FieldAddr)
			if !ok || core.FieldVar(fa) != fEntries {
				return
			}
			key := "entries access in " + p.FnName(fn)
			if li.Must[in]["mdns.MdnsManager.mux"] {
				r.OK(R3, key, p.Pos(in.Pos()), "under mux")
			} else {
				r.Fail(R3, key, p.Pos(in.Pos()), "the live entries map is accessed without MdnsManager.mux")
			}
		})
	}
	det, syn := detachedSites(p, fns, mReport)
	checkSnapshotCopy(p, r, R3, append(append([]core.Site{}, det...), syn...))
	r.Floor(R3, 6)

	// ---- R5: every change of the map is followed by a report of a later snapshot
	const R6 = "C17.R6 report-reaches-the-application"
	r.Rule(R6, "hub.ReportMdnsEntries calls VisibleRemoteServicesUpdated on every path - also for an empty snapshot (the removal of the last visible service is a change the application has to see); the mandatory-key table of the resolver callback still covers txtvers, id, path, ski and register (shared with C16.R1)")
	if rep, mVis := p.Method("hub", "Hub", "ReportMdnsEntries"), p.IfaceMethod("api", "HubReaderInterface", "VisibleRemoteServicesUpdated"); rep == nil || mVis == nil {
		r.Unresolved(R6, "hub.Hub.ReportMdnsEntries / HubReaderInterface.VisibleRemoteServicesUpdated")
	} else {
		must := core.NewMust(p, 2, func(in ssa.Instruction) bool { return core.IsInvokeOf(in, mVis) })
		key := "hub.ReportMdnsEntries tells the application on every path"
		if bad := core.MustPass(rep, nil, must.Instr, nil); bad != nil {
			r.Fail(R6, key, p.Pos(bad.Pos()), "a path of ReportMdnsEntries returns without VisibleRemoteServicesUpdated (e.g. a quick exit for an empty snapshot): the application keeps a stale non-empty list after the last service disappeared")
		} else {
			r.OK(R6, key, p.Pos(rep.Pos()), "every snapshot is forwarded")
		}
		// the forwarded list (and the list of known entries) holds every reported entry: the loops that build
		// them append on every iteration
		nl := 0
		eachInstrWithCallees(p, rep, "hub", 2, func(in ssa.Instruction) {
			var listT types.Type
			if c, ok := in.(*ssa.Call); ok && isBuiltin(in, "append") {
				listT = c.Type()
			} else if st, ok := in.(*ssa.Store); ok {
				// out[i] = element on a pre-sized slice
				if ia, ok := st.Addr.(*ssa.IndexAddr); ok {
					if _, isSlice := ia.X.Type().Underlying().(*types.Slice); isSlice {
						listT = ia.X.Type()
					}
				}
			}
			if listT == nil {
				return
			}
			ts := types.TypeString(listT, nil)
			what := ""
			switch {
			case strings.HasSuffix(ts, "api.RemoteService"):
				what = "visible-services list"
			case strings.HasSuffix(ts, "api.MdnsEntry"):
				what = "known-entries list"
			default:
				return
			}
			if !core.InLoop(in.Block()) {
				return
			}
			nl++
			if what == "visible-services list" {
				k2 := "hub.ReportMdnsEntries visible-services list is built from the reported snapshot"
				if src := loopRangeSource(in); src != nil && isEntriesParam(src) {
					r.OK(R6, k2, p.Pos(in.Pos()), "ranges over the entries parameter")
				} else {
					r.Fail(R6, k2, p.Pos(in.Pos()), "the list handed to the application is not built from the snapshot this call was given (e.g. from the hub's cached list, which is refreshed only for unsolicited reports): after a requested report the application's last list is not the manager's final set")
				}
			}
			key := "hub.ReportMdnsEntries " + what + " takes every reported entry"
			if bad := skipsIteration(in); bad != nil {
				r.Fail(R6, key, p.Pos(in.Pos()), "an iteration over the reported entries can go on to the next entry without appending this one (the append sits behind a `continue`, e.g. for connected or unpaired services): the list the application gets is not the set of visible services")
			} else {
				r.OK(R6, key, p.Pos(in.Pos()), "appended on every iteration")
			}
		})
		if nl < 2 {
			r.Fail(R6, "hub.ReportMdnsEntries list construction", p.Pos(rep.Pos()), "the loops that build the visible-services list and the known-entries list are not recognisable")
		}
	}
	importRules(p, r, "C16", map[string]string{"C16.R1 txt-table-agreement": R6}, func(key string) bool {
		return strings.HasPrefix(key, "reader demands ") || strings.HasPrefix(key, "mandatory key ")
	})
	const R7 = "C17.R7 txt-values-with-equals-survive"
	r.Rule(R7, "the TXT parser separates key and value at the first '=' only (shared with C16.R2): otherwise a valid announcement whose id or path contains '=' loses a mandatory key and the service never becomes visible")
	importRules(p, r, "C16", map[string]string{"C16.R2 split-at-first-equals": R7}, nil)
	const R5 = "C17.R5 change-implies-report"
	r.Rule(R5, "every path of the resolver callback that modified entries dispatches a report (unless no report sink is registered)")
	fReport := p.Field("mdns", "MdnsManager", "report")
	reportNil := func(b *ssa.BasicBlock, idx int) bool {
		i := core.BlockIf(b)
		if i == nil {
			return false
		}
		v, truth := core.Truth(i.Cond, idx)
		bo, ok := v.(*ssa.BinOp)
		if !ok || (bo.Op != token.EQL && bo.Op != token.NEQ) || !core.IsNilConst(bo.Y) {
			return false
		}
		f, _ := core.LoadedField(bo.X)
		isSink := f == fReport || core.TypeIs(bo.X.Type(), apiPath, "MdnsReportInterface")
		return isSink && truth == (bo.Op == token.EQL)
	}
	mayReport := core.NewMay(p, true, func(in ssa.Instruction) bool { return core.IsInvokeOf(in, mReport) })
	isMod := func(in ssa.Instruction) bool {
		if _, ok := in.(*ssa.Call); !ok {
			if _, ok := in.(*ssa.MapUpdate); !ok {
				return false
			}
		}
		return inserts.Instr(in) || deletes.Instr(in)
	}
	isDispatch := func(in ssa.Instruction) bool {
		if core.IsInvokeOf(in, mReport) {
			return true
		}
		switch in.(type) {
		case *ssa.Call, *ssa.Go:
			return mayReport.Instr(in)
		}
		return false
	}
	if bad := core.FlagSearch(proc, core.FlagOpts{Mark: isMod, Stop: isDispatch, Target: core.IsReturn, Removed: reportNil}); bad != nil {
		r.Fail(R5, "processMdnsEntry reports after a change", p.Pos(bad.Pos()), "a path modifies the visible-services map and returns without dispatching a report: the change reaches the application only with the next event, if any")
	} else {
		r.OK(R5, "processMdnsEntry reports after a change", p.Pos(proc.Pos()), "every modifying path dispatches a report (flag-sensitive search)")
	}
	// and the dispatched snapshot is taken after the modification: the copy call is dominated by ... (same function, later position on the path)
	// ---- R4
	for _, s := range det {
		r.Fail(R4, "detached report in "+p.FnName(opRoot(p, goOrigin(p, s.Fn))), p.Pos(s.In.Pos()), "each change reports its snapshot on its own goroutine (go report.ReportMdnsEntries): the goroutines of two consecutive changes can run in the opposite order, so the last list delivered to the application is not the final set", "events e1,e2 -> goroutine(e2) scheduled before goroutine(e1) -> hub stores/forwards e1's snapshot last")
	}
	for _, s := range syn {
		r.OK(R4, "sequenced report in "+p.FnName(s.Fn), p.Pos(s.In.Pos()), "issued from the mutating context")
	}
	if len(det)+len(syn) == 0 {
		r.Fail(R4, "report sites", "", "no ReportMdnsEntries call found")
	}
}

func calleeShort(p *core.Program, in ssa.Instruction) string {
	if c := core.Common(in); c != nil && c.StaticCallee() != nil {
		return c.StaticCallee().Name()
	}
	return "direct"
}

// checkSnapshotCopy: the map handed to ReportMdnsEntries is a fresh map with
// freshly allocated entries (deep copy), never the live map / live entries.
func checkSnapshotCopy(p *core.Program, r *core.Report, R3 string, sites []core.Site) {
	for _, s := range sites {
		arg := core.Common(s.In).Args[0]
		key := "report argument in " + p.FnName(s.Fn)
		okCopy := false
		if call, ok := core.Canon(arg).(*ssa.Call); ok {
			if callee := call.Call.StaticCallee(); callee != nil && p.PkgShort(callee) == "mdns" {
				fresh, alias := false, false
				core.EachInstr(callee, func(in ssa.Instruction) {
					if ret, ok := in.(*ssa.Return); ok && ret.Block() != callee.Recover && len(ret.Results) == 1 {
						switch core.Canon(core.ResultOf(ret, 0)).(type) {
						case *ssa.MakeMap:
							fresh = true
						default:
							alias = true
						}
					}
					if mu, ok := in.(*ssa.MapUpdate); ok {
						if !freshEntry(p, mu.Value, 2) {
							alias = true
						}
					}
				})
				okCopy = fresh && !alias
			}
		}
		if okCopy {
			r.OK(R3, key, p.Pos(s.In.Pos()), "a fresh map with freshly allocated entries")
		} else {
			r.Fail(R3, key, p.Pos(s.In.Pos()), "the hub is handed the live map or live entries instead of a snapshot copy")
		}
	}
}

// resolverCallback finds the manager method handed to providers as api.MdnsResolveCB (by signature, not by name).
func resolverCallback(p *core.Program) *ssa.Function {
	cb := p.Named("api", "MdnsResolveCB")
	if cb == nil {
		return nil
	}
	want, ok := cb.Underlying().(*types.Signature)
	if !ok {
		return nil
	}
	var found *ssa.Function
	for _, fn := range p.FuncsOf("mdns") {
		if fn.Signature.Recv() == nil || !core.TypeIs(fn.Signature.Recv().Type(), core.ModulePath+"/mdns", "MdnsManager") {
			continue
		}
		if types.Identical(types.NewSignatureType(nil, nil, nil, fn.Signature.Params(), fn.Signature.Results(), fn.Signature.Variadic()), want) {
			found = fn
		}
	}
	return found
}

// checkAddressProvenance (C17.R2): every address that enters an entry - merged into a known one or stored
// with a new one - is taken from the list the link-local filter built, never from the event's raw list.
func checkAddressProvenance(p *core.Program, r *core.Report, proc *ssa.Function, R2 string) {
	ensureCallSites(p)
	isIPSlice := func(t types.Type) bool {
		st, ok := t.Underlying().(*types.Slice)
		return ok && core.TypeIs(st.Elem(), "net", "IP")
	}
	// elements appended by a variadic append(s, e...)
	appended := func(c *ssa.Call) []ssa.Value {
		var out []ssa.Value
		if len(c.Call.Args) < 2 {
			return nil
		}
		sl, ok := c.Call.Args[1].(*ssa.Slice)
		if !ok {
			return []ssa.Value{c.Call.Args[1]} // append(a, b...): a whole slice
		}
		al, ok := sl.X.(*ssa.Alloc)
		if !ok {
			return []ssa.Value{c.Call.Args[1]}
		}
		for _, ref := range *al.Referrers() {
			if ia, ok := ref.(*ssa.IndexAddr); ok {
				for _, r2 := range *ia.Referrers() {
					if st, ok := r2.(*ssa.Store); ok && st.Addr == ssa.Value(ia) {
						out = append(out, st.Val)
					}
				}
			}
		}
		return out
	}
	notLL := func(b *ssa.BasicBlock, idx int) bool {
		i := core.BlockIf(b)
		if i == nil {
			return false
		}
		v, truth := core.Truth(i.Cond, idx)
		if call, ok := v.(*ssa.Call); ok && core.CalleeName(&call.Call) == "(net.IP).IsLinkLocalUnicast" && !truth {
			return true
		}
		if bo, ok := v.(*ssa.BinOp); ok && (bo.Op == token.EQL || bo.Op == token.NEQ) && core.IsNilConst(bo.Y) {
			if call, ok := bo.X.(*ssa.Call); ok && core.CalleeName(&call.Call) == "(net.IP).To4" {
				return truth == (bo.Op == token.NEQ)
			}
		}
		return false
	}
	// roots of a []net.IP value: "filtered" appends, raw parameters of the callback, or something unknown
	var elemSlices func(el ssa.Value, depth int) ([]ssa.Value, bool)
	type env map[*ssa.Parameter]ssa.Value
	var roots func(v ssa.Value, e env, depth int, out map[string]token.Pos, seen map[ssa.Value]bool)
	roots = func(v ssa.Value, e env, depth int, out map[string]token.Pos, seen map[ssa.Value]bool) {
		if v == nil || seen[v] {
			return
		}
		seen[v] = true
		if depth == 0 {
			out["unknown: derivation too deep"] = v.Pos()
			return
		}
		switch x := v.(type) {
		case *ssa.Const, *ssa.MakeSlice:
			return
		case *ssa.Phi:
			for _, ed := range x.Edges {
				roots(ed, e, depth-1, out, seen)
			}
		case *ssa.Slice:
			roots(x.X, e, depth-1, out, seen)
		case *ssa.ChangeType:
			roots(x.X, e, depth-1, out, seen)
		case *ssa.Parameter:
			if a, ok := e[x]; ok {
				roots(a, nil, depth-1, out, seen)
				return
			}
			if x.Parent() == proc || core.NestedIn(x.Parent(), proc) {
				out["raw"] = x.Pos()
			} else if sites := gCallSites[x.Parent()]; len(sites) > 0 {
				// a helper's parameter: what its callers pass
				idx := -1
				for i, q := range x.Parent().Params {
					if q == x {
						idx = i
					}
				}
				for _, cs := range sites {
					if c := core.Common(cs); c != nil && idx >= 0 && idx < len(c.Args) {
						roots(c.Args[idx], nil, depth-1, out, seen)
					}
				}
			} else {
				out["unknown: parameter "+x.Name()+" of "+x.Parent().Name()] = x.Pos()
			}
		case *ssa.Call:
			if isBuiltin(x, "append") {
				if core.Guarded(x, notLL) {
					return // the filter append: elements passed the link-local test
				}
				roots(x.Call.Args[0], e, depth-1, out, seen)
				for _, el := range appended(x) {
					if isIPSlice(el.Type()) {
						roots(el, e, depth-1, out, seen)
					} else {
						// a single element: where does it come from?
						if sls, ok := elemSlices(el, 4); ok {
							for _, sl := range sls {
								roots(sl, e, depth-1, out, seen)
							}
							continue
						}
						out["unknown: appended element "+el.Name()] = x.Pos()
					}
				}
				return
			}
			if callee := x.Call.StaticCallee(); callee != nil && p.PkgShort(callee) == "mdns" && callee.Blocks != nil {
				ne := env{}
				for i, pa := range callee.Params {
					if i < len(x.Call.Args) {
						ne[pa] = x.Call.Args[i]
					}
				}
				core.EachInstr(callee, func(in ssa.Instruction) {
					if ret, ok := in.(*ssa.Return); ok {
						for i := range ret.Results {
							if res := core.ResultOf(ret, i); isIPSlice(res.Type()) {
								roots(res, ne, depth-1, out, seen)
							}
						}
					}
				})
				return
			}
			out["unknown: result of "+core.CalleeName(&x.Call)] = x.Pos()
		case *ssa.UnOp:
			// load of a local spilled to memory
			if al, ok := x.X.(*ssa.Alloc); ok {
				for _, ref := range *al.Referrers() {
					if st, ok := ref.(*ssa.Store); ok && st.Addr == ssa.Value(al) {
						roots(st.Val, e, depth-1, out, seen)
					}
				}
				return
			}
			out["unknown: "+x.String()] = x.Pos()
		default:
			out["unknown: "+v.String()] = v.Pos()
		}
	}
	// elemSlices: the slices a single address value was drawn from (range element, possibly spilled to a heap cell)
	elemSlices = func(el ssa.Value, depth int) ([]ssa.Value, bool) {
		if depth == 0 {
			return nil, false
		}
		switch x := el.(type) {
		case *ssa.UnOp:
			if ia, ok := x.X.(*ssa.IndexAddr); ok {
				return []ssa.Value{ia.X}, true
			}
			if al, ok := x.X.(*ssa.Alloc); ok {
				var out []ssa.Value
				for _, ref := range *al.Referrers() {
					if st, ok := ref.(*ssa.Store); ok && st.Addr == ssa.Value(al) {
						sl, ok := elemSlices(st.Val, depth-1)
						if !ok {
							return nil, false
						}
						out = append(out, sl...)
					}
				}
				return out, len(out) > 0
			}
		case *ssa.Index:
			return []ssa.Value{x.X}, true
		case *ssa.Phi:
			var out []ssa.Value
			for _, e := range x.Edges {
				sl, ok := elemSlices(e, depth-1)
				if !ok {
					return nil, false
				}
				out = append(out, sl...)
			}
			return out, true
		case *ssa.Extract:
			// value of a range-over-slice via Next is not used for slices; fallthrough
		}
		return nil, false
	}
	verdict := func(key string, pos token.Pos, out map[string]token.Pos) {
		var ks []string
		for k := range out {
			ks = append(ks, k)
		}
		sort.Strings(ks)
		switch {
		case len(ks) == 0:
			r.OK(R2, key, p.Pos(pos), "taken from the list built by the link-local filter")
		case out["raw"] != token.NoPos || ks[0] == "raw":
			r.Fail(R2, key, p.Pos(pos), "the addresses come from the event's raw address list, not from the list the IPv6-link-local filter built: fe80:: addresses enter the entry")
		default:
			r.Fail(R2, key, p.Pos(pos), "the origin of the addresses cannot be traced to the link-local filter ("+strings.Join(ks, "; ")+")")
		}
	}
	n := 0
	eachInstrWithCallees(p, proc, "mdns", 2, func(in ssa.Instruction) {
		// merge append into entry.Addresses
		if c, ok := in.(*ssa.Call); ok && isBuiltin(in, "append") && isIPSlice(c.Type()) {
			if f, _ := core.LoadedField(c.Call.Args[0]); f != nil && f.Name() == "Addresses" {
				out := map[string]token.Pos{}
				for _, el := range appended(c) {
					if isIPSlice(el.Type()) {
						roots(el, nil, 10, out, map[ssa.Value]bool{})
					} else if sls, ok := elemSlices(el, 4); ok {
						for _, sl := range sls {
							roots(sl, nil, 10, out, map[ssa.Value]bool{})
						}
					} else {
						out["unknown: "+el.String()] = el.Pos()
					}
				}
				n++
				verdict("merged addresses come from the filtered list", in.Pos(), out)
			}
			return
		}
		// Addresses of a new entry
		if f, base, v := core.StoredField(in); f != nil && f.Name() == "Addresses" && isIPSlice(v.Type()) {
			if _, fresh := core.Canon(base).(*ssa.Alloc); !fresh {
				return
			}
			if c, ok := v.(*ssa.Call); ok && isBuiltin(c, "append") {
				if g, _ := core.LoadedField(c.Call.Args[0]); g != nil && g.Name() == "Addresses" {
					return // the merge append's write-back
				}
			}
			out := map[string]token.Pos{}
			roots(v, nil, 10, out, map[ssa.Value]bool{})
			n++
			verdict("addresses of a new entry come from the filtered list in "+p.FnName(in.Parent()), in.Pos(), out)
		}
	})
	if n < 2 {
		r.Fail(R2, "address provenance sites", "", fmt.Sprintf("expected the merge append and the new entry's Addresses store, found %d", n))
	}
}

// checkEntryKeys (C17.R1): within one event, the visible-services map is looked up, stored to and deleted from
// under one and the same key value. A store under a re-formatted key makes later removes and merges of that
// service miss the entry.
func checkEntryKeys(p *core.Program, r *core.Report, proc *ssa.Function, fEntries *types.Var, R1 string) {
	isEntries := func(v ssa.Value) bool { f, _ := core.LoadedField(v); return f == fEntries }
	keyOf := func(in ssa.Instruction) ssa.Value {
		switch x := in.(type) {
		case *ssa.Lookup:
			if isEntries(x.X) {
				return x.Index
			}
		case *ssa.MapUpdate:
			if isEntries(x.Map) {
				return x.Key
			}
		case *ssa.Call:
			if isBuiltin(in, "delete") && isEntries(x.Call.Args[0]) {
				return x.Call.Args[1]
			}
		}
		return nil
	}
	local := func(f *ssa.Function) bool { return p.PkgShort(f) == "mdns" && f.Blocks != nil }
	sites := core.ExpandSites(proc, local, 2, func(in ssa.Instruction) bool { return keyOf(in) != nil })
	keys := map[ssa.Value][]string{}
	for _, s := range sites {
		undo := s.Bind()
		k := core.Canon(keyOf(s.In))
		undo()
		what := "lookup"
		switch s.In.(type) {
		case *ssa.MapUpdate:
			what = "store"
		case *ssa.Call:
			what = "delete"
		}
		keys[k] = append(keys[k], what+"@"+p.Pos(s.In.Pos()))
	}
	key := "one key per event for lookup / store / delete of entries"
	switch {
	case len(sites) < 3:
		r.Fail(R1, key, p.Pos(proc.Pos()), fmt.Sprintf("expected the lookup, the store and the delete of the visible-services map on the resolver path, found %d accesses", len(sites)))
	case len(keys) == 1:
		r.OK(R1, key, p.Pos(proc.Pos()), fmt.Sprintf("%d accesses use the same key value", len(sites)))
	default:
		var parts []string
		for k, v := range keys {
			parts = append(parts, k.Name()+": "+strings.Join(v, ","))
		}
		sort.Strings(parts)
		r.Fail(R1, key, p.Pos(proc.Pos()), "the map is accessed under different key values within one event ("+strings.Join(parts, " | ")+"): an entry stored under a re-formatted SKI is not found by the remove or by the next address update of the same service, so it stays visible after its removal and loses earlier addresses")
	}
}

// freshEntry: v is an entry allocated for this copy - an allocation in the function itself, or the result of a
// package-local helper every return of which is such an allocation.
func freshEntry(p *core.Program, v ssa.Value, depth int) bool {
	v = core.Canon(v)
	if _, isAlloc := v.(*ssa.Alloc); isAlloc {
		return true
	}
	c, ok := v.(*ssa.Call)
	if !ok || depth == 0 {
		return false
	}
	t := c.Call.StaticCallee()
	if t == nil || t.Blocks == nil || p.PkgShort(t) != "mdns" {
		return false
	}
	okAll, any := true, false
	core.EachInstr(t, func(in ssa.Instruction) {
		if ret, isRet := in.(*ssa.Return); isRet && len(ret.Results) == 1 && ret.Block() != t.Recover {
			any = true
			if !freshEntry(p, core.ResultOf(ret, 0), depth-1) {
				okAll = false
			}
		}
	})
	return okAll && any
}

// loopRangeSource: the collection ranged over by the innermost loop around in (map range: the Range operand;
// slice range: the slice whose length bounds the index), nil if not recognisable.
func loopRangeSource(in ssa.Instruction) ssa.Value {
	b := in.Block()
	reach := core.ReachableFrom(b, nil)
	for d := b; d != nil; d = d.Idom() {
		isHdr := false
		for _, pr := range d.Preds {
			if d.Dominates(pr) && reach[pr] {
				isHdr = true
			}
		}
		if !isHdr {
			continue
		}
		// map range: header block calls next on a Range value
		for _, x := range d.Instrs {
			if nx, ok := x.(*ssa.Next); ok {
				if rg, ok := nx.Iter.(*ssa.Range); ok {
					return rg.X
				}
			}
		}
		// slice range: `i < len(s)` with len computed before the loop
		if iff := core.BlockIf(d); iff != nil {
			if bo, ok := iff.Cond.(*ssa.BinOp); ok && bo.Op == token.LSS {
				if s := lenCallOf(bo.Y); s != nil {
					return s
				}
			}
		}
		return nil
	}
	return nil
}

// isEntriesParam: v is (the caller's argument for) a map[string]*api.MdnsEntry parameter.
func isEntriesParam(v ssa.Value) bool {
	v = core.Canon(v)
	pa, ok := v.(*ssa.Parameter)
	if !ok {
		return false
	}
	m, ok := pa.Type().Underlying().(*types.Map)
	if !ok {
		return false
	}
	return strings.HasSuffix(types.TypeString(m.Elem(), nil), "api.MdnsEntry")
}
