package rules

import (
	"fmt"
	"go/constant"
	"go/token"
	"go/types"

	"golang.org/x/tools/go/ssa"

	"shipverif/internal/core"
)

func init() { register("C18", checkC18) }

// evalEnumFunc evaluates a function of one enum parameter (an if/switch chain
// on param == const, returning constants) for a concrete argument.
func evalEnumFunc(fn *ssa.Function, param ssa.Value, arg constant.Value) constant.Value {
	if len(fn.Blocks) == 0 {
		return nil
	}
	b := fn.Blocks[0]
	var path []*ssa.BasicBlock
	for steps := 0; steps < 500; steps++ {
		path = append(path, b)
		last := b.Instrs[len(b.Instrs)-1]
		switch x := last.(type) {
		case *ssa.Return:
			v := core.ResultOf(x, 0)
			for i := 0; i < 8; i++ {
				if phi, ok := v.(*ssa.Phi); ok {
					if nv := core.PhiOnPath(phi, path); nv != nil {
						v = nv
						continue
					}
				}
				break
			}
			if c := core.ConstOf(v); c != nil {
				return c
			}
			// value read from a package-level lookup table indexed by the parameter
			if e, ok := v.(*ssa.Extract); ok && e.Index == 0 {
				v = e.Tuple
			}
			if lk, ok := v.(*ssa.Lookup); ok && core.Canon(lk.Index) == param {
				if val, _, ok := evalTableLookup(lk, arg); ok {
					return val
				}
			}
			return nil
		case *ssa.Jump:
			b = b.Succs[0]
		case *ssa.If:
			// `if v, ok := table[param]; ok`
			if e, ok := x.Cond.(*ssa.Extract); ok && e.Index == 1 {
				if lk, ok := e.Tuple.(*ssa.Lookup); ok && lk.CommaOk && core.Canon(lk.Index) == param {
					if _, present, ok := evalTableLookup(lk, arg); ok {
						if present {
							b = b.Succs[0]
						} else {
							b = b.Succs[1]
						}
						continue
					}
				}
				return nil
			}
			bo, ok := x.Cond.(*ssa.BinOp)
			if !ok || (bo.Op != token.EQL && bo.Op != token.NEQ) {
				return nil
			}
			var c constant.Value
			if core.Canon(bo.X) == param {
				c = core.ConstOf(bo.Y)
			} else if core.Canon(bo.Y) == param {
				c = core.ConstOf(bo.X)
			}
			if c == nil {
				return nil
			}
			eq := constant.Compare(arg, token.EQL, c)
			if bo.Op == token.NEQ {
				eq = !eq
			}
			if eq {
				b = b.Succs[0]
			} else {
				b = b.Succs[1]
			}
		default:
			return nil
		}
	}
	return nil
}

// evalTableLookup evaluates table[arg] for a package-level map that is filled once, in the package initialiser,
// with constant keys and values. Returns (value, present, ok); an absent key yields the zero value.
func evalTableLookup(lk *ssa.Lookup, arg constant.Value) (constant.Value, bool, bool) {
	ld, ok := lk.X.(*ssa.UnOp)
	if !ok || ld.Op != token.MUL {
		return nil, false, false
	}
	g, ok := ld.X.(*ssa.Global)
	if !ok {
		return nil, false, false
	}
	ini := g.Pkg.Func("init")
	if ini == nil {
		return nil, false, false
	}
	var mk ssa.Value
	nstores := 0
	core.EachInstr(ini, func(in ssa.Instruction) {
		if st, ok := in.(*ssa.Store); ok && st.Addr == ssa.Value(g) {
			nstores++
			mk = st.Val
		}
	})
	if nstores != 1 {
		return nil, false, false
	}
	if _, ok := mk.(*ssa.MakeMap); !ok {
		return nil, false, false
	}
	// no other function may write the global or the map
	written := false
	if gCallSitesFor != nil {
		for _, f := range gCallSitesFor.RepoFuncs() {
			if f == ini {
				continue
			}
			core.EachInstr(f, func(in ssa.Instruction) {
				switch x := in.(type) {
				case *ssa.Store:
					if x.Addr == ssa.Value(g) {
						written = true
					}
				case *ssa.MapUpdate:
					if l, ok := x.Map.(*ssa.UnOp); ok && l.X == ssa.Value(g) {
						written = true
					}
				}
			})
		}
	}
	if written {
		return nil, false, false
	}
	var val constant.Value
	present, all := false, true
	core.EachInstr(ini, func(in ssa.Instruction) {
		mu, ok := in.(*ssa.MapUpdate)
		if !ok || mu.Map != mk {
			return
		}
		k, v := core.ConstOf(mu.Key), core.ConstOf(mu.Value)
		if k == nil || v == nil {
			all = false
			return
		}
		if constant.Compare(k, token.EQL, arg) {
			present, val = true, v
		}
	})
	if !all {
		return nil, false, false
	}
	if !present {
		val = constant.MakeInt64(0)
	}
	return val, present, true
}

func checkC18(p *core.Program, r *core.Report) {
	const R1 = "C18.R1 notifications-sequenced"
	const R2 = "C18.R2 notified-equals-stored"
	const R3 = "C18.R3 one-total-mapping"
	r.Explanation = "C18 (pairing-state notifications end with the current state): which notification arrives last is a scheduling question; decided clauses in package hub: (R1) notifications of one SKI's state stream are issued from one sequencing context - a goroutine detached per state change (go func(){ sleep; notify }) can be overtaken by the next one or by a later synchronous notification, so an older state can be delivered after a newer one; (R2) at every notification site the detail passed is the object stored for that SKI at that point (the argument of the preceding SetConnectionStateDetail, or ConnectionStateDetail() of the stored service); (R3) the query (PairingDetailForSki) and the update path map SHIP states through the same function, which is total over the 40 states and gives completed, error, remote-denied and waiting-for-trust four distinct values (evaluated for every constant). Not decided: the outcome of real handshake runs."
	r.Rule(R1, "ServicePairingDetailUpdate is not invoked from a per-event goroutine")
	r.Rule(R2, "the notified detail is the stored one")
	r.Rule(R3, "one mapping function, evaluated on all state constants: total, four distinguished outcomes distinct")

	mUpd := p.IfaceMethod("api", "HubReaderInterface", "ServicePairingDetailUpdate")
	svcFor := p.Method("hub", "Hub", "ServiceForSKI")
	if mUpd == nil || svcFor == nil {
		r.Unresolved(R1, "HubReaderInterface.ServicePairingDetailUpdate / Hub.ServiceForSKI")
		return
	}
	fns := p.FuncsOf("hub")
	det, syn := detachedSites(p, fns, mUpd)
	for _, s := range det {
		r.Fail(R1, "detached notification in "+p.FnName(opRoot(p, goOrigin(p, s.Fn))), p.Pos(s.In.Pos()), "every state change notifies from its own goroutine after a fixed sleep: two changes in quick succession (or a later synchronous notification from Register/Unregister/Cancel) can be delivered in either order, so the application's last notification can show an older state than PairingDetailForSki reports", "change s1 -> goroutine g1 sleeps 500ms; change s2 -> goroutine g2 sleeps 500ms; g2 runs before g1 -> application sees s2 then s1")
	}
	for _, s := range syn {
		r.OK(R1, "synchronous notification in "+p.FnName(s.Fn), p.Pos(s.In.Pos()), "issued in the caller's context")
	}
	if len(det)+len(syn) < 4 {
		r.Fail(R1, "notification sites", "", fmt.Sprintf("expected at least 4 notification sites, found %d", len(det)+len(syn)))
	}
	// ---- R4: what keeps detached notifications in order in practice
	const R4 = "C18.R4 detached-notifications-uniform"
	r.Rule(R4, "a notification issued from a per-change goroutine waits one compile-time constant delay, the same at every such site, and is delivered on every path of the goroutine unless the skipping condition is computed from that SKI's own record: a shorter delay for some states delivers them before the states entered earlier; a hub-wide skip condition drops the final notification of one SKI when another SKI changes")
	var delays []string
	for _, s := range det {
		body := s.Fn
		outer := p.FnName(goOrigin(p, s.Fn))
		c := core.Common(s.In)
		var skiVal ssa.Value
		if c != nil && len(c.Args) > 0 {
			skiVal = resolveGoParam(p, c.Args[0])
		}
		// (a) delays
		key := "delay of the detached notification in " + outer
		nd, bad := 0, ""
		core.EachInstr(body, func(in ssa.Instruction) {
			cc := core.Common(in)
			if cc == nil {
				return
			}
			switch core.CalleeName(cc) {
			case "time.After", "time.Sleep", "time.NewTimer", "time.Tick":
				nd++
				if k := core.ConstOf(core.Canon(cc.Args[0])); k != nil {
					delays = append(delays, k.ExactString())
				} else {
					bad = "the delay before the notification is not a constant (it depends on the state being reported): a state with a shorter delay is delivered before states entered earlier, so an older state arrives after a newer one"
				}
			}
		})
		switch {
		case bad != "":
			r.Fail(R4, key, p.Pos(s.In.Pos()), bad)
		default:
			r.OK(R4, key, p.Pos(s.In.Pos()), fmt.Sprintf("%d constant delay(s)", nd))
		}
		// (b) delivery on every path
		key = "delivery of the detached notification in " + outer
		isNotify := func(y ssa.Instruction) bool { return core.IsInvokeOf(y, mUpd) }
		if core.PathSearch(body, nil, core.IsReturn, isNotify, nil) == nil {
			r.OK(R4, key, p.Pos(s.In.Pos()), "every path of the goroutine delivers the notification")
			continue
		}
		var perSKI func(v ssa.Value, depth int) bool
		perSKI = func(v ssa.Value, depth int) bool {
			v = core.Canon(v)
			if depth == 0 {
				return false
			}
			if core.ConstOf(v) != nil || (skiVal != nil && v == skiVal) {
				return true
			}
			switch x := v.(type) {
			case *ssa.BinOp:
				return perSKI(x.X, depth-1) && perSKI(x.Y, depth-1)
			case *ssa.UnOp:
				if x.Op == token.NOT {
					return perSKI(x.X, depth-1)
				}
				return false
			case *ssa.Lookup:
				return skiVal != nil && core.Canon(x.Index) == skiVal
			case *ssa.Extract:
				return perSKI(x.Tuple, depth-1)
			case *ssa.Phi:
				for _, e := range x.Edges {
					if !perSKI(e, depth-1) {
						return false
					}
				}
				return true
			case *ssa.Call:
				if len(x.Call.Args) > 0 && storedService(p, x.Call.Args[0], 4) {
					return true
				}
				if x.Call.IsInvoke() {
					return perSKI(x.Call.Value, depth-1)
				}
				for _, a := range x.Call.Args {
					if skiVal != nil && core.Canon(a) == skiVal {
						return true
					}
				}
				if len(x.Call.Args) > 0 && x.Call.StaticCallee() != nil && x.Call.StaticCallee().Signature.Recv() != nil {
					return perSKI(x.Call.Args[0], depth-1) && !isHubValue(p, x.Call.Args[0])
				}
				return false
			}
			return false
		}
		why := ""
		for _, b := range body.Blocks {
			if i := core.BlockIf(b); i != nil {
				v, _ := core.Truth(i.Cond, 0)
				if !perSKI(v, 8) {
					why = "a path of the goroutine returns without notifying, decided by a condition that is not computed from this SKI's own record (" + v.String() + "): a change of another SKI suppresses this SKI's final notification"
				}
			}
		}
		if why == "" {
			r.OK(R4, key, p.Pos(s.In.Pos()), "skipped only on a condition of this SKI's own record")
		} else {
			r.Fail(R4, key, p.Pos(s.In.Pos()), why)
		}
	}
	for i := 1; i < len(delays); i++ {
		if delays[i] != delays[0] {
			r.Fail(R4, "detached notifications share one delay", "", "per-change goroutines of different sites wait different constant delays: notifications of one SKI are reordered")
		}
	}
	// ---- R5: no silent change of the stored detail
	const R5 = "C18.R5 every-change-notified"
	r.Rule(R5, "in package hub every modification of a stored pairing detail (SetState / SetError on it, SetConnectionStateDetail) is followed on every path by a ServicePairingDetailUpdate (directly or from the goroutine spawned for it): a change that is not announced leaves the application's last notification different from what PairingDetailForSki reports")
	{
		must := core.NewMust(p, 2, func(in ssa.Instruction) bool { return core.IsInvokeOf(in, mUpd) })
		must.FollowGo = true
		nmod := 0
		for _, fn := range fns {
			fn := fn
			core.EachInstr(fn, func(in ssa.Instruction) {
				c := core.Common(in)
				if c == nil {
					return
				}
				isMod := core.CallsMethodNamed(in, apiPath, "ConnectionStateDetail", "SetState") ||
					core.CallsMethodNamed(in, apiPath, "ConnectionStateDetail", "SetError") ||
					core.CallsMethodNamed(in, apiPath, "ServiceDetails", "SetConnectionStateDetail")
				if !isMod {
					return
				}
				// initialisation of a record that was created in this very function is not a change of a stored detail
				fresh := false
				var walk func(v ssa.Value, d int)
				walk = func(v ssa.Value, d int) {
					if d > 4 || v == nil {
						return
					}
					if cc, ok := core.Canon(v).(*ssa.Call); ok {
						if t := cc.Call.StaticCallee(); t != nil && t.Name() == "NewServiceDetails" {
							fresh = true
							return
						}
						if len(cc.Call.Args) > 0 {
							walk(cc.Call.Args[0], d+1)
						}
					}
				}
				walk(c.Args[0], 0)
				if fresh {
					return
				}
				nmod++
				key := fmt.Sprintf("change of the stored detail in %s (%s) is announced", p.FnName(goOrigin(p, fn)), c.StaticCallee().Name())
				if bad := core.PathSearch(fn, in, core.IsReturn, must.Instr, nil); bad != nil {
					r.Fail(R5, key, p.Pos(in.Pos()), "after this change of the stored pairing detail a path returns without notifying the application: PairingDetailForSki then reports a state the application was never told")
				} else {
					r.OK(R5, key, p.Pos(in.Pos()), "every path from the change reaches a notification")
				}
			})
		}
		if nmod < 3 {
			r.Fail(R5, "modification sites", "", fmt.Sprintf("expected at least 3 sites that modify a stored pairing detail, found %d", nmod))
		}
	}
	// ---- R7: the update path records every state that differs from the stored one; the record is a plain pointer cell
	const R7 = "C18.R7 update-recorded-unless-unchanged"
	r.Rule(R7, "HandleShipHandshakeStateUpdate stores (and notifies) the new detail on every path except the one on which the mapped state equals the stored state (a further veto - e.g. 'never leave Completed' - silences the whole next handshake of that SKI); ServiceDetails.SetConnectionStateDetail stores the pointer it is given and ConnectionStateDetail returns it (the delayed notification holds that very object, in-place updates must stay visible through it)")
	if upd := p.Method("hub", "Hub", "HandleShipHandshakeStateUpdate"); upd == nil {
		r.Unresolved(R7, "hub.Hub.HandleShipHandshakeStateUpdate")
	} else {
		isStore := core.NewMust(p, 2, func(in ssa.Instruction) bool {
			return core.CallsMethodNamed(in, apiPath, "ServiceDetails", "SetConnectionStateDetail")
		})
		sameState := func(b *ssa.BasicBlock, idx int) bool {
			i := core.BlockIf(b)
			if i == nil {
				return false
			}
			v, truth := core.Truth(i.Cond, idx)
			bo, ok := v.(*ssa.BinOp)
			if !ok || (bo.Op != token.EQL && bo.Op != token.NEQ) || core.NamedOf(bo.X.Type()) != connT0(p) {
				return false
			}
			if core.ConstOf(bo.X) != nil || core.ConstOf(bo.Y) != nil {
				return false // a comparison with one particular state is not the "unchanged" test
			}
			return truth == (bo.Op == token.EQL)
		}
		key := "hub.HandleShipHandshakeStateUpdate records every changed state"
		if bad := core.PathSearch(upd, nil, core.IsReturn, func(in ssa.Instruction) bool {
			switch in.(type) {
			case *ssa.Call:
				return isStore.Instr(in)
			}
			return false
		}, sameState); bad != nil {
			r.Fail(R7, key, p.Pos(bad.Pos()), "a path of the update callback returns without storing the new pairing detail although it was not found equal to the stored one: those state changes are neither recorded nor announced, the application's last notification stays at an older state")
		} else {
			r.OK(R7, key, p.Pos(upd.Pos()), "only the unchanged case skips the store")
		}
	}
	if set, get := p.Method("api", "ServiceDetails", "SetConnectionStateDetail"), p.Method("api", "ServiceDetails", "ConnectionStateDetail"); set == nil || get == nil {
		r.Unresolved(R7, "api.ServiceDetails.SetConnectionStateDetail / ConnectionStateDetail")
	} else {
		var fld *types.Var
		core.EachInstr(get, func(in ssa.Instruction) {
			if ret, ok := in.(*ssa.Return); ok && len(ret.Results) == 1 {
				if f, _ := core.LoadedField(core.ResultOf(ret, 0)); f != nil {
					fld = f
				}
			}
		})
		stores := false
		core.EachInstr(set, func(in ssa.Instruction) {
			if f, _, v := core.StoredField(in); f != nil && f == fld && len(set.Params) == 2 && core.Canon(v) == ssa.Value(set.Params[1]) {
				stores = true
			}
		})
		key := "api.ServiceDetails detail cell stores and returns the same pointer"
		if fld != nil && stores {
			r.OK(R7, key, p.Pos(set.Pos()), "setter stores its argument into the field the getter returns")
		} else {
			r.Fail(R7, key, p.Pos(set.Pos()), "SetConnectionStateDetail does not store the pointer it is given (or the getter returns something else): the object a pending delayed notification holds is then not the hub's live record, so a later in-place change (cancel, unregister, register) is invisible to it and the superseded state is delivered last")
		}
	}
	// ---- R8: a dead connection neither stays registered nor keeps reporting
	const R8 = "C18.R8 ended-connections-stop-speaking"
	r.Rule(R8, "every reported connection end removes the connection's registry entry on every path (shared with C11.R3: PairingDetailForSki prefers a registered connection, so a dead one that stays registered freezes the reported state), and whenever the close routine runs the handshake timer is stopped (shared with C04.R3: a leftover timer of a superseded connection later reports a timeout error for the SKI although the newer connection is completed)")
	importRules(p, r, "C11", map[string]string{"C11.R3 registry-identity-atomic": R8}, nil)
	importRules(p, r, "C04", map[string]string{"C04.R3 no-timer-left-armed": R8}, nil)
	// ---- R6: a cancel that was announced as None really ends the pending handshake (shared with C10.R3 / C01.R5)
	const R6 = "C18.R6 cancel-takes-effect"
	r.Rule(R6, "the abort entry of the SHIP connection ends terminal from both waiting states: CancelPairingWithSKI announces None, so a connection that silently keeps waiting makes the hub report InProgress (and later Completed) after the application's last notification said None")
	checkAbortEntry(p, r, R6)
	// ---- R2
	stored := func(v ssa.Value, site core.Site) (bool, string) {
		v = resolveGoParam(p, v)
		// (a) ConnectionStateDetail() of a stored service
		if c, ok := v.(*ssa.Call); ok && core.CallsMethodNamed(c, apiPath, "ServiceDetails", "ConnectionStateDetail") {
			if storedService(p, c.Call.Args[0], 4) {
				return true, "ConnectionStateDetail() of the stored service"
			}
			return false, "the detail comes from a ServiceDetails value that is not the hub's stored record"
		}
		// (b) the value handed to SetConnectionStateDetail earlier in the enclosing function
		outer := goOrigin(p, site.Fn)
		found := false
		core.EachInstr(outer, func(in ssa.Instruction) {
			c := core.Common(in)
			if c != nil && core.CallsMethodNamed(in, apiPath, "ServiceDetails", "SetConnectionStateDetail") && len(c.Args) == 2 && core.Canon(c.Args[1]) == v {
				if storedService(p, c.Args[0], 4) {
					found = true
				}
			}
		})
		if found {
			return true, "the value just stored with SetConnectionStateDetail"
		}
		return false, "the notified detail is neither the stored object nor the one just stored"
	}
	userOps := map[string]bool{}
	if hi := p.Named("api", "HubInterface"); hi != nil {
		it := hi.Underlying().(*types.Interface)
		for i := 0; i < it.NumMethods(); i++ {
			userOps[it.Method(i).Name()] = true
		}
	}
	for _, s := range append(append([]core.Site{}, det...), syn...) {
		c := core.Common(s.In)
		key := "detail argument in " + p.FnName(s.Fn)
		if gCallSites[s.Fn] != nil && goOrigin(p, s.Fn) != core.Outermost(s.Fn) {
			key = "detail argument in " + p.FnName(goOrigin(p, s.Fn)) + "$1"
		}
		ok, why := stored(c.Args[1], s)
		// user operations update the stored detail object in place: a delayed notification of an earlier
		// state that is still pending holds that very object and therefore shows the newer state too
		if ok && s.Fn.Parent() == nil && userOps[s.Fn.Name()] {
			if call, isCall := core.Canon(c.Args[1]).(*ssa.Call); !isCall || !core.CallsMethodNamed(call, apiPath, "ServiceDetails", "ConnectionStateDetail") {
				ok, why = false, "a user operation replaces the stored detail object instead of updating it in place: a delayed notification of the previous state that is still pending keeps the old object and is delivered after this newer one"
			}
		}
		if ok {
			r.OK(R2, key, p.Pos(s.In.Pos()), why)
		} else {
			r.Fail(R2, key, p.Pos(s.In.Pos()), why+": the application is told a state the hub does not report when asked")
		}
	}
	// ---- R3
	stateT := p.Named("model", "ShipMessageExchangeState")
	connT := p.Named("api", "ConnectionState")
	if stateT == nil || connT == nil {
		r.Unresolved(R3, "model.ShipMessageExchangeState / api.ConnectionState")
		return
	}
	var mappers []*ssa.Function
	for _, fn := range fns {
		if fn.Signature.Results().Len() != 1 || core.NamedOf(fn.Signature.Results().At(0).Type()) != connT {
			continue
		}
		for _, pa := range fn.Params {
			if core.NamedOf(pa.Type()) == stateT {
				mappers = append(mappers, fn)
			}
		}
	}
	if len(mappers) != 1 {
		r.Fail(R3, "mapping function", "", fmt.Sprintf("expected exactly one SHIP-state -> ConnectionState mapping function in hub, found %d", len(mappers)))
		return
	}
	m := mappers[0]
	for _, user := range []string{"PairingDetailForSki", "HandleShipHandshakeStateUpdate"} {
		fn := p.Method("hub", "Hub", user)
		key := user + " uses " + m.Name()
		uses := false
		if fn != nil {
			eachInstrWithCallees(p, fn, "hub", 2, func(in ssa.Instruction) {
				if c := core.Common(in); c != nil && c.StaticCallee() == m {
					uses = true
				}
			})
		}
		if uses {
			r.OK(R3, key, p.Pos(m.Pos()), "query and update share the mapping")
		} else {
			r.Fail(R3, key, p.Pos(m.Pos()), "query and update path no longer map SHIP states through the same function")
		}
	}
	var param ssa.Value
	for _, pa := range m.Params {
		if core.NamedOf(pa.Type()) == stateT {
			param = pa
		}
	}
	out := map[string]string{}
	total := true
	consts := p.ConstsOfType("model", stateT)
	for _, c := range consts {
		v := evalEnumFunc(m, param, c.Val())
		if v == nil {
			total = false
			r.Fail(R3, "mapping of "+c.Name(), p.Pos(m.Pos()), "the mapping function could not be evaluated for this state (not a switch on the state returning constants)")
			continue
		}
		out[c.Name()] = v.ExactString()
	}
	r.Counts["states_mapped"] = len(out)
	if total && len(out) == len(consts) {
		r.OK(R3, "mapping total over all states", p.Pos(m.Pos()), fmt.Sprintf("%d states evaluated", len(out)))
	}
	named := func(n string) string {
		if c := p.Const("api", n); c != nil {
			return c.Val().ExactString()
		}
		return "?"
	}
	want := map[string]string{
		"SmeStateComplete": named("ConnectionStateCompleted"), "SmeStateError": named("ConnectionStateError"),
		"SmeHelloStateRemoteAbortDone": named("ConnectionStateRemoteDeniedTrust"), "SmeHelloStateRejected": named("ConnectionStateRemoteDeniedTrust"),
		"SmeHelloStatePendingListen": named("ConnectionStateReceivedPairingRequest"), "SmeHelloStateOk": named("ConnectionStateTrusted"),
	}
	for _, k := range sortedKeys(want) {
		key := "mapping of " + k
		if out[k] == want[k] && want[k] != "?" {
			r.OK(R3, key, p.Pos(m.Pos()), "maps to the distinguished pairing state")
		} else {
			r.Fail(R3, key, p.Pos(m.Pos()), fmt.Sprintf("%s maps to ConnectionState %s, expected %s: the application cannot tell this stable outcome apart", k, out[k], want[k]))
		}
	}
	// Queued doubles as the hub's "connection wanted" marker (dial filters accept paired OR queued): apart from
	// the state a connection starts in, no handshake state may map to it
	{
		key := "only the initial state maps to Queued"
		q := named("ConnectionStateQueued")
		var bad []string
		for _, c := range consts {
			if out[c.Name()] == q && c.Name() != "CmiStateInitStart" {
				bad = append(bad, c.Name())
			}
		}
		if len(bad) == 0 && q != "?" {
			r.OK(R3, key, p.Pos(m.Pos()), "no later state stores the wanted marker")
		} else {
			r.Fail(R3, key, p.Pos(m.Pos()), fmt.Sprintf("%v map(s) to ConnectionStateQueued: the state-update callback stores it in the service record, and the dial filters treat a queued record like a registered one - the hub then dials a SKI nobody registered", bad))
		}
	}
	_ = types.Typ
	const R9 = "C18.R9 one-state-record-per-ski"
	r.Rule(R9, "every access to the per-SKI service record uses the normalised SKI (shared with C15.R1): a lookup under another spelling creates a fresh record that replaces the stored pairing state, so PairingDetailForSki reports None after the last notification said otherwise - and no notification tells the application")
	importRules(p, r, "C15", map[string]string{"C15.R1 normalise-before-use": R9}, nil)
}

// isHubValue: v is (a pointer to) the Hub itself or one of its fields - hub-wide, not per-SKI state.
func isHubValue(p *core.Program, v ssa.Value) bool {
	hub := p.Named("hub", "Hub")
	v = core.Canon(v)
	if fa, ok := v.(*ssa.FieldAddr); ok {
		return core.NamedOf(fa.X.Type()) == hub
	}
	if f, b := core.LoadedField(v); f != nil && core.NamedOf(b.Type()) == hub {
		return true
	}
	return core.NamedOf(v.Type()) == hub
}

func connT0(p *core.Program) *types.Named { return p.Named("api", "ConnectionState") }
