package rules

import (
	"fmt"
	"go/token"
	"go/types"
	"strings"

	"golang.org/x/tools/go/ssa"

	"shipverif/internal/core"
)

func init() { register("C19", checkC19) }

func checkC19(p *core.Program, r *core.Report) { c19(p, r, "") }

// c19 runs the C19 rules; with only != "" it decides just the re-announce rule (R1) and reports it under
// that rule id (shared with C16.R6: what is on the network after a reconnect is the current TXT record).
func c19(p *core.Program, r *core.Report, only string) {
	ensureCallSites(p)
	R1 := "C19.R1 reannounce-reads-current-data"
	if only != "" {
		R1 = only
	}
	const R2 = "C19.R2 manual-shutdown-gate-atomic"
	const R3 = "C19.R3 bookkeeping"
	const R4 = "C19.R4 single-listener"
	const R5 = "C19.R5 shutdown-handshake-not-behind-lock"
	if only == "" {
		r.Explanation = "C19 (Avahi reconnect without stale or lost announcements): fault sequences are not static; decided clauses in mdns/avahi: (R1) the arguments of the Announce call on the reconnect path come from a load of the stored announcement data made under the provider mutex after the successful restart in the same loop iteration, not from data captured at disconnect time; (R2) the disconnect callback and the reconnect loop read the manual-shutdown flag under the mutex, and no store of false into that flag is reachable from the reconnect goroutine (only the public Start may clear it); (R3) Announce records the request before any early return, Unannounce clears it on all paths, Shutdown sets the manual-shutdown flag before it first releases the mutex; (R4) the listener goroutine is started only on the not-running edge with the flag set before the spawn, under the mutex; (R5) the goroutine that Shutdown hands its stop signal to (blocking send while holding the provider mutex) never acquires that mutex, so the handshake cannot deadlock. Not decided: fault sequences as such, re-resolution after reconnect."
		r.Rule(R1, "Announce arguments on the reconnect path derive from a locked load of mdnsServiceData that is dominated by the restart call")
		r.Rule(R2, "manualShutdown read under mux in callback/reconnect loop; no manualShutdown=false store reachable from the reconnect goroutine")
		r.Rule(R3, "Announce stores mdnsServiceData before any return; Unannounce clears on all paths; Shutdown sets manualShutdown before the first Unlock")
		r.Rule(R4, "go listener guarded by !listenerRunning, flag stored true before the spawn under mux")
		r.Rule(R5, "locks held during a blocking channel hand-over are never acquired by the receiving goroutine")
	}

	prov := p.Named("mdns", "AvahiProvider")
	fData := p.Field("mdns", "AvahiProvider", "mdnsServiceData")
	fManual := p.Field("mdns", "AvahiProvider", "manualShutdown")
	fListener := p.Field("mdns", "AvahiProvider", "listenerRunning")
	announce := p.Method("mdns", "AvahiProvider", "Announce")
	unannounce := p.Method("mdns", "AvahiProvider", "Unannounce")
	shutdown := p.Method("mdns", "AvahiProvider", "Shutdown")
	startPub := p.Method("mdns", "AvahiProvider", "Start")
	if prov == nil || fData == nil || fManual == nil || fListener == nil || announce == nil || unannounce == nil || shutdown == nil || startPub == nil {
		r.Unresolved(R1, "mdns.AvahiProvider anchors")
		return
	}
	const muxID = "mdns.AvahiProvider.mux"
	fns := p.FuncsOf("mdns")
	li := core.AnalyzeLocks(fns, func(fn *ssa.Function) bool { return fn.Object() != nil && fn.Object().Exported() })
	// disconnect callback: the bound method handed to ServerInterface.Setup
	var callback *ssa.Function
	for _, fn := range fns {
		core.EachInstr(fn, func(in ssa.Instruction) {
			c := core.Common(in)
			if c == nil || !c.IsInvoke() || c.Method.Name() != "Setup" {
				return
			}
			for _, a := range c.Args {
				if ct, ok := a.(*ssa.ChangeType); ok {
					a = ct.X
				}
				if mc, ok := a.(*ssa.MakeClosure); ok {
					if bf, ok := mc.Fn.(*ssa.Function); ok {
						// bound method wrapper: find the real method
						core.EachInstr(bf, func(y ssa.Instruction) {
							if cc := core.Common(y); cc != nil && cc.StaticCallee() != nil && p.PkgShort(cc.StaticCallee()) == "mdns" {
								callback = cc.StaticCallee()
							}
						})
					}
				}
			}
		})
	}
	if callback == nil {
		r.Unresolved(R1, "avahi disconnect callback (argument of ServerInterface.Setup)")
		return
	}
	var reconnect *ssa.Function
	core.EachInstr(callback, func(in ssa.Instruction) {
		if g, ok := in.(*ssa.Go); ok {
			if t := g.Call.StaticCallee(); t != nil {
				reconnect = t
			} else if cl := core.ClosureArg(g.Call.Value); cl != nil {
				reconnect = cl
			}
		}
	})
	if reconnect == nil {
		r.Unresolved(R1, "reconnect goroutine started by the disconnect callback")
		return
	}
	// functions reachable from the reconnect goroutine by static calls (within mdns)
	reach := map[*ssa.Function]bool{}
	var visit func(f *ssa.Function)
	visit = func(f *ssa.Function) {
		if f == nil || reach[f] || p.PkgShort(f) != "mdns" || f.Blocks == nil {
			return
		}
		reach[f] = true
		core.EachInstr(f, func(in ssa.Instruction) {
			if c := core.Common(in); c != nil {
				visit(c.StaticCallee())
				if cl := core.ClosureArg(c.Value); cl != nil {
					visit(cl)
				}
			}
		})
	}
	visit(reconnect)
	// restart call: call in the reconnect function whose callee (transitively) invokes Setup
	maySetup := core.NewMay(p, false, func(in ssa.Instruction) bool {
		c := core.Common(in)
		return c != nil && c.IsInvoke() && c.Method.Name() == "Setup"
	})
	var restartCalls []ssa.Instruction
	core.EachInstr(reconnect, func(in ssa.Instruction) {
		if _, ok := in.(*ssa.Call); ok && maySetup.Instr(in) {
			restartCalls = append(restartCalls, in)
		}
	})
	// ---- R1
	nAnn := 0
	for f := range reach {
		core.EachInstr(f, func(in ssa.Instruction) {
			c := core.Common(in)
			if c == nil || c.StaticCallee() != announce || f == announce {
				return
			}
			nAnn++
			key := "re-announce in " + p.FnName(f)
			ok := len(c.Args) == 4
			why := ""
			for _, arg := range c.Args[1:] {
				// arg = load of field of (*mdnsServiceData) value d; d must be a locked load of a.mdnsServiceData after the restart
				var d ssa.Value
				if fl, base := core.LoadedField(arg); fl != nil {
					d = base
				}
				if d == nil {
					ok, why = false, "an argument is not a field of the stored announcement data"
					continue
				}
				fl, _ := core.LoadedField(d)
				ld, isInstr := core.Canon(d).(ssa.Instruction)
				if fl != fData || !isInstr {
					ok, why = false, "the announcement data does not come from a load of the provider's stored data (captured/stale value)"
					continue
				}
				if ld.Parent() != f {
					ok, why = false, "the stored data is loaded in another function invocation"
					continue
				}
				if !li.Must[ld][muxID] {
					ok, why = false, "the stored data is read without the provider mutex"
					continue
				}
				dom := false
				for _, rc := range restartCalls {
					if core.Dominates(rc, ld) {
						dom = true
					}
				}
				if f == reconnect && !dom {
					ok, why = false, "the stored data is read before the restart: an Announce/Unannounce during the outage is ignored"
				}
			}
			if ok {
				r.OK(R1, key, p.Pos(in.Pos()), "current data, read under mux after the restart")
			} else {
				r.Fail(R1, key, p.Pos(in.Pos()), "the reconnect path re-announces with data that is not the currently stored request: "+why)
			}
		})
	}
	if nAnn == 0 {
		r.Fail(R1, "re-announce", p.Pos(reconnect.Pos()), "the reconnect path never re-announces: an active announcement is lost after a daemon restart")
	}
	if len(restartCalls) == 0 {
		r.Fail(R1, "restart call", p.Pos(reconnect.Pos()), "the reconnect goroutine never restarts the avahi connection")
	}
	// the re-announce is conditional on data being present (announcement active)
	if only != "" {
		return
	}
	// ---- R2
	// the callback, the reconnect loop and the package-local helpers they call synchronously
	readers := []*ssa.Function{}
	{
		seenR := map[*ssa.Function]bool{}
		var add func(f *ssa.Function, d int)
		add = func(f *ssa.Function, d int) {
			if f == nil || seenR[f] || f.Blocks == nil || p.PkgShort(f) != "mdns" {
				return
			}
			seenR[f] = true
			readers = append(readers, f)
			if d == 0 {
				return
			}
			core.EachInstr(f, func(in ssa.Instruction) {
				if c, ok := in.(*ssa.Call); ok {
					if t := c.Call.StaticCallee(); t != nil && t.Signature.Recv() != nil && core.NamedOf(recvType(t)) == prov && t.Name() != "Announce" && t.Name() != "Unannounce" {
						add(t, d-1)
					}
				}
			})
		}
		add(callback, 1)
		add(reconnect, 1)
	}
	for _, f := range readers {
		f := f
		core.EachInstr(f, func(in ssa.Instruction) {
			u, ok := in.(*ssa.UnOp)
			if !ok || u.Op != token.MUL {
				return
			}
			fa, ok := u.X.(*ssa.FieldAddr)
			if !ok || core.FieldVar(fa) != fManual {
				return
			}
			key := "manualShutdown read in " + p.FnName(f)
			if li.Must[in][muxID] {
				r.OK(R2, key, p.Pos(in.Pos()), "under mux")
			} else {
				r.Fail(R2, key, p.Pos(in.Pos()), "the manual-shutdown flag is read without the provider mutex")
			}
		})
	}
	// callback must test the flag before spawning
	manualFalseEdge := func(b *ssa.BasicBlock, idx int) bool {
		i := core.BlockIf(b)
		if i == nil {
			return false
		}
		v, truth := core.Truth(i.Cond, idx)
		f, _ := core.LoadedField(v)
		return f == fManual && !truth
	}
	core.EachInstr(callback, func(in ssa.Instruction) {
		if _, ok := in.(*ssa.Go); ok {
			key := "reconnect spawn in " + p.FnName(callback) + " gated by manualShutdown"
			if core.Guarded(in, core.LiftEdge(manualFalseEdge, func(f *ssa.Function) bool { return p.PkgShort(f) == "mdns" }, 2)) {
				r.OK(R2, key, p.Pos(in.Pos()), "only when not shut down manually")
			} else {
				r.Fail(R2, key, p.Pos(in.Pos()), "the reconnect loop is started without checking for a manual shutdown")
			}
		}
	})
	// restart in the loop must be gated (in callee or caller) by the flag under the same lock hold: the callee that sets up must check
	nfalse := 0
	for f := range reach {
		core.EachInstr(f, func(in ssa.Instruction) {
			fl, _, v := core.StoredField(in)
			if fl != fManual || !isBoolConst(v, false) {
				return
			}
			nfalse++
			r.Fail(R2, "manualShutdown cleared in "+p.FnName(f)+" (reachable from reconnect)", p.Pos(in.Pos()), "the reconnect goroutine can clear the manual-shutdown flag: a Shutdown between the loop's check and the restart is undone, browsing and announcing resume after a manual shutdown")
		})
	}
	if nfalse == 0 {
		r.OK(R2, "manualShutdown never cleared from the reconnect goroutine", p.Pos(reconnect.Pos()), fmt.Sprintf("%d functions reachable from the reconnect goroutine, none stores false", len(reach)))
	}
	// the restart itself re-checks the flag under the lock it starts under
	for _, rc := range restartCalls {
		callee := core.Common(rc).StaticCallee()
		key := "restart " + p.FnName(callee) + " re-checks manualShutdown under mux"
		okc := false
		if callee != nil {
			core.EachInstr(callee, func(in ssa.Instruction) {
				u, ok := in.(*ssa.UnOp)
				if ok && u.Op == token.MUL {
					if fa, ok := u.X.(*ssa.FieldAddr); ok && core.FieldVar(fa) == fManual && li.Must[in][muxID] {
						// and the setup is guarded by the not-shutdown edge
						core.EachInstr(callee, func(y ssa.Instruction) {
							if _, isCall := y.(*ssa.Call); isCall && maySetup.Instr(y) && core.Guarded(y, manualFalseEdge) {
								okc = true
							}
						})
					}
				}
			})
		}
		if okc {
			r.OK(R2, key, p.Pos(rc.Pos()), "check and restart in one critical section")
		} else {
			r.Fail(R2, key, p.Pos(rc.Pos()), "the restart is not guarded by a manual-shutdown check made in the same critical section")
		}
	}
	// ---- R3 (the bodies of Announce / Unannounce may be lock-free helpers the exported methods forward to)
	storesReq := core.NewMust(p, 2, func(in ssa.Instruction) bool {
		fl, _, v := core.StoredField(in)
		return fl == fData && !core.IsNilConst(v)
	})
	anyStore := false
	eachInstrWithCallees(p, announce, "mdns", 2, func(in ssa.Instruction) {
		if fl, _, v := core.StoredField(in); fl == fData && !core.IsNilConst(v) {
			anyStore = true
		}
	})
	key := "Announce records the request before any return"
	if !anyStore {
		r.Fail(R3, key, p.Pos(announce.Pos()), "Announce never stores the announcement data")
	} else if bad := core.MustPass(announce, nil, storesReq.Instr, nil); bad != nil {
		r.Fail(R3, key, p.Pos(bad.Pos()), "Announce can return (e.g. with an error while the daemon is away) without having recorded the request: after the reconnect the old or no announcement is made")
	} else {
		r.OK(R3, key, p.Pos(announce.Pos()), "stored on every path")
	}
	key = "Unannounce clears the request on all paths"
	clearsReq := core.NewMust(p, 2, func(in ssa.Instruction) bool {
		fl, _, v := core.StoredField(in)
		return fl == fData && core.IsNilConst(v)
	})
	if bad := core.MustPass(unannounce, nil, clearsReq.Instr, nil); bad != nil {
		r.Fail(R3, key, p.Pos(bad.Pos()), "Unannounce can return without clearing the stored request: it is announced again after a reconnect")
	} else {
		r.OK(R3, key, p.Pos(unannounce.Pos()), "cleared on every path")
	}
	key = "Shutdown clears the stored request"
	isDaemonTeardown := func(in ssa.Instruction) bool {
		c := core.Common(in)
		return c != nil && c.IsInvoke() && c.Method.Name() == "Shutdown" && c.Method.Pkg() != nil && strings.Contains(c.Method.Pkg().Path(), "avahi")
	}
	if bad := core.PathSearch(shutdown, nil, isDaemonTeardown, clearsReq.Instr, nil); bad != nil {
		r.Fail(R3, key, p.Pos(bad.Pos()), "a path of Shutdown tears the daemon connection down with the announce request still stored (the entry group is freed but the request is kept): a reconnect that is in flight, or the next Start followed by a daemon restart, announces the service of the run that was shut down")
	} else {
		r.OK(R3, key, p.Pos(shutdown.Pos()), "cleared (directly or through Unannounce) before the daemon connection is torn down")
	}
	key = "Shutdown sets manualShutdown before releasing mux"
	isSet := func(in ssa.Instruction) bool {
		fl, _, v := core.StoredField(in)
		return fl == fManual && isBoolConst(v, true)
	}
	isUnlock := func(in ssa.Instruction) bool {
		id, op, _ := core.MutexOp(in)
		return op < 0 && id == muxID
	}
	if bad := core.PathSearch(shutdown, nil, func(in ssa.Instruction) bool { return isUnlock(in) || core.IsReturn(in) }, isSet, nil); bad != nil {
		r.Fail(R3, key, p.Pos(bad.Pos()), "Shutdown releases the mutex (or returns) before the manual-shutdown flag is set")
	} else {
		r.OK(R3, key, p.Pos(shutdown.Pos()), "flag set first")
	}
	// ---- R6: the browser is freed before the listener is told to stop
	const R6 = "C19.R6 browser-freed-before-listener-stops"
	r.Rule(R6, "in Shutdown the service browser is freed (ServiceBrowserFree) before the stop signal is handed to the listener: go-avahi dispatches browse results with a blocking send while holding its server mutex, which ServiceBrowserFree also takes - once the listener is gone a pending result blocks for ever with that mutex held and Shutdown hangs in ServiceBrowserFree")
	{
		isFree := func(in ssa.Instruction) bool {
			c := core.Common(in)
			return c != nil && c.IsInvoke() && c.Method.Name() == "ServiceBrowserFree"
		}
		nsend := 0
		mdnsLocal := func(f *ssa.Function) bool { return p.PkgShort(f) == "mdns" && f.Blocks != nil }
		for _, cs := range core.ExpandSites(shutdown, mdnsLocal, 2, func(in ssa.Instruction) bool {
			snd, ok := in.(*ssa.Send)
			if !ok {
				return false
			}
			f, b := core.LoadedField(snd.Chan)
			return f != nil && core.NamedOf(b.Type()) == prov
		}) {
			in := cs.In
			nsend++
			key := "stop signal of the listener in " + p.FnName(shutdown)
			if precededBy(p, in.Parent(), in, isFree, 2) {
				r.OK(R6, key, p.Pos(in.Pos()), "sent after the browser was freed")
			} else {
				r.Fail(R6, key, p.Pos(in.Pos()), "the listener is stopped before the service browser is freed: a browse result dispatched in between blocks inside go-avahi with its server mutex held, and ServiceBrowserFree - and with it Shutdown, holding the provider mutex - never returns")
			}
		}
		if nsend == 0 {
			r.Fail(R6, "stop signal of the listener", p.Pos(shutdown.Pos()), "Shutdown no longer hands a stop signal to the listener")
		}
	}
	// ---- R7: the manager's "announcement active" flag follows the provider's Unannounce only
	const R7 = "C19.R7 announcement-flag-cleared-only-by-unannounce"
	r.Rule(R7, "MdnsManager.isAnnounced is set to false only in a function that calls the provider's Unannounce: the provider keeps a failed announce request and replays it after the daemon is back, while SetAutoAccept and UnannounceMdnsEntry are gated on this flag - clearing it when an announce attempt fails drops every later change of the same outage, and the stale record is what gets announced")
	if fAnn := p.Field("mdns", "MdnsManager", "isAnnounced"); fAnn == nil {
		r.Unresolved(R7, "mdns.MdnsManager.isAnnounced")
	} else {
		mUn := p.IfaceMethod("api", "MdnsProviderInterface", "Unannounce")
		// setters of the flag: functions that store their bool parameter into it
		setters := map[*ssa.Function]int{}
		for _, fn := range fns {
			core.EachInstr(fn, func(in ssa.Instruction) {
				if f, _, v := core.StoredField(in); f == fAnn {
					if pa, ok := core.Canon(v).(*ssa.Parameter); ok {
						for i, q := range fn.Params {
							if q == pa {
								setters[fn] = i
							}
						}
					}
				}
			})
		}
		nclear := 0
		for _, fn := range fns {
			fn := fn
			if _, isSetter := setters[fn]; isSetter {
				continue
			}
			callsUn := false
			core.EachInstr(fn, func(in ssa.Instruction) {
				if mUn != nil && core.IsInvokeOf(in, mUn) {
					callsUn = true
				}
			})
			core.EachInstr(fn, func(in ssa.Instruction) {
				clears := false
				if f, _, v := core.StoredField(in); f == fAnn && isBoolConst(v, false) {
					clears = true
				}
				if c := core.Common(in); c != nil && c.StaticCallee() != nil {
					if idx, ok := setters[c.StaticCallee()]; ok && idx < len(c.Args) && isBoolConst(c.Args[idx], false) {
						clears = true
					}
				}
				if !clears {
					return
				}
				nclear++
				key := "isAnnounced cleared in " + p.FnName(fn)
				if callsUn {
					r.OK(R7, key, p.Pos(in.Pos()), "together with the provider's Unannounce")
				} else {
					r.Fail(R7, key, p.Pos(in.Pos()), "the announcement-active flag is cleared without unannouncing at the provider (e.g. on a failed announce): the provider still holds and replays the request, but later SetAutoAccept / UnannounceMdnsEntry calls are ignored")
				}
			})
		}
		if nclear == 0 {
			r.Fail(R7, "isAnnounced clear sites", "", "the announcement-active flag is never cleared")
		}
	}
	// ---- R8: once avahi is in use it reconnects; every resolved add reaches the callback
	const R8 = "C19.R8 reconnects-and-reports-again"
	r.Rule(R8, "every successful return of the provider's start function has set autoReconnect (by the parameter being true or by storing true) - a provider that was started with autoReconnect=false, the default selection path, must still resume after a daemon restart; and the add path of the listener calls the resolve callback on every path that does not return an error - a 'seen before, skip' memo survives the reconnect (a restarted daemon sends no removes) and drops every re-resolved service")
	if fAuto := p.Field("mdns", "AvahiProvider", "autoReconnect"); fAuto == nil {
		r.Unresolved(R8, "mdns.AvahiProvider.autoReconnect")
	} else {
		for _, fn := range fns {
			fn := fn
			if core.NamedOf(recvType(fn)) != prov || fn.Signature.Results().Len() != 1 {
				continue
			}
			if b, ok := fn.Signature.Results().At(0).Type().Underlying().(*types.Basic); !ok || b.Kind() != types.Bool {
				continue
			}
			// the start function: stores its bool parameter into autoReconnect
			var param ssa.Value
			core.EachInstr(fn, func(in ssa.Instruction) {
				if f, _, v := core.StoredField(in); f == fAuto {
					if pa, ok := core.Canon(v).(*ssa.Parameter); ok {
						param = pa
					}
					if bo, ok := v.(*ssa.BinOp); ok {
						if pa, ok := core.Canon(bo.X).(*ssa.Parameter); ok {
							param = pa
						}
					}
					if phi, ok := v.(*ssa.Phi); ok {
						for _, e := range phi.Edges {
							if pa, ok := core.Canon(e).(*ssa.Parameter); ok {
								param = pa
							}
						}
					}
				}
			})
			if param == nil {
				for _, pa := range fn.Params {
					if b, ok := pa.Type().Underlying().(*types.Basic); ok && b.Kind() == types.Bool && strings.Contains(strings.ToLower(pa.Name()), "reconnect") {
						param = pa
					}
				}
			}
			if param == nil {
				continue
			}
			setsTrue := func(in ssa.Instruction) bool {
				f, _, v := core.StoredField(in)
				return f == fAuto && isBoolConst(v, true)
			}
			paramTrue := func(b *ssa.BasicBlock, idx int) bool {
				i := core.BlockIf(b)
				if i == nil {
					return false
				}
				v, truth := core.Truth(i.Cond, idx)
				return core.Canon(v) == param && truth
			}
			key := "successful " + p.FnName(fn) + " leaves autoReconnect on"
			bad := core.PathSearch(fn, nil, func(in ssa.Instruction) bool {
				ret, ok := in.(*ssa.Return)
				return ok && len(ret.Results) == 1 && isBoolConst(core.ResultOf(ret, 0), true)
			}, setsTrue, paramTrue)
			if bad != nil {
				r.Fail(R8, key, p.Pos(bad.Pos()), "a successful start can return with autoReconnect still false (started with autoReconnect=false): the disconnect callback then ignores a daemon restart - browsing never resumes and an active announcement is never made again")
			} else {
				r.OK(R8, key, p.Pos(fn.Pos()), "true parameter or an explicit store of true on every successful path")
			}
		}
	}
	// the add path reaches the resolve callback
	for _, fn := range fns {
		fn := fn
		if core.NamedOf(recvType(fn)) != prov || fn.Signature.Results().Len() != 1 || types.TypeString(fn.Signature.Results().At(0).Type(), nil) != "error" {
			continue
		}
		var cbParam ssa.Value
		for _, pa := range fn.Params {
			if core.TypeIs(pa.Type(), apiPath, "MdnsResolveCB") {
				cbParam = pa
			}
		}
		if cbParam == nil {
			continue
		}
		// only the function that itself stores into the per-service element table is the add path
		stores := false
		core.EachInstr(fn, func(in ssa.Instruction) {
			if mu, ok := in.(*ssa.MapUpdate); ok {
				if f, b := core.LoadedField(mu.Map); f != nil && core.NamedOf(b.Type()) == prov {
					stores = true
				}
			}
		})
		if !stores {
			continue
		}
		callsCB := func(in ssa.Instruction) bool {
			c := core.Common(in)
			return c != nil && !c.IsInvoke() && c.StaticCallee() == nil && core.Canon(c.Value) == cbParam
		}
		key := "add path " + p.FnName(fn) + " reports every resolved service"
		bad := core.PathSearch(fn, nil, func(in ssa.Instruction) bool {
			ret, ok := in.(*ssa.Return)
			return ok && len(ret.Results) == 1 && core.IsNilConst(core.ResultOf(ret, 0))
		}, callsCB, nil)
		if bad != nil {
			r.Fail(R8, key, p.Pos(bad.Pos()), "the add path can return success without calling the resolve callback (a 'same as stored, skip' shortcut): after a reconnect the stored table is still filled, so every re-resolved service - also one whose address changed - is silently dropped")
		} else {
			r.OK(R8, key, p.Pos(fn.Pos()), "every successful return is preceded by the callback")
		}
	}
	r.Floor(R8, 2)
	// ---- R9: the manager calls into the provider with its own mutex released
	const R9 = "C19.R9 provider-calls-are-open-calls"
	r.Rule(R9, "every call of a provider method (Start, Shutdown, Announce, Unannounce) from the mDNS manager is made with no manager mutex held on any path: the provider's Shutdown waits, under the provider mutex, for the listener goroutine, and the listener delivers browse results into the manager (which takes the manager mutex); a manager that holds its mutex while it waits for the provider mutex closes that cycle and shutdown never returns")
	{
		provI := p.Named("api", "MdnsProviderInterface")
		if provI == nil {
			r.Unresolved(R9, "api.MdnsProviderInterface")
		} else {
			checkOpenCalls(p, r, R9, fns, "mdns.MdnsManager.", func(in ssa.Instruction) string {
				c := core.Common(in)
				if c == nil || !c.IsInvoke() {
					return ""
				}
				if core.NamedOf(c.Value.Type()) == provI {
					return "provider." + c.Method.Name()
				}
				return ""
			})
			r.Floor(R9, 3)
		}
	}
	// ---- R10: a wait inside a retry loop is armed inside the loop
	const R10 = "C19.R10 retry-wait-rearmed"
	r.Rule(R10, "a receive from the channel of a *time.Timer that sits in a loop has the timer's creation or Reset in the same loop (time.After per iteration is fine): a timer created once before the loop fires once - after the first failed attempt the reconnect goroutine blocks for ever, never resumes browsing or the announcement and no longer sees a manual shutdown")
	{
		nw := 0
		for _, fn := range fns {
			fn := fn
			core.EachInstr(fn, func(in ssa.Instruction) {
				var ch ssa.Value
				switch x := in.(type) {
				case *ssa.UnOp:
					if x.Op == token.ARROW {
						ch = x.X
					}
				case *ssa.Select:
					for _, st := range x.States {
						if st.Dir == types.RecvOnly {
							if timerOfChan(st.Chan) != nil && core.InLoop(in.Block()) {
								ch = st.Chan
							}
						}
					}
				}
				if ch == nil || !core.InLoop(in.Block()) {
					return
				}
				nw++
				key := "timed wait in a loop of " + p.FnName(fn)
				tm := timerOfChan(ch)
				if tm == nil {
					r.OK(R10, key, p.Pos(in.Pos()), "not a stored timer (time.After / other channel)")
					return
				}
				// the timer value must be produced (NewTimer) or Reset inside the loop
				rearmed := false
				if c, ok := tm.(*ssa.Call); ok && core.InLoop(c.Block()) && sameLoop(c.Block(), in.Block()) {
					rearmed = true
				}
				core.EachInstr(fn, func(y ssa.Instruction) {
					if c := core.Common(y); c != nil && core.CalleeName(c) == "(*time.Timer).Reset" && len(c.Args) > 0 && core.Canon(c.Args[0]) == core.Canon(tm) && sameLoop(y.Block(), in.Block()) {
						rearmed = true
					}
				})
				if rearmed {
					r.OK(R10, key, p.Pos(in.Pos()), "timer created or reset in the loop")
				} else {
					r.Fail(R10, key, p.Pos(in.Pos()), "the loop waits on a timer that is armed once, before the loop, and never reset: the second iteration blocks for ever")
				}
			})
		}
		if nw == 0 {
			r.OK(R10, "timed waits in loops", "", "no loop of package mdns waits on a channel directly (waits sit in helpers that arm a fresh timer per call)")
		}
	}
	// ---- R4
	nlisten := 0
	for _, fn := range fns {
		if core.NamedOf(recvType(fn)) != prov {
			continue
		}
		core.EachInstr(fn, func(in ssa.Instruction) {
			g, ok := in.(*ssa.Go)
			if !ok {
				return
			}
			t := g.Call.StaticCallee()
			if t == nil || core.NamedOf(recvType(t)) != prov || t == reconnect {
				return
			}
			// listener: contains a blocking select in a loop
			isListener := false
			core.EachInstr(t, func(y ssa.Instruction) {
				if sel, ok := y.(*ssa.Select); ok && sel.Blocking && core.InLoop(sel.Block()) {
					isListener = true
				}
			})
			if !isListener {
				return
			}
			nlisten++
			key := "listener spawn in " + p.FnName(fn)
			notRunning := func(b *ssa.BasicBlock, idx int) bool {
				i := core.BlockIf(b)
				if i == nil {
					return false
				}
				v, truth := core.Truth(i.Cond, idx)
				f, _ := core.LoadedField(v)
				return f == fListener && !truth
			}
			var setTrue ssa.Instruction
			core.EachInstr(fn, func(y ssa.Instruction) {
				if fl, _, v := core.StoredField(y); fl == fListener && isBoolConst(v, true) {
					setTrue = y
				}
			})
			// the channels handed to the (single, long-lived) listener stay the provider's channels while it runs
			for _, arg := range g.Call.Args {
				cf, base := core.LoadedField(arg)
				if cf == nil || core.NamedOf(base.Type()) != prov {
					continue
				}
				if _, isChan := cf.Type().Underlying().(*types.Chan); !isChan {
					continue
				}
				_ = base
				isNilEdge := func(b *ssa.BasicBlock, idx int) bool {
					i := core.BlockIf(b)
					if i == nil {
						return false
					}
					v, truth := core.Truth(i.Cond, idx)
					bo, ok := v.(*ssa.BinOp)
					if !ok || (bo.Op != token.EQL && bo.Op != token.NEQ) {
						return false
					}
					var other ssa.Value
					if core.IsNilConst(bo.Y) {
						other = bo.X
					} else if core.IsNilConst(bo.X) {
						other = bo.Y
					} else {
						return false
					}
					f, _ := core.LoadedField(other)
					return f == cf && truth == (bo.Op == token.EQL)
				}
				for _, fn2 := range fns {
					if core.NamedOf(recvType(fn2)) != prov {
						continue
					}
					fn2 := fn2
					core.EachInstr(fn2, func(y ssa.Instruction) {
						fl, _, v := core.StoredField(y)
						if fl != cf {
							return
						}
						k := "listener channel " + cf.Name() + " written in " + p.FnName(fn2)
						if core.IsNilConst(v) {
							stopsListener := func(z ssa.Instruction) bool {
								f2, _, v2 := core.StoredField(z)
								return f2 == fListener && isBoolConst(v2, false)
							}
							if !precededBy(p, fn2, y, stopsListener, 2) {
								r.Fail(R4, k+" (reset)", p.Pos(y.Pos()), "the channel is dropped while the listener may still be running (listenerRunning is not cleared first): the next start makes a new channel the running listener does not read")
							} else {
								r.OK(R4, k+" (reset)", p.Pos(y.Pos()), "reset only after the listener was marked stopped")
							}
							return
						}
						if core.Guarded(y, isNilEdge) {
							r.OK(R4, k, p.Pos(y.Pos()), "a channel is made only when there is none: a running listener keeps reading the channel the browser writes to")
						} else {
							r.Fail(R4, k, p.Pos(y.Pos()), "the channel is replaced although the listener goroutine, started once, still reads the previous one: after a reconnect the new service browser delivers into a channel nobody reads and no service is reported again")
						}
					})
				}
			}
			if core.Guarded(in, notRunning) && setTrue != nil && core.Dominates(setTrue, in) && li.Must[in][muxID] {
				r.OK(R4, key, p.Pos(in.Pos()), "only when no listener runs; flag set first, under mux")
			} else {
				r.Fail(R4, key, p.Pos(in.Pos()), "a second listener goroutine can be started (not guarded by !listenerRunning with the flag set first under mux): browse results are processed twice")
			}
		})
	}
	if nlisten == 0 {
		r.Fail(R4, "listener spawn", "", "no listener goroutine is started")
	}
	// ---- R5
	checkHandoverLocks(p, r, fns, li, R5)
}

func recvType(fn *ssa.Function) types.Type {
	if fn.Signature.Recv() != nil {
		return fn.Signature.Recv().Type()
	}
	return types.Typ[types.Invalid]
}

// checkHandoverLocks: a blocking send/receive on a channel field performed
// while certainly holding lock M requires that the counterpart goroutine never acquires M.
func checkHandoverLocks(p *core.Program, r *core.Report, fns []*ssa.Function, li *core.LockInfo, rule string) {
	type op struct {
		fn   *ssa.Function
		in   ssa.Instruction
		send bool
	}
	byChan := map[*types.Var][]op{}
	for _, fn := range fns {
		core.EachInstr(fn, func(in ssa.Instruction) {
			switch x := in.(type) {
			case *ssa.Send:
				if f := chanField(x.Chan); f != nil {
					byChan[f] = append(byChan[f], op{fn, in, true})
				}
			case *ssa.UnOp:
				if x.Op == token.ARROW {
					if f := chanField(x.X); f != nil {
						byChan[f] = append(byChan[f], op{fn, in, false})
					}
				}
			case *ssa.Select:
				for _, st := range x.States {
					if f := chanField(st.Chan); f != nil {
						byChan[f] = append(byChan[f], op{fn, in, st.Dir == types.SendOnly})
					}
				}
			}
		})
	}
	n := 0
	for f, ops := range byChan {
		for _, o := range ops {
			if _, isSel := o.in.(*ssa.Select); isSel {
				continue // selects are covered by the escape-arm rules
			}
			held := li.Must[o.in]
			if len(held) == 0 {
				continue
			}
			for _, c := range ops {
				if c.send == o.send || core.Outermost(c.fn) == core.Outermost(o.fn) {
					continue
				}
				n++
				acq := li.Acquires[core.Outermost(c.fn)]
				if acq == nil {
					acq = core.LockSet{}
				}
				conflict := held.Intersect(acq)
				key := fmt.Sprintf("hand-over on %s: %s holds %s, counterpart %s", f.Name(), p.FnName(o.fn), held, p.FnName(core.Outermost(c.fn)))
				if len(conflict) > 0 {
					r.Fail(rule, key, p.Pos(o.in.Pos()), fmt.Sprintf("%s blocks on the channel while holding %s and the goroutine on the other side (%s) acquires %s: if it is waiting for that lock when the hand-over starts, both block forever", p.FnName(o.fn), held, p.FnName(core.Outermost(c.fn)), conflict))
				} else {
					r.OK(rule, key, p.Pos(o.in.Pos()), "the counterpart never takes the held lock(s)")
				}
			}
		}
	}
	if n == 0 {
		r.OK(rule, "no blocking hand-over under a lock", "", "nothing to check")
	}
}

// timerOfChan: ch is the C field of a *time.Timer; returns the timer value.
func timerOfChan(ch ssa.Value) ssa.Value {
	ld, ok := ch.(*ssa.UnOp)
	if !ok || ld.Op != token.MUL {
		return nil
	}
	fa, ok := ld.X.(*ssa.FieldAddr)
	if !ok {
		return nil
	}
	if n := core.NamedOf(fa.X.Type()); n != nil && n.Obj().Pkg() != nil && n.Obj().Pkg().Path() == "time" && n.Obj().Name() == "Timer" {
		return fa.X
	}
	return nil
}

// sameLoop: a and b lie on a common cycle of the control-flow graph.
func sameLoop(a, b *ssa.BasicBlock) bool {
	if a.Parent() != b.Parent() {
		return false
	}
	return core.ReachableFrom(a, nil)[b] && core.ReachableFrom(b, nil)[a]
}
