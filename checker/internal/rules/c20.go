package rules

import (
	"fmt"
	"go/token"
	"go/types"
	"os"
	"sort"
	"strings"

	"golang.org/x/tools/go/ssa"

	"shipverif/internal/core"
)

func init() { register("C20", checkC20) }

type fieldAccess struct {
	fn     *ssa.Function
	in     ssa.Instruction
	write  bool
	kind   string // field, map
	exempt string // reason the access cannot race (construction), "" otherwise
	locks  core.LockSet
}

var sharedStructs = [][2]string{
	{"hub", "Hub"}, {"ship", "ShipConnection"}, {"ws", "WebsocketConnection"}, {"mdns", "MdnsManager"},
	{"mdns", "AvahiProvider"}, {"mdns", "ZeroconfProvider"}, {"api", "ServiceDetails"}, {"api", "ConnectionStateDetail"},
}

// c20Confined: reviewed fields whose accesses are confined by construction / hand-over rather than by a mutex.
// One named field + one-line reason each; the stated confinement is itself checked where a rule exists.
var c20Confined = map[string]string{
	"ship.ShipConnection.dataReader":          "written once, in state Approved, on the connection's receive path (C01.R3/C06.R2 decide that the only writer is approveHandshake and that the flush runs synchronously); read on that same path and in the flush it calls",
	"ws.WebsocketConnection.shipWriteChannel": "created in run() before the pump goroutines and before the connection object is handed to the hub's registry (go statement / registry mutex order the later readers after it); never reassigned",
	"ws.WebsocketConnection.closeChannel":     "created in run() before the pumps start; never reassigned; channel operations synchronise themselves",
	"ws.WebsocketConnection.dataProcessing":   "set once by InitDataProcessing, called from the SHIP connection's constructor before run() spawns the pumps; never reassigned",
	"hub.Hub.httpServer":                      "written by Start and read by Shutdown only; both are lifecycle calls of the owning application goroutine",
	"mdns.ZeroconfProvider.ctx":               "written (under mux) and read by the listener goroutine itself and by the browse goroutine it spawns afterwards; other goroutines use cancel under mux",
	"ship.ShipConnection.remoteShipID":        "after construction read and written only inside the access-methods branch of one handler, which is reached only with an incoming access-methods message, i.e. on the connection's receive path (C09.R2 decides the writer set)",
}

func checkC20(p *core.Program, r *core.Report) {
	ensureCallSites(p)
	const R1 = "C20.R1 consistent-lockset"
	const R2 = "C20.R2 map-fields"
	const R3 = "C20.R3 snapshots-are-copies"
	r.Explanation = "C20 (data-race freedom of the public API): no race detector is run; decided is an Eraser-style lockset discipline over the resolved program: for every field of the eight shared structs (Hub, ShipConnection, WebsocketConnection, MdnsManager, AvahiProvider, ZeroconfProvider, api.ServiceDetails, api.ConnectionStateDetail) that is written after construction, all writes hold one common mutex in exclusive mode and every read holds that mutex (shared mode suffices for reads); must-locksets are computed interprocedurally (entry lockset of an unexported helper = intersection over its call sites, exported API and goroutine bodies start empty, deferred unlocks keep the lock). (R2) reports the same rule for the contents of map-typed fields (lookup/range vs. update/delete), which crash the runtime when violated. Fields only written while the object is being constructed are immutable; a short reviewed table names fields that are confined by hand-over instead of a mutex. (R3) values handed to another goroutine as a snapshot are deep copies (fresh map, fresh entries). Not decided: races inside dependencies, higher-level atomicity (except C11.R3, C19.R2), anything only the dynamic detector can observe."
	r.Rule(R1, "per field: all post-construction writes share a mutex (exclusive mode); every read holds it")
	r.Rule(R2, "per map-typed field: update/delete under a common mutex in exclusive mode; lookup/range/len under it")
	r.Rule(R3, "mdns snapshot handed to the hub: fresh map with freshly allocated entries (shared with C17.R3)")

	shared := map[*types.Named]string{}
	for _, s := range sharedStructs {
		if n := p.Named(s[0], s[1]); n != nil {
			shared[n] = s[0] + "." + s[1]
		} else {
			r.Unresolved(R1, s[0]+"."+s[1])
		}
	}
	fns := p.RepoFuncs()
	li := core.AnalyzeLocks(fns, func(fn *ssa.Function) bool { return fn.Object() != nil && fn.Object().Exported() })
	acc := map[string][]fieldAccess{}
	fieldOf := map[string]*types.Var{}
	// fresh: the base object was allocated in this function (still private)
	fresh := func(base ssa.Value) bool {
		b := core.Canon(base)
		if al, ok := b.(*ssa.Alloc); ok {
			_ = al
			return true
		}
		return false
	}
	add := func(owner *types.Named, f *types.Var, a fieldAccess, suffix string) {
		id := shared[owner] + "." + f.Name() + suffix
		fieldOf[id] = f
		acc[id] = append(acc[id], a)
	}
	isSync := func(t types.Type) bool {
		n := core.NamedOf(t)
		return n != nil && n.Obj().Pkg() != nil && n.Obj().Pkg().Path() == "sync"
	}
	for _, fn := range fns {
		core.EachInstr(fn, func(in ssa.Instruction) {
			var fa *ssa.FieldAddr
			write := false
			switch x := in.(type) {
			case *ssa.UnOp:
				if x.Op == token.MUL {
					fa, _ = x.X.(*ssa.FieldAddr)
				}
			case *ssa.Store:
				fa, _ = x.Addr.(*ssa.FieldAddr)
				write = true
			}
			if fa != nil {
				owner := core.NamedOf(fa.X.Type())
				if _, ok := shared[owner]; ok {
					f := core.FieldVar(fa)
					if !isSync(f.Type()) {
						a := fieldAccess{fn: fn, in: in, write: write, kind: "field", locks: li.Must[in]}
						if fresh(fa.X) {
							a.exempt = "object under construction"
						}
						add(owner, f, a, "")
					}
				}
			}
			// map contents
			mapAcc := func(m ssa.Value, w bool) {
				f, base := core.LoadedField(m)
				if f == nil || base == nil {
					return
				}
				owner := core.NamedOf(base.Type())
				if _, ok := shared[owner]; !ok {
					return
				}
				a := fieldAccess{fn: fn, in: in, write: w, kind: "map", locks: li.Must[in]}
				if fresh(base) {
					a.exempt = "object under construction"
				}
				add(owner, f, a, "[]")
			}
			switch x := in.(type) {
			case *ssa.Lookup:
				if _, ok := x.X.Type().Underlying().(*types.Map); ok {
					mapAcc(x.X, false)
				}
			case *ssa.MapUpdate:
				mapAcc(x.Map, true)
			case *ssa.Range:
				if _, ok := x.X.Type().Underlying().(*types.Map); ok {
					mapAcc(x.X, false)
				}
			case *ssa.Call:
				if isBuiltin(in, "delete") {
					mapAcc(x.Call.Args[0], true)
				}
				if isBuiltin(in, "len") {
					if _, ok := x.Call.Args[0].Type().Underlying().(*types.Map); ok {
						mapAcc(x.Call.Args[0], false)
					}
				}
			}
		})
	}
	var ids []string
	for id := range acc {
		ids = append(ids, id)
	}
	sort.Strings(ids)
	dump := os.Getenv("SHIPVERIF_DUMP") != ""
	nfields, nprot, nimm := 0, 0, 0
	for _, id := range ids {
		as := acc[id]
		rule := R1
		if strings.HasSuffix(id, "[]") {
			rule = R2
		}
		nfields++
		var ws, rs []fieldAccess
		for _, a := range as {
			if a.exempt != "" {
				continue
			}
			if a.write {
				ws = append(ws, a)
			} else {
				rs = append(rs, a)
			}
		}
		if dump {
			fmt.Printf("FIELD %s writes=%d reads=%d\n", id, len(ws), len(rs))
			for _, a := range append(append([]fieldAccess{}, ws...), rs...) {
				fmt.Printf("   %v %s %s %s\n", a.write, p.FnName(a.fn), p.Pos(a.in.Pos()), a.locks)
			}
		}
		if len(ws) == 0 {
			nimm++
			r.OK(rule, id+" immutable after construction", "", fmt.Sprintf("no write outside construction; %d reads", len(rs)))
			continue
		}
		if reason, ok := c20Confined[strings.TrimSuffix(id, "[]")]; ok {
			r.OK(rule, id+" confined (reviewed)", p.Pos(ws[0].in.Pos()), reason)
			continue
		}
		// common exclusive lock of all writes
		var common core.LockSet
		for _, w := range ws {
			ex := core.LockSet{}
			for k := range w.locks {
				if !strings.HasSuffix(k, "#R") {
					ex[k] = true
				}
			}
			if common == nil {
				common = ex
			} else {
				common = common.Intersect(ex)
			}
		}
		if len(common) == 0 {
			// report each write site that holds no lock at all, or the pair
			seenFn := map[string]bool{}
			for _, w := range ws {
				fnn := p.FnName(opRoot(p, w.fn))
				if seenFn[fnn] {
					continue
				}
				seenFn[fnn] = true
				r.Fail(rule, id+" write in "+fnn, p.Pos(w.in.Pos()), fmt.Sprintf("%s is written here holding %s, and the writes of this field share no mutex (exclusive mode): it is read/written from other goroutines (%d other sites)", id, w.locks, len(ws)+len(rs)-1))
			}
			continue
		}
		nprot++
		var m string
		for k := range common {
			if m == "" || k < m {
				m = k
			}
		}
		okAll := true
		seenFn := map[string]bool{}
		for _, rd := range rs {
			held := false
			for k := range common {
				if rd.locks[k] || rd.locks[k+"#R"] {
					held = true
				}
			}
			if !held {
				okAll = false
				fnn := p.FnName(opRoot(p, rd.fn))
				if seenFn[fnn] {
					continue
				}
				seenFn[fnn] = true
				r.Fail(rule, id+" read in "+fnn, p.Pos(rd.in.Pos()), fmt.Sprintf("%s is protected by %s at all %d write sites but is read here holding %s", id, m, len(ws), rd.locks))
			}
		}
		if okAll {
			r.OK(rule, id+" protected by "+m, p.Pos(ws[0].in.Pos()), fmt.Sprintf("%d writes, %d reads under the mutex", len(ws), len(rs)))
		}
	}
	// ---- R4: package-level variables written after initialisation
	const R4 = "C20.R4 package-variables"
	r.Rule(R4, "a package-level variable that is written outside package initialisation is written under one common mutex and read under it (a lazily filled cache shared by all connections is a race between the first writers)")
	{
		type gacc struct {
			fn    *ssa.Function
			in    ssa.Instruction
			write bool
			locks core.LockSet
		}
		gaccs := map[*ssa.Global][]gacc{}
		for _, fn := range fns {
			isInit := fn.Name() == "init" || strings.HasPrefix(fn.Name(), "init#") || fn.Synthetic != ""
			core.EachInstr(fn, func(in ssa.Instruction) {
				var g *ssa.Global
				write := false
				switch x := in.(type) {
				case *ssa.UnOp:
					if x.Op == token.MUL {
						g, _ = x.X.(*ssa.Global)
					}
				case *ssa.Store:
					g, _ = x.Addr.(*ssa.Global)
					write = true
				}
				if g == nil || g.Pkg == nil || !p.InRepo(fn) || strings.HasPrefix(g.Name(), "init$") {
					return
				}
				if isInit && write {
					return // package initialisation happens before any goroutine of the library exists
				}
				gaccs[g] = append(gaccs[g], gacc{fn, in, write, li.Must[in]})
			})
		}
		var gs []*ssa.Global
		for g := range gaccs {
			gs = append(gs, g)
		}
		sort.Slice(gs, func(i, j int) bool { return gs[i].String() < gs[j].String() })
		nglob := 0
		for _, g := range gs {
			var ws, rs []gacc
			for _, a := range gaccs[g] {
				if a.write {
					ws = append(ws, a)
				} else {
					rs = append(rs, a)
				}
			}
			if len(ws) == 0 {
				continue // initialised once, read-only afterwards
			}
			nglob++
			id := g.Pkg.Pkg.Name() + "." + g.Name()
			var common core.LockSet
			for _, w := range ws {
				ex := core.LockSet{}
				for k := range w.locks {
					if !strings.HasSuffix(k, "#R") {
						ex[k] = true
					}
				}
				if common == nil {
					common = ex
				} else {
					common = common.Intersect(ex)
				}
			}
			if len(common) == 0 {
				r.Fail(R4, id+" write in "+p.FnName(ws[0].fn), p.Pos(ws[0].in.Pos()), fmt.Sprintf("package variable %s is written after initialisation without a mutex common to its %d write site(s): every connection / API call of the process shares it", id, len(ws)))
				continue
			}
			bad := false
			for _, rd := range rs {
				held := false
				for k := range common {
					if rd.locks[k] || rd.locks[k+"#R"] {
						held = true
					}
				}
				if !held && !bad {
					bad = true
					r.Fail(R4, id+" read in "+p.FnName(rd.fn), p.Pos(rd.in.Pos()), fmt.Sprintf("package variable %s is written under %s but read here holding %s", id, common, rd.locks))
				}
			}
			if !bad {
				r.OK(R4, id+" protected", p.Pos(ws[0].in.Pos()), fmt.Sprintf("%d writes, %d reads under %s", len(ws), len(rs), common))
			}
		}
		r.OK(R4, "package variables written after initialisation", "", fmt.Sprintf("%d package variables examined, %d written outside init", len(gs), nglob))
	}
	// ---- R5: no by-value copy of a lock-bearing record
	const R5 = "C20.R5 no-copy-of-locked-records"
	r.Rule(R5, "no repo function loads, by value, a whole struct that contains a sync mutex (e.g. detail := *service.ConnectionStateDetail()): the copy reads every field without the lock and duplicates the mutex in whatever state it is")
	{
		var hasLock func(t types.Type, d int) bool
		hasLock = func(t types.Type, d int) bool {
			if d > 4 {
				return false
			}
			if n := core.NamedOf(t); n != nil && n.Obj().Pkg() != nil && n.Obj().Pkg().Path() == "sync" {
				switch n.Obj().Name() {
				case "Mutex", "RWMutex", "Once", "WaitGroup", "Cond":
					if _, isPtr := t.(*types.Pointer); !isPtr {
						return true
					}
				}
			}
			if _, isPtr := t.(*types.Pointer); isPtr {
				return false
			}
			st, ok := t.Underlying().(*types.Struct)
			if !ok {
				return false
			}
			for i := 0; i < st.NumFields(); i++ {
				if hasLock(st.Field(i).Type(), d+1) {
					return true
				}
			}
			return false
		}
		nload, nbad := 0, 0
		for _, fn := range fns {
			fn := fn
			core.EachInstr(fn, func(in ssa.Instruction) {
				u, ok := in.(*ssa.UnOp)
				if !ok || u.Op != token.MUL {
					return
				}
				if _, isStruct := u.Type().Underlying().(*types.Struct); !isStruct {
					return
				}
				nload++
				if hasLock(u.Type(), 0) {
					nbad++
					r.Fail(R5, "copy of "+types.TypeString(u.Type(), func(pk *types.Package) string { return pk.Name() })+" in "+p.FnName(fn), p.Pos(in.Pos()), "a struct that carries its own mutex is copied by value: the fields are read without that mutex (racing with every writer) and the copy's mutex may be copied in the locked state, so its accessors block for ever")
				}
			})
		}
		if nbad == 0 {
			r.OK(R5, "by-value struct loads", "", fmt.Sprintf("%d struct loads examined, none of a lock-bearing type", nload))
		}
	}
	// ---- R8: library objects that are not safe for concurrent use
	const R8 = "C20.R8 stateful-library-objects-locked"
	r.Rule(R8, "a field of a shared struct that holds a standard-library object documented as not safe for concurrent use (*math/rand.Rand, bytes.Buffer, strings.Builder, bufio readers/writers, json encoder/decoder, hash states, container lists) has all its method calls under one common mutex: the field itself is never reassigned, so the field rule R1 sees an immutable pointer, but every call mutates the object behind it")
	{
		stateful := func(t types.Type) string {
			if pt, ok := t.Underlying().(*types.Pointer); ok {
				t = pt.Elem()
			}
			n := core.NamedOf(t)
			if n == nil || n.Obj().Pkg() == nil {
				return ""
			}
			full := n.Obj().Pkg().Path() + "." + n.Obj().Name()
			switch full {
			case "math/rand.Rand", "math/rand/v2.Rand", "bytes.Buffer", "strings.Builder", "bufio.Reader", "bufio.Writer", "bufio.ReadWriter", "bufio.Scanner",
				"encoding/json.Encoder", "encoding/json.Decoder", "container/list.List", "container/ring.Ring", "hash.Hash", "hash.Hash32", "hash.Hash64", "text/tabwriter.Writer":
				return full
			}
			return ""
		}
		for _, ss := range sharedStructs {
			n := p.Named(ss[0], ss[1])
			if n == nil {
				continue
			}
			st, ok := n.Underlying().(*types.Struct)
			if !ok {
				continue
			}
			bad := false
			for i := 0; i < st.NumFields(); i++ {
				f := st.Field(i)
				kind := stateful(f.Type())
				if kind == "" {
					continue
				}
				// method calls whose receiver is (a load of) this field
				var common core.LockSet
				var firstUnlocked ssa.Instruction
				ncalls := 0
				for _, fn := range fns {
					core.EachInstr(fn, func(in ssa.Instruction) {
						c := core.Common(in)
						if c == nil {
							return
						}
						var recv ssa.Value
						if c.IsInvoke() {
							recv = c.Value
						} else if t := c.StaticCallee(); t != nil && t.Signature.Recv() != nil && len(c.Args) > 0 {
							recv = c.Args[0]
						}
						if recv == nil {
							return
						}
						var fa *ssa.FieldAddr
						switch x := core.Canon(recv).(type) {
						case *ssa.FieldAddr:
							fa = x
						case *ssa.UnOp:
							if x.Op == token.MUL {
								fa, _ = x.X.(*ssa.FieldAddr)
							}
						}
						if fa == nil || core.FieldVar(fa) != f || core.NamedOf(fa.X.Type()) != n {
							return
						}
						ncalls++
						held := core.LockSet{}
						for k := range li.Must[in] {
							if !strings.HasSuffix(k, "#R") {
								held[k] = true
							}
						}
						if len(held) == 0 && firstUnlocked == nil {
							firstUnlocked = in
						}
						if common == nil {
							common = held
						} else {
							common = common.Intersect(held)
						}
					})
				}
				key := ss[0] + "." + ss[1] + "." + f.Name() + " (" + kind + ") calls share a mutex"
				if ncalls > 0 && len(common) == 0 {
					bad = true
					pos := ""
					if firstUnlocked != nil {
						pos = p.Pos(firstUnlocked.Pos())
					}
					r.Fail(R8, key, pos, fmt.Sprintf("%d method call(s) on the %s stored in %s.%s hold no common mutex: the API can be entered from several goroutines (mDNS reports, timers, connection goroutines), and concurrent calls corrupt the object's internal state", ncalls, kind, ss[1], f.Name()))
				} else {
					r.OK(R8, key, p.Pos(f.Pos()), fmt.Sprintf("%d call(s), all under %v", ncalls, common))
				}
			}
			if !bad {
				r.OK(R8, ss[0]+"."+ss[1]+" stateful library fields", p.Pos(n.Obj().Pos()), fmt.Sprintf("%d fields examined", st.NumFields()))
			}
		}
		r.Floor(R8, 8)
	}
	// ---- R7: the hand-over that the confinement table relies on
	const R7 = "C20.R7 published-before-the-pumps-start"
	r.Rule(R7, "the fields of the websocket connection that are confined by hand-over (dataProcessing, the two channels) are stored before the go statements that start the pumps, in program order of InitDataProcessing / run: a pump started first reads them concurrently with the store")
	if wa := findWS(p, r, R7); wa != nil {
		confined := map[string]bool{"dataProcessing": true, "shipWriteChannel": true, "closeChannel": true}
		// go statements starting a pump, and the functions (transitively) containing them
		var spawns []ssa.Instruction
		for _, fn := range wa.fns {
			core.EachInstr(fn, func(in ssa.Instruction) {
				if g, ok := in.(*ssa.Go); ok {
					if t := g.Call.StaticCallee(); t != nil && core.NamedOf(recvType(t)) == wa.typ {
						spawns = append(spawns, in)
					}
				}
			})
		}
		spawnsPumps := core.NewMay(p, false, func(in ssa.Instruction) bool {
			for _, s := range spawns {
				if s == in {
					return true
				}
			}
			return false
		})
		nst := 0
		for _, fn := range wa.fns {
			fn := fn
			core.EachInstr(fn, func(in ssa.Instruction) {
				f, b, _ := core.StoredField(in)
				if f == nil || !confined[f.Name()] || core.NamedOf(b.Type()) != wa.typ {
					return
				}
				if _, fresh := core.Canon(b).(*ssa.Alloc); fresh {
					return
				}
				nst++
				key := "ws.WebsocketConnection." + f.Name() + " stored before the pumps start (" + p.FnName(fn) + ")"
				// no pump may have been started on any path reaching this store
				early := core.PathSearch(fn, nil, func(y ssa.Instruction) bool { return y == in }, nil, nil) != nil &&
					core.PathSearch(fn, nil, func(y ssa.Instruction) bool {
						switch y.(type) {
						case *ssa.Go, *ssa.Call:
							return y != in && spawnsPumps.Instr(y) && core.PathSearch(fn, y, func(z ssa.Instruction) bool { return z == in }, nil, nil) != nil
						}
						return false
					}, func(y ssa.Instruction) bool { return y == in }, nil) != nil
				if early {
					r.Fail(R7, key, p.Pos(in.Pos()), "a pump goroutine is started before this field is stored: the pump's first use of it (e.g. delivering the peer's first message) races with the store, or dereferences nil")
				} else {
					r.OK(R7, key, p.Pos(in.Pos()), "no pump runs yet when the field is stored")
				}
			})
		}
		if nst == 0 {
			r.Fail(R7, "confined fields of the websocket connection", "", "the stores of dataProcessing / the channels were not found")
		}
	}
	// ---- R6: the socket's write methods are serialised (shared with C12.R5)
	const R6 = "C20.R6 socket-write-methods-serialised"
	r.Rule(R6, "every call of a gorilla write method (WriteMessage, WriteControl, NextWriter, WriteJSON, SetWriteDeadline, ...) holds one common mutex: gorilla allows one concurrent caller of this group")
	if wa := findWS(p, r, R6); wa != nil {
		wli := core.AnalyzeLocks(wa.fns, func(fn *ssa.Function) bool { return fn.Object() != nil && fn.Object().Exported() })
		checkTransportWrites(p, r, wa, wli, R6)
	}
	r.Counts["fields_examined"] = nfields
	r.Counts["fields_mutex_protected"] = nprot
	r.Counts["fields_immutable"] = nimm
	r.Counts["functions"] = len(fns)
	r.Floor(R1, 30)
	r.Floor(R2, 4)
	if mReport := p.IfaceMethod("api", "MdnsReportInterface", "ReportMdnsEntries"); mReport != nil {
		det, syn := detachedSites(p, p.FuncsOf("mdns"), mReport)
		checkSnapshotCopy(p, r, R3, append(det, syn...))
		r.Floor(R3, 2)
	} else {
		r.Unresolved(R3, "MdnsReportInterface.ReportMdnsEntries")
	}
}
