package rules

// E1 — handshake automaton extraction.
//
// Finite-domain abstract interpretation of package ship over go/ssa. The
// abstract configuration is the valuation of the tracked finite fields of
// ship.ShipConnection (role, handshake state, timer-running flag, reader
// set, close-once done) plus two path flags (trusted, closing). Everything
// else is non-deterministic: unknown branch conditions take both edges, so
// every transport write may fail, every message may have any content.
// Each entry point is analysed from every configuration, which makes the
// extracted edge relation an over-approximation under interleavings too.

import (
	"fmt"
	"go/constant"
	"go/token"
	"go/types"
	"sort"
	"strings"

	"golang.org/x/tools/go/ssa"

	"shipverif/internal/core"
)

type cfgT struct {
	role    int8 // 0 server, 1 client
	state   int8 // index into fsm.states
	timer   bool // handshakeTimerRunning
	reader  bool // dataReader != nil
	closed  bool // shutdownOnce done
	trusted bool // path flag: a trust predicate was taken on its positive edge
	closing bool // path flag: a goroutine that must close the connection was spawned
	armed   bool // path flag: the handshake timer was (re-)armed during this run
	moved   bool // path flag: the handshake state was stored during this run
}

type akind uint8

const (
	kUnknown akind = iota
	kConst
	kNil
	kNonNil
	kTrustPred // result of a trust predicate call (bool, unknown)
)

type aval struct {
	k      akind
	c      constant.Value
	origin *ssa.Function // where a constant was materialised
	pos    token.Pos     // call site that first passed the constant (not part of keys)
}

func (a aval) key() string {
	switch a.k {
	case kConst:
		o := ""
		if a.origin != nil {
			o = "@" + a.origin.String()
		}
		return "c:" + a.c.ExactString() + o
	case kNil:
		return "nil"
	case kNonNil:
		return "nonnil"
	case kTrustPred:
		return "trust"
	}
	return "?"
}

type tuple struct {
	cfg    cfgT
	env    map[ssa.Value]aval
	tup    map[ssa.Value][]aval
	defers []*ssa.Defer
}

func (t *tuple) clone() *tuple {
	n := &tuple{cfg: t.cfg, env: make(map[ssa.Value]aval, len(t.env)), tup: make(map[ssa.Value][]aval, len(t.tup))}
	for k, v := range t.env {
		n.env[k] = v
	}
	for k, v := range t.tup {
		n.tup[k] = v
	}
	n.defers = append([]*ssa.Defer(nil), t.defers...)
	return n
}

func (t *tuple) key() string {
	var sb strings.Builder
	fmt.Fprintf(&sb, "%v|", t.cfg)
	ks := make([]string, 0, len(t.env))
	for k, v := range t.env {
		ks = append(ks, k.Name()+"="+v.key())
	}
	sort.Strings(ks)
	sb.WriteString(strings.Join(ks, ","))
	sb.WriteString("|")
	ts := make([]string, 0, len(t.tup))
	for k, v := range t.tup {
		s := k.Name() + "=("
		for _, a := range v {
			s += a.key() + ";"
		}
		ts = append(ts, s+")")
	}
	sort.Strings(ts)
	sb.WriteString(strings.Join(ts, ","))
	for _, d := range t.defers {
		fmt.Fprintf(&sb, "|d%p", d)
	}
	return sb.String()
}

type outcome struct {
	cfg  cfgT
	rets []aval
}

func (o outcome) key() string {
	s := fmt.Sprintf("%v", o.cfg)
	for _, r := range o.rets {
		s += "/" + r.key()
	}
	return s
}

// edge of the extracted automaton
type fsmEdge struct {
	role      int8
	from, to  int8
	origin    string // function in which the target state constant is written
	pos       token.Pos
	entries   map[string]bool
	trusted   bool            // all occurrences were on trusted paths
	untrusted map[string]bool // entries through which the edge is taken on an untrusted path
}

type effectRec struct {
	kind  string // send, arm, setup, deliver, closecb, closeconn, reportid, readerstore
	tag   string // message type for send
	fn    string
	pos   token.Pos
	cfgs  map[cfgT]bool
	entry map[string]bool
}

type memoEntry struct {
	outs       map[string]outcome
	inProgress bool
	iter       int
}

type frameCtx struct {
	tag    string // model type of the message being sent in this frame, if any
	entry  string
	inOnce bool // executing inside the close-once body
}

type fsm struct {
	p *core.Program
	r *core.Report

	conn       *types.Named
	fState     *types.Var
	fTimer     *types.Var
	fReader    *types.Var
	fOnce      *types.Var
	fRole      *types.Var
	fSKI       *types.Var
	stateType  *types.Named
	states     []*types.Const // index -> constant
	stateIdx   map[int64]int8
	roleClient constant.Value
	roleServer constant.Value

	mWrite, mCloseData, mIsClosed                              *types.Func
	mSetup, mClosedCB, mReportID, mPaired, mAuto, mAllow, mUpd *types.Func
	mDeliver                                                   *types.Func

	memo    map[string]*memoEntry
	iter    int
	changed bool

	edges    map[string]*fsmEdge
	effects  map[string]*effectRec
	spawned  map[*ssa.Function]bool
	problems []fsmProblem // fail-closed conditions met during interpretation

	curEntry string
	stats    struct{ runs, memoHits, tuples int }

	membCache map[*ssa.Function]int // state-membership helpers: index of their slice parameter, -1 = not one
}

type fsmProblem struct {
	rule, key, msg string
	pos            token.Pos
}

func (f *fsm) stateName(i int8) string {
	if int(i) < len(f.states) && i >= 0 {
		return f.states[i].Name()
	}
	return fmt.Sprintf("state#%d", i)
}

func (f *fsm) roleName(r int8) string {
	if r == 1 {
		return "client"
	}
	return "server"
}

func newFSM(p *core.Program, r *core.Report, rule string) *fsm {
	f := &fsm{p: p, r: r, memo: map[string]*memoEntry{}, edges: map[string]*fsmEdge{}, effects: map[string]*effectRec{}, spawned: map[*ssa.Function]bool{}, stateIdx: map[int64]int8{}}
	f.conn = p.Named("ship", "ShipConnection")
	if f.conn == nil {
		r.Unresolved(rule, "ship.ShipConnection")
		return nil
	}
	get := func(name string) *types.Var {
		v := p.Field("ship", "ShipConnection", name)
		if v == nil {
			r.Unresolved(rule, "field ship.ShipConnection."+name)
		}
		return v
	}
	f.fState, f.fTimer, f.fReader, f.fOnce, f.fRole, f.fSKI = get("smeState"), get("handshakeTimerRunning"), get("dataReader"), get("shutdownOnce"), get("role"), get("remoteSKI")
	if f.fState == nil || f.fTimer == nil || f.fReader == nil || f.fOnce == nil || f.fRole == nil || f.fSKI == nil {
		return nil
	}
	f.stateType, _ = f.fState.Type().(*types.Named)
	if f.stateType == nil {
		r.Unresolved(rule, "named type of smeState")
		return nil
	}
	cs := p.ConstsOfType("model", f.stateType)
	sort.Slice(cs, func(i, j int) bool {
		a, _ := constant.Int64Val(cs[i].Val())
		b, _ := constant.Int64Val(cs[j].Val())
		return a < b
	})
	for i, c := range cs {
		v, _ := constant.Int64Val(c.Val())
		f.states = append(f.states, c)
		f.stateIdx[v] = int8(i)
	}
	if len(f.states) < 30 {
		r.Unresolved(rule, fmt.Sprintf("handshake state constants (found %d)", len(f.states)))
		return nil
	}
	rc, rs := p.Const("ship", "ShipRoleClient"), p.Const("ship", "ShipRoleServer")
	if rc == nil || rs == nil {
		r.Unresolved(rule, "ship.ShipRoleClient/ShipRoleServer")
		return nil
	}
	f.roleClient, f.roleServer = rc.Val(), rs.Val()
	im := func(iface, name string) *types.Func {
		m := p.IfaceMethod("api", iface, name)
		if m == nil {
			r.Unresolved(rule, "api."+iface+"."+name)
		}
		return m
	}
	f.mWrite = im("WebsocketDataWriterInterface", "WriteMessageToWebsocketConnection")
	f.mCloseData = im("WebsocketDataWriterInterface", "CloseDataConnection")
	f.mIsClosed = im("WebsocketDataWriterInterface", "IsDataConnectionClosed")
	f.mSetup = im("ShipConnectionInfoProviderInterface", "SetupRemoteDevice")
	f.mClosedCB = im("ShipConnectionInfoProviderInterface", "HandleConnectionClosed")
	f.mReportID = im("ShipConnectionInfoProviderInterface", "ReportServiceShipID")
	f.mPaired = im("ShipConnectionInfoProviderInterface", "IsRemoteServiceForSKIPaired")
	f.mAuto = im("ShipConnectionInfoProviderInterface", "IsAutoAcceptEnabled")
	f.mAllow = im("ShipConnectionInfoProviderInterface", "AllowWaitingForTrust")
	f.mUpd = im("ShipConnectionInfoProviderInterface", "HandleShipHandshakeStateUpdate")
	f.mDeliver = im("ShipConnectionDataReaderInterface", "HandleShipPayloadMessage")
	for _, m := range []*types.Func{f.mWrite, f.mCloseData, f.mIsClosed, f.mSetup, f.mClosedCB, f.mReportID, f.mPaired, f.mAuto, f.mAllow, f.mUpd, f.mDeliver} {
		if m == nil {
			return nil
		}
	}
	return f
}

func (f *fsm) stIdx(name string) int8 {
	for i, c := range f.states {
		if c.Name() == name {
			return int8(i)
		}
	}
	return -1
}

func (f *fsm) problem(rule, key, msg string, pos token.Pos) {
	for _, p := range f.problems {
		if p.rule == rule && p.key == key {
			return
		}
	}
	f.problems = append(f.problems, fsmProblem{rule, key, msg, pos})
}

// isConnField reports whether v is FieldAddr of the connection struct selecting fld.
func (f *fsm) connFieldAddr(v ssa.Value) *types.Var {
	fa, ok := v.(*ssa.FieldAddr)
	if !ok {
		return nil
	}
	if core.NamedOf(fa.X.Type()) != f.conn {
		return nil
	}
	return core.FieldVar(fa)
}

func (f *fsm) inShip(fn *ssa.Function) bool {
	return fn != nil && fn.Blocks != nil && f.p.PkgShort(fn) == "ship"
}

func (f *fsm) eval(v ssa.Value, t *tuple, fn *ssa.Function, args []aval) aval {
	switch x := v.(type) {
	case *ssa.Const:
		if x.Value == nil {
			return aval{k: kNil}
		}
		return aval{k: kConst, c: x.Value, origin: fn}
	case *ssa.Parameter:
		for i, p := range fn.Params {
			if p == x && i < len(args) {
				return args[i]
			}
		}
		return aval{}
	case *ssa.ChangeType:
		return f.eval(x.X, t, fn, args)
	case *ssa.MakeInterface:
		a := f.eval(x.X, t, fn, args)
		if a.k == kConst {
			return a
		}
		return aval{k: kNonNil}
	case *ssa.Convert:
		a := f.eval(x.X, t, fn, args)
		if a.k == kConst && types.Identical(x.X.Type().Underlying(), x.Type().Underlying()) {
			return a
		}
		return aval{}
	}
	if a, ok := t.env[v]; ok {
		return a
	}
	return aval{}
}

func boolVal(b bool) aval { return aval{k: kConst, c: constant.MakeBool(b)} }

func (a aval) isBool() (bool, bool) {
	if a.k == kConst && a.c.Kind() == constant.Bool {
		return constant.BoolVal(a.c), true
	}
	return false, false
}

// run analyses one invocation of fn from configuration cfg.
func (f *fsm) run(fn *ssa.Function, cfg cfgT, args []aval, ctx frameCtx, depth int) []outcome {
	if depth > 60 {
		f.problem("E1.depth", f.p.FnName(fn), "call depth bound exceeded", fn.Pos())
		return []outcome{{cfg: cfg}}
	}
	var kb strings.Builder
	fmt.Fprintf(&kb, "%s|%v|%s|%s|%v|", fn.String(), cfg, ctx.tag, ctx.entry, ctx.inOnce)
	for _, a := range args {
		kb.WriteString(a.key())
		kb.WriteByte(';')
	}
	key := kb.String()
	e := f.memo[key]
	if e == nil {
		e = &memoEntry{outs: map[string]outcome{}}
		f.memo[key] = e
	}
	if e.iter == f.iter && !e.inProgress {
		f.stats.memoHits++
		return outList(e.outs)
	}
	if e.inProgress {
		return outList(e.outs)
	}
	e.inProgress = true
	f.stats.runs++
	outs := f.explore(fn, cfg, args, ctx, depth)
	for _, o := range outs {
		k := o.key()
		if _, ok := e.outs[k]; !ok {
			e.outs[k] = o
			f.changed = true
		}
	}
	e.inProgress = false
	e.iter = f.iter
	return outList(e.outs)
}

func outList(m map[string]outcome) []outcome {
	ks := make([]string, 0, len(m))
	for k := range m {
		ks = append(ks, k)
	}
	sort.Strings(ks)
	out := make([]outcome, 0, len(m))
	for _, k := range ks {
		out = append(out, m[k])
	}
	return out
}

type workItem struct {
	b *ssa.BasicBlock
	t *tuple
}

func (f *fsm) explore(fn *ssa.Function, cfg cfgT, args []aval, ctx frameCtx, depth int) []outcome {
	if len(fn.Blocks) == 0 {
		return []outcome{{cfg: cfg}}
	}
	start := &tuple{cfg: cfg, env: map[ssa.Value]aval{}, tup: map[ssa.Value][]aval{}}
	seen := map[string]bool{}
	work := []workItem{{fn.Blocks[0], start}}
	var outs []outcome
	for len(work) > 0 {
		it := work[len(work)-1]
		work = work[:len(work)-1]
		k := fmt.Sprintf("%d|%s", it.b.Index, it.t.key())
		if seen[k] {
			continue
		}
		seen[k] = true
		f.stats.tuples++
		if len(seen) > 200000 {
			f.problem("E1.bound", f.p.FnName(fn), "tuple bound exceeded", fn.Pos())
			break
		}
		cur := []*tuple{it.t}
		for _, in := range it.b.Instrs {
			var next []*tuple
			for _, t := range cur {
				next = append(next, f.step(fn, in, t, args, ctx, depth, &outs, &work)...)
			}
			cur = next
			if len(cur) == 0 {
				break
			}
		}
	}
	return outs
}

// flow moves tuple t along the edge b -> b.Succs[idx], resolving phis.
func (f *fsm) flow(fn *ssa.Function, b *ssa.BasicBlock, idx int, t *tuple, args []aval, work *[]workItem) {
	succ := b.Succs[idx]
	predIdx := -1
	for i, p := range succ.Preds {
		if p == b {
			predIdx = i
			// with duplicate edges (both branches to same block) pick matching occurrence
			if countBefore(b.Succs, idx, succ) == countBefore(succ.Preds, i, b) {
				break
			}
		}
	}
	n := t.clone()
	vals := map[*ssa.Phi]aval{}
	for _, in := range succ.Instrs {
		phi, ok := in.(*ssa.Phi)
		if !ok {
			break
		}
		if predIdx >= 0 {
			vals[phi] = f.eval(phi.Edges[predIdx], t, fn, args)
		}
	}
	for phi, v := range vals {
		delete(n.env, phi)
		if v.k != kUnknown {
			n.env[phi] = v
		}
	}
	*work = append(*work, workItem{succ, n})
}

func countBefore(bs []*ssa.BasicBlock, idx int, x *ssa.BasicBlock) int {
	n := 0
	for i := 0; i < idx; i++ {
		if bs[i] == x {
			n++
		}
	}
	return n
}

func (f *fsm) setEnv(t *tuple, v ssa.Value, a aval) {
	delete(t.env, v)
	if a.k != kUnknown {
		t.env[v] = a
	}
}

// step executes one instruction abstractly; it returns the tuples that
// continue within the block (terminators enqueue successors themselves).
func (f *fsm) step(fn *ssa.Function, in ssa.Instruction, t *tuple, args []aval, ctx frameCtx, depth int, outs *[]outcome, work *[]workItem) []*tuple {
	switch x := in.(type) {
	case *ssa.Phi:
		return []*tuple{t} // resolved in flow
	case *ssa.UnOp:
		switch x.Op {
		case token.MUL:
			if fld := f.connFieldAddr(x.X); fld != nil {
				f.setEnv(t, x, f.loadField(fld, t))
			} else if al, ok := x.X.(*ssa.Alloc); ok {
				f.setEnv(t, x, t.env[al])
			} else {
				f.setEnv(t, x, aval{})
			}
		case token.NOT:
			a := f.eval(x.X, t, fn, args)
			if b, ok := a.isBool(); ok {
				f.setEnv(t, x, boolVal(!b))
			} else {
				f.setEnv(t, x, aval{})
			}
		default:
			f.setEnv(t, x, aval{})
		}
		return []*tuple{t}
	case *ssa.BinOp:
		f.setEnv(t, x, f.binop(x, t, fn, args))
		return []*tuple{t}
	case *ssa.Store:
		val := f.eval(x.Val, t, fn, args)
		if fld := f.connFieldAddr(x.Addr); fld != nil {
			return f.storeField(fn, x, fld, val, t, ctx)
		}
		if al, ok := x.Addr.(*ssa.Alloc); ok {
			f.setEnv(t, al, val)
		}
		return []*tuple{t}
	case *ssa.Extract:
		if vs, ok := t.tup[x.Tuple]; ok && x.Index < len(vs) {
			f.setEnv(t, x, vs[x.Index])
		} else {
			f.setEnv(t, x, aval{})
		}
		return []*tuple{t}
	case *ssa.Call:
		return f.call(fn, x, &x.Call, t, args, ctx, depth)
	case *ssa.Defer:
		t.defers = append(t.defers, x)
		return []*tuple{t}
	case *ssa.RunDefers:
		cur := []*tuple{t}
		ds := t.defers
		t.defers = nil
		for i := len(ds) - 1; i >= 0; i-- {
			var next []*tuple
			for _, c := range cur {
				next = append(next, f.call(fn, nil, &ds[i].Call, c, args, ctx, depth)...)
			}
			cur = next
		}
		return cur
	case *ssa.Go:
		if g := core.ClosureArg(x.Call.Value); g != nil {
			f.noteSpawn(fn, x, g, t)
		} else if g := x.Call.StaticCallee(); g != nil && f.inShip(g) {
			f.noteSpawn(fn, x, g, t)
		}
		return []*tuple{t}
	case *ssa.If:
		b := in.Block()
		base, truth0 := core.Truth(x.Cond, 0)
		a := f.eval(base, t, fn, args)
		if bv, ok := a.isBool(); ok {
			idx := 1
			if bv == truth0 {
				idx = 0
			}
			f.roleTrust(x.Cond, idx, t)
			f.flow(fn, b, idx, t, args, work)
			return nil
		}
		for idx := 0; idx < 2; idx++ {
			n := t.clone()
			if a.k == kTrustPred {
				if _, truth := core.Truth(x.Cond, idx); truth {
					n.cfg.trusted = true
				}
			}
			f.flow(fn, b, idx, n, args, work)
		}
		return nil
	case *ssa.Jump:
		f.flow(fn, in.Block(), 0, t, args, work)
		return nil
	case *ssa.Return:
		o := outcome{cfg: t.cfg}
		for _, rv := range x.Results {
			o.rets = append(o.rets, f.eval(rv, t, fn, args))
		}
		*outs = append(*outs, o)
		return nil
	case *ssa.Panic:
		return nil
	case *ssa.MakeClosure, *ssa.Alloc, *ssa.FieldAddr, *ssa.IndexAddr, *ssa.Field, *ssa.Index, *ssa.Slice, *ssa.MakeInterface,
		*ssa.ChangeType, *ssa.Convert, *ssa.ChangeInterface, *ssa.TypeAssert, *ssa.MakeChan, *ssa.MakeMap, *ssa.MakeSlice,
		*ssa.Lookup, *ssa.MapUpdate, *ssa.Send, *ssa.Select, *ssa.Range, *ssa.Next, *ssa.DebugRef, *ssa.SliceToArrayPointer, *ssa.MultiConvert:
		if v, ok := in.(ssa.Value); ok {
			if _, isConv := in.(*ssa.ChangeType); !isConv {
				delete(t.env, v)
			}
		}
		return []*tuple{t}
	}
	return []*tuple{t}
}

// roleTrust: taking a branch that asserts role == client counts as trust
// (the hub dials only SKIs the user registered).
func (f *fsm) roleTrust(cond ssa.Value, idx int, t *tuple) {
	v, truth := core.Truth(cond, idx)
	bo, ok := v.(*ssa.BinOp)
	if !ok || (bo.Op != token.EQL && bo.Op != token.NEQ) {
		return
	}
	isRole := func(x ssa.Value) bool {
		u, ok := x.(*ssa.UnOp)
		return ok && u.Op == token.MUL && f.connFieldAddr(u.X) == f.fRole
	}
	var other ssa.Value
	if isRole(bo.X) {
		other = bo.Y
	} else if isRole(bo.Y) {
		other = bo.X
	} else {
		return
	}
	c := core.ConstOf(other)
	if c == nil || !constant.Compare(c, token.EQL, f.roleClient) {
		return
	}
	if truth == (bo.Op == token.EQL) {
		t.cfg.trusted = true
	}
}

func (f *fsm) loadField(fld *types.Var, t *tuple) aval {
	switch fld {
	case f.fState:
		v, _ := constant.Int64Val(f.states[t.cfg.state].Val())
		return aval{k: kConst, c: constant.MakeInt64(v)}
	case f.fTimer:
		return boolVal(t.cfg.timer)
	case f.fReader:
		if t.cfg.reader {
			return aval{k: kNonNil}
		}
		return aval{k: kNil}
	case f.fRole:
		if t.cfg.role == 1 {
			return aval{k: kConst, c: f.roleClient}
		}
		return aval{k: kConst, c: f.roleServer}
	}
	return aval{}
}

func (f *fsm) binop(x *ssa.BinOp, t *tuple, fn *ssa.Function, args []aval) aval {
	if x.Op != token.EQL && x.Op != token.NEQ {
		return aval{}
	}
	a, b := f.eval(x.X, t, fn, args), f.eval(x.Y, t, fn, args)
	eq, known := false, false
	switch {
	case a.k == kConst && b.k == kConst && a.c.Kind() == b.c.Kind():
		eq, known = constant.Compare(a.c, token.EQL, b.c), true
	case a.k == kNil && b.k == kNil:
		eq, known = true, true
	case (a.k == kNil && b.k == kNonNil) || (a.k == kNonNil && b.k == kNil):
		eq, known = false, true
	}
	if !known {
		return aval{}
	}
	if x.Op == token.NEQ {
		eq = !eq
	}
	return boolVal(eq)
}

func (f *fsm) inT(s int8) bool {
	switch f.stateName(s) {
	case "SmeStateError", "SmeHelloStateAbortDone", "SmeHelloStateRemoteAbortDone", "SmeHelloStateRejected":
		return true
	}
	return false
}

// inP: post-trust states.
func (f *fsm) inP(s int8) bool {
	n := f.stateName(s)
	switch n {
	case "SmeHelloStateReadyInit", "SmeHelloStateReadyListen", "SmeHelloStateReadyTimeout", "SmeHelloStateOk",
		"SmeAccessMethodsRequest", "SmeStateApproved", "SmeStateComplete":
		return true
	}
	return strings.HasPrefix(n, "SmeProtH") || strings.HasPrefix(n, "SmePin")
}

func (f *fsm) effect(kind, tag string, fn *ssa.Function, pos token.Pos, cfg cfgT, ctx frameCtx) {
	k := kind + "|" + tag + "|" + f.p.FnName(fn)
	e := f.effects[k]
	if e == nil {
		e = &effectRec{kind: kind, tag: tag, fn: f.p.FnName(fn), pos: pos, cfgs: map[cfgT]bool{}, entry: map[string]bool{}}
		f.effects[k] = e
	}
	c := cfg
	e.cfgs[c] = true
	e.entry[ctx.entry] = true
}

func (f *fsm) storeField(fn *ssa.Function, st *ssa.Store, fld *types.Var, val aval, t *tuple, ctx frameCtx) []*tuple {
	switch fld {
	case f.fState:
		if val.k != kConst {
			f.problem("E1.state-store", f.p.FnName(fn), "handshake state is set to a value the analysis cannot resolve to a constant", st.Pos())
			// continue with every state
			var out []*tuple
			for i := range f.states {
				n := t.clone()
				n.cfg.state = int8(i)
				out = append(out, n)
			}
			return out
		}
		iv, _ := constant.Int64Val(val.c)
		to, ok := f.stateIdx[iv]
		if !ok {
			f.problem("E1.state-store", f.p.FnName(fn), fmt.Sprintf("handshake state is set to %d, which is not a declared state constant", iv), st.Pos())
			return []*tuple{t}
		}
		from := t.cfg.state
		t.cfg.moved = true
		if from != to {
			origin := fn
			if val.origin != nil {
				origin = val.origin
			}
			k := fmt.Sprintf("%d|%d|%d|%s", t.cfg.role, from, to, f.p.FnName(origin))
			e := f.edges[k]
			if e == nil {
				e = &fsmEdge{role: t.cfg.role, from: from, to: to, origin: f.p.FnName(origin), pos: st.Pos(), entries: map[string]bool{}, trusted: true, untrusted: map[string]bool{}}
				if val.pos.IsValid() {
					e.pos = val.pos
				}
				f.edges[k] = e
			}
			e.entries[ctx.entry] = true
			if !t.cfg.trusted {
				e.untrusted[ctx.entry] = true
				e.trusted = false
			}
		}
		t.cfg.state = to
		return []*tuple{t}
	case f.fTimer:
		b, ok := val.isBool()
		if !ok {
			n := t.clone()
			t.cfg.timer = false
			n.cfg.timer = true
			n.cfg.armed = true
			f.effect("arm", "", fn, st.Pos(), n.cfg, ctx)
			return []*tuple{t, n}
		}
		t.cfg.timer = b
		if b {
			t.cfg.armed = true
			f.effect("arm", "", fn, st.Pos(), t.cfg, ctx)
		}
		return []*tuple{t}
	case f.fReader:
		src := "other"
		if c, ok := st.Val.(*ssa.Call); ok && core.IsInvokeOf(c, f.mSetup) {
			src = "setup"
		}
		f.effect("readerstore", src, fn, st.Pos(), t.cfg, ctx)
		switch val.k {
		case kNil:
			t.cfg.reader = false
		default:
			t.cfg.reader = true
		}
		return []*tuple{t}
	}
	return []*tuple{t}
}

func (f *fsm) noteSpawn(fn *ssa.Function, g *ssa.Go, target *ssa.Function, t *tuple) {
	f.spawned[target] = true
	// does the spawned function always close the connection?
	if f.mustClose(target) {
		t.cfg.closing = true
	}
}

var mustCloseMemo = map[*ssa.Function]bool{}

// mustClose: every path of fn reaches a call of a function that runs the close-once.
func (f *fsm) mustClose(fn *ssa.Function) bool {
	m := core.NewMust(f.p, 3, func(in ssa.Instruction) bool {
		c := core.Common(in)
		if c == nil {
			return false
		}
		if _, isGo := in.(*ssa.Go); isGo {
			return false
		}
		if core.IsStaticCall(in, "(*sync.Once).Do") && f.connFieldAddr(c.Args[0]) == f.fOnce {
			return true
		}
		return false
	})
	return m.Fn(fn)
}

func (f *fsm) call(fn *ssa.Function, callInstr *ssa.Call, c *ssa.CallCommon, t *tuple, args []aval, ctx frameCtx, depth int) []*tuple {
	setRes := func(tt *tuple, rets []aval) {
		if callInstr == nil {
			return
		}
		delete(tt.env, callInstr)
		delete(tt.tup, callInstr)
		if len(rets) == 1 {
			f.setEnv(tt, callInstr, rets[0])
		} else if len(rets) > 1 {
			tt.tup[callInstr] = rets
		}
	}
	var pos token.Pos
	if callInstr != nil {
		pos = callInstr.Pos()
	} else {
		pos = c.Pos()
	}
	if c.IsInvoke() {
		m := c.Method
		is := func(x *types.Func) bool {
			return m == x || (m.Name() == x.Name() && types.Identical(m.Type(), x.Type()))
		}
		res := []aval(nil)
		switch {
		case is(f.mWrite):
			f.effect("send", ctx.tag, fn, pos, t.cfg, ctx)
		case is(f.mIsClosed):
			// contract of the transport (decided for package ws by C13.R2):
			// closed == true comes with a non-nil error
			n := t.clone()
			setRes(t, []aval{boolVal(true), {k: kNonNil}})
			setRes(n, []aval{boolVal(false), {}})
			return []*tuple{t, n}
		case is(f.mCloseData):
			f.effect("closeconn", "", fn, pos, t.cfg, ctx)
		case is(f.mSetup):
			f.effect("setup", "", fn, pos, t.cfg, ctx)
			res = []aval{{k: kNonNil}}
		case is(f.mClosedCB):
			f.effect("closecb", "", fn, pos, t.cfg, ctx)
		case is(f.mReportID):
			f.effect("reportid", "", fn, pos, t.cfg, ctx)
		case is(f.mDeliver):
			recvOK := false
			if fld, _ := core.LoadedField(c.Value); fld == f.fReader {
				recvOK = true
			}
			tag := "reader-field"
			if !recvOK {
				tag = "other-receiver"
			}
			f.effect("deliver", tag, fn, pos, t.cfg, ctx)
		case is(f.mPaired):
			argOK := false
			if len(c.Args) == 1 {
				if fld, _ := core.LoadedField(c.Args[0]); fld == f.fSKI {
					argOK = true
				}
			}
			if argOK {
				res = []aval{{k: kTrustPred}}
			}
		case is(f.mAuto):
			res = []aval{{k: kTrustPred}}
		}
		setRes(t, res)
		return []*tuple{t}
	}
	// sync.Once.Do on the close-once
	if callee := c.StaticCallee(); callee != nil && core.CalleeName(c) == "(*sync.Once).Do" {
		if f.connFieldAddr(c.Args[0]) == f.fOnce {
			if ctx.inOnce {
				// sync.Once.Do called from inside its own function: Do blocks on the Once's mutex forever
				f.problem("C11.R5 close-once-not-reentered", "re-entrant shutdownOnce.Do via "+shortFn(f.p.FnName(fn)), "the close-once is entered again from inside its own body (sync.Once.Do is not re-entrant): this goroutine deadlocks holding the Once, every other closer blocks behind it, and the connection end is never reported", pos)
				return nil
			}
			if t.cfg.closed {
				return []*tuple{t}
			}
			body := core.ClosureArg(c.Args[1])
			t.cfg.closed = true
			if body == nil || !f.inShip(body) {
				f.problem("E1.once", f.p.FnName(fn), "close-once body is not a function literal of package ship", pos)
				return []*tuple{t}
			}
			var out []*tuple
			octx := ctx
			octx.inOnce = true
			for _, o := range f.run(body, t.cfg, nil, octx, depth+1) {
				n := t.clone()
				n.cfg = o.cfg
				out = append(out, n)
			}
			return out
		}
		setRes(t, nil)
		return []*tuple{t}
	}
	callee := c.StaticCallee()
	if callee == nil {
		if g := core.ClosureArg(c.Value); g != nil {
			callee = g // immediately invoked literal
		}
	}
	// "is the current state one of these constants": slices.Contains / a variadic membership helper of the package
	if callee != nil {
		if res, ok := f.membership(callee, c, t, fn, args); ok {
			setRes(t, []aval{boolVal(res)})
			return []*tuple{t}
		}
	}
	if callee == nil || !f.inShip(callee) {
		setRes(t, nil)
		return []*tuple{t}
	}
	// argument values; message tag from a boxed model struct
	cargs := make([]aval, len(c.Args))
	nctx := ctx
	for i, a := range c.Args {
		cargs[i] = f.eval(a, t, fn, args)
		if _, isConst := a.(*ssa.Const); isConst {
			cargs[i].pos = pos
		}
		if mi, ok := a.(*ssa.MakeInterface); ok {
			if n := core.NamedOf(mi.X.Type()); n != nil && n.Obj().Pkg() != nil && n.Obj().Pkg().Name() == "model" {
				nctx.tag = n.Obj().Name()
			}
		}
	}
	var out []*tuple
	for _, o := range f.run(callee, t.cfg, cargs, nctx, depth+1) {
		n := t.clone()
		n.cfg = o.cfg
		setRes(n, o.rets)
		out = append(out, n)
	}
	return out
}

// entryResult is what one entry point does from one initial configuration.
type entryResult struct {
	entry string
	init  cfgT
	final []cfgT
}

// entries returns the entry points of the state machine: exported methods
// of *ShipConnection and every function spawned with `go` in package ship.
func (f *fsm) entryFuncs() []*ssa.Function {
	var out []*ssa.Function
	ms := f.p.Prog.MethodSets.MethodSet(types.NewPointer(f.conn))
	for i := 0; i < ms.Len(); i++ {
		sel := ms.At(i)
		if !sel.Obj().Exported() {
			continue
		}
		if fn := f.p.Prog.MethodValue(sel); fn != nil && fn.Blocks != nil {
			out = append(out, fn)
		}
	}
	return out
}

// extract runs all entries from all configurations to a fixpoint.
func (f *fsm) extract() []entryResult {
	var results []entryResult
	entries := f.entryFuncs()
	done := map[*ssa.Function]bool{}
	for round := 0; round < 6; round++ {
		// add spawned goroutine bodies discovered so far
		var sp []*ssa.Function
		for g := range f.spawned {
			sp = append(sp, g)
		}
		sort.Slice(sp, func(i, j int) bool { return sp[i].String() < sp[j].String() })
		for _, g := range sp {
			if !done[g] {
				entries = append(entries, g)
			}
		}
		for _, e := range entries {
			done[e] = true
		}
		f.iter++
		f.changed = false
		results = results[:0]
		for _, e := range entries {
			name := f.p.FnName(e)
			for role := int8(0); role < 2; role++ {
				for s := range f.states {
					for bits := 0; bits < 8; bits++ {
						init := cfgT{role: role, state: int8(s), timer: bits&1 != 0, reader: bits&2 != 0, closed: bits&4 != 0}
						args := make([]aval, len(e.Params))
						ctx := frameCtx{entry: name}
						outs := f.run(e, init, args, ctx, 0)
						er := entryResult{entry: name, init: init}
						seen := map[cfgT]bool{}
						for _, o := range outs {
							if !seen[o.cfg] {
								seen[o.cfg] = true
								er.final = append(er.final, o.cfg)
							}
						}
						results = append(results, er)
					}
				}
			}
		}
		newSpawn := false
		for g := range f.spawned {
			if !done[g] {
				newSpawn = true
			}
		}
		if !f.changed && !newSpawn {
			break
		}
	}
	return results
}

func (f *fsm) sortedEdges() []*fsmEdge {
	var es []*fsmEdge
	for _, e := range f.edges {
		es = append(es, e)
	}
	sort.Slice(es, func(i, j int) bool {
		a, b := es[i], es[j]
		if a.role != b.role {
			return a.role < b.role
		}
		if a.from != b.from {
			return a.from < b.from
		}
		if a.to != b.to {
			return a.to < b.to
		}
		return a.origin < b.origin
	})
	return es
}

func keysOf(m map[string]bool) []string {
	var ks []string
	for k := range m {
		ks = append(ks, k)
	}
	sort.Strings(ks)
	return ks
}

// constStateSlice: v is a slice literal / variadic argument list made of handshake-state constants.
func (f *fsm) constStateSlice(v ssa.Value) ([]int8, bool) {
	sl, ok := v.(*ssa.Slice)
	if !ok {
		return nil, false
	}
	al, ok := sl.X.(*ssa.Alloc)
	if !ok {
		return nil, false
	}
	var out []int8
	for _, ref := range *al.Referrers() {
		ia, ok := ref.(*ssa.IndexAddr)
		if !ok {
			continue
		}
		for _, r2 := range *ia.Referrers() {
			st, ok := r2.(*ssa.Store)
			if !ok || st.Addr != ssa.Value(ia) {
				continue
			}
			k := core.ConstOf(st.Val)
			if k == nil || !types.Identical(st.Val.Type(), f.stateType) {
				return nil, false
			}
			iv, _ := constant.Int64Val(k)
			idx, ok := f.stateIdx[iv]
			if !ok {
				return nil, false
			}
			out = append(out, idx)
		}
	}
	return out, len(out) > 0
}

// stateMembershipParam: fn only answers "is the connection's current state one of the elements of my slice
// parameter": boolean result, constant returns, true only behind an equality of the state with an element of
// that parameter, no stores and no calls other than the state getter. Returns the parameter's index.
func (f *fsm) stateMembershipParam(fn *ssa.Function) (int, bool) {
	if !f.inShip(fn) || fn.Signature.Results().Len() != 1 || len(fn.Blocks) == 0 {
		return 0, false
	}
	if b, ok := fn.Signature.Results().At(0).Type().Underlying().(*types.Basic); !ok || b.Kind() != types.Bool {
		return 0, false
	}
	pidx := -1
	for i, pa := range fn.Params {
		if st, ok := pa.Type().Underlying().(*types.Slice); ok && types.Identical(st.Elem(), f.stateType) {
			if pidx >= 0 {
				return 0, false
			}
			pidx = i
		}
	}
	if pidx < 0 {
		return 0, false
	}
	param := fn.Params[pidx]
	isState := func(v ssa.Value) bool {
		if fld, _ := core.LoadedField(v); fld == f.fState {
			return true
		}
		if c, ok := v.(*ssa.Call); ok {
			if g := c.Call.StaticCallee(); g != nil && f.inShip(g) && g.Signature.Params().Len() == 0 {
				okAll, any := true, false
				core.EachInstr(g, func(in ssa.Instruction) {
					if ret, isRet := in.(*ssa.Return); isRet && len(ret.Results) == 1 {
						any = true
						if fld, _ := core.LoadedField(core.ResultOf(ret, 0)); fld != f.fState {
							okAll = false
						}
					}
				})
				return okAll && any
			}
		}
		return false
	}
	isElem := func(v ssa.Value) bool {
		u, ok := v.(*ssa.UnOp)
		if !ok {
			return false
		}
		ia, ok := u.X.(*ssa.IndexAddr)
		return ok && ia.X == ssa.Value(param)
	}
	okShape, hasEq := true, false
	var eqs []*ssa.BinOp
	core.EachInstr(fn, func(in ssa.Instruction) {
		switch x := in.(type) {
		case *ssa.Store, *ssa.MapUpdate, *ssa.Send, *ssa.Go, *ssa.Defer:
			okShape = false
		case *ssa.Call:
			if !isState(x) && !isBuiltin(x, "len") {
				okShape = false
			}
		case *ssa.BinOp:
			if x.Op == token.EQL && ((isState(x.X) && isElem(x.Y)) || (isState(x.Y) && isElem(x.X))) {
				hasEq = true
				eqs = append(eqs, x)
			}
		case *ssa.Return:
			if k := core.ConstOf(core.ResultOf(x, 0)); k == nil {
				okShape = false
			} else if constant.BoolVal(k) {
				// true only behind the equality
				eqEdge := func(b *ssa.BasicBlock, idx int) bool {
					i := core.BlockIf(b)
					if i == nil {
						return false
					}
					v, truth := core.Truth(i.Cond, idx)
					bo, ok := v.(*ssa.BinOp)
					if !ok || !truth {
						return false
					}
					return bo.Op == token.EQL && ((isState(bo.X) && isElem(bo.Y)) || (isState(bo.Y) && isElem(bo.X)))
				}
				if !core.Guarded(x, eqEdge) {
					okShape = false
				}
			}
		}
	})
	return pidx, okShape && hasEq
}

// membership evaluates slices.Contains(constStates, state) and calls of a state-membership helper exactly: the
// interpreter knows the current state.
func (f *fsm) membership(callee *ssa.Function, c *ssa.CallCommon, t *tuple, fn *ssa.Function, args []aval) (bool, bool) {
	in := func(set []int8) bool {
		for _, s := range set {
			if s == t.cfg.state {
				return true
			}
		}
		return false
	}
	if strings.HasPrefix(core.CalleeName(c), "slices.Contains[") && len(c.Args) == 2 {
		set, ok := f.constStateSlice(c.Args[0])
		if !ok {
			return false, false
		}
		a := f.eval(c.Args[1], t, fn, args)
		if a.k != kConst {
			return false, false
		}
		cur, _ := constant.Int64Val(f.states[t.cfg.state].Val())
		if v, exact := constant.Int64Val(a.c); !exact || v != cur {
			return false, false // not the current state: leave it unknown
		}
		return in(set), true
	}
	if f.membCache == nil {
		f.membCache = map[*ssa.Function]int{}
	}
	pidx, seen := f.membCache[callee]
	if !seen {
		pidx = -1
		if i, ok := f.stateMembershipParam(callee); ok {
			pidx = i
		}
		f.membCache[callee] = pidx
	}
	if pidx < 0 || pidx >= len(c.Args) {
		return false, false
	}
	set, ok := f.constStateSlice(c.Args[pidx])
	if !ok {
		return false, false
	}
	return in(set), true
}
