package rules

import (
	"fmt"
	"go/token"
	"go/types"
	"golang.org/x/tools/go/ssa"
	"os"
	"sort"
	"strings"

	"shipverif/internal/core"
)

func init() {
	register("C04", checkC04)
}

// cached extraction per program (several properties use the same automaton)
var fsmCache = map[*core.Program]*fsmRun{}

type fsmRun struct {
	f       *fsm
	results []entryResult
}

func getFSM(p *core.Program, r *core.Report, rule string) *fsmRun {
	if fr, ok := fsmCache[p]; ok {
		if fr == nil {
			r.Unresolved(rule, "handshake automaton anchors")
		}
		return fr
	}
	f := newFSM(p, r, rule)
	if f == nil {
		fsmCache[p] = nil
		return nil
	}
	fr := &fsmRun{f: f}
	fr.results = f.extract()
	fsmCache[p] = fr
	if os.Getenv("SHIPVERIF_DUMP") != "" {
		for _, e := range f.sortedEdges() {
			fmt.Printf("EDGE %s %s -> %s  origin=%s trusted=%v entries=%v\n", f.roleName(e.role), f.stateName(e.from), f.stateName(e.to), e.origin, e.trusted, keysOf(e.entries))
		}
		var ks []string
		for k := range f.effects {
			ks = append(ks, k)
		}
		sort.Strings(ks)
		for _, k := range ks {
			e := f.effects[k]
			st := map[string]bool{}
			for c := range e.cfgs {
				st[f.stateName(c.state)] = true
			}
			fmt.Printf("EFFECT %s tag=%s fn=%s states=%v entries=%v\n", e.kind, e.tag, e.fn, keysOf(st), keysOf(e.entry))
		}
		fmt.Printf("STATS runs=%d memoHits=%d tuples=%d memo=%d\n", f.stats.runs, f.stats.memoHits, f.stats.tuples, len(f.memo))
	}
	return fr
}

// fsmCommon fills the parts of the report every automaton-based check shares.
func fsmCommon(fr *fsmRun, r *core.Report) {
	f := fr.f
	for _, pb := range f.problems {
		if strings.HasPrefix(pb.rule, "E1.") {
			r.Fail(pb.rule, pb.key, f.p.Pos(pb.pos), pb.msg)
		}
	}
	r.Counts["states"] = len(f.states)
	r.Counts["edges_extracted"] = len(f.edges)
	r.Counts["effect_sites"] = len(f.effects)
	r.Counts["entry_runs"] = len(fr.results)
	r.Counts["function_summaries"] = len(f.memo)
	ent := map[string]bool{}
	for _, er := range fr.results {
		ent[er.entry] = true
	}
	r.Counts["entry_points"] = len(ent)
	r.Exhaustive = true
	r.Assumptions = append(r.Assumptions,
		"callbacks into the application (info provider, data reader) do not re-enter the same connection synchronously",
		"all ShipConnection field accesses in package ship refer to the receiver connection",
		"SetupRemoteDevice returns a non-nil reader")
}

// strip the receiver prefix for compact keys
func shortFn(s string) string {
	return strings.ReplaceAll(s, "(*ship.ShipConnection).", "")
}

// allowedEdge is the SHIP 1.0.1 state graph (13.4.3 - 13.4.6) in terms of
// the model constants. role-specific where the diagram branches on the role.
func allowedEdge(role int8, from, to string) bool {
	if to == "SmeStateError" {
		return true // every state may end in the error state; Error is absorbing (checked by R2)
	}
	type e struct{ a, b string }
	common := map[e]bool{
		{"CmiStateClientSend", "CmiStateClientWait"}:                              true,
		{"CmiStateClientWait", "CmiStateClientEvaluate"}:                          true,
		{"CmiStateClientEvaluate", "SmeHelloState"}:                               true,
		{"CmiStateServerWait", "CmiStateServerEvaluate"}:                          true,
		{"CmiStateServerEvaluate", "SmeHelloState"}:                               true,
		{"SmeHelloState", "SmeHelloStateReadyInit"}:                               true,
		{"SmeHelloStateReadyInit", "SmeHelloStateReadyListen"}:                    true,
		{"SmeHelloStateReadyInit", "SmeHelloStateAbort"}:                          true,
		{"SmeHelloStateReadyListen", "SmeHelloStateOk"}:                           true,
		{"SmeHelloStateReadyListen", "SmeHelloStateReadyTimeout"}:                 true,
		{"SmeHelloStateReadyTimeout", "SmeHelloStateAbort"}:                       true,
		{"SmeHelloStateReadyListen", "SmeHelloStateAbort"}:                        true,
		{"SmeHelloStateReadyListen", "SmeHelloStateRemoteAbortDone"}:              true,
		{"SmeHelloStateReadyListen", "SmeHelloStateRejected"}:                     true,
		{"SmeHelloStatePendingInit", "SmeHelloStatePendingListen"}:                true,
		{"SmeHelloStatePendingListen", "SmeHelloStateReadyInit"}:                  true,
		{"SmeHelloStatePendingListen", "SmeHelloStatePendingTimeout"}:             true,
		{"SmeHelloStatePendingTimeout", "SmeHelloStateAbort"}:                     true,
		{"SmeHelloStatePendingListen", "SmeHelloStateAbort"}:                      true,
		{"SmeHelloStatePendingListen", "SmeHelloStateRemoteAbortDone"}:            true,
		{"SmeHelloStateAbort", "SmeHelloStateAbortDone"}:                          true,
		{"SmeProtHStateServerInit", "SmeProtHStateServerListenProposal"}:          true,
		{"SmeProtHStateServerListenProposal", "SmeProtHStateServerListenConfirm"}: true,
		{"SmeProtHStateServerListenConfirm", "SmeProtHStateServerOk"}:             true,
		{"SmeProtHStateClientInit", "SmeProtHStateClientListenChoice"}:            true,
		{"SmeProtHStateClientListenChoice", "SmeProtHStateClientOk"}:              true,
		{"SmeProtHStateClientOk", "SmePinStateCheckInit"}:                         true,
		{"SmeProtHStateServerOk", "SmePinStateCheckInit"}:                         true,
		{"SmePinStateCheckInit", "SmePinStateCheckListen"}:                        true,
		{"SmePinStateCheckListen", "SmePinStateCheckOk"}:                          true,
		{"SmePinStateCheckOk", "SmeAccessMethodsRequest"}:                         true,
		{"SmeAccessMethodsRequest", "SmeStateApproved"}:                           true,
		{"SmeStateApproved", "SmeStateComplete"}:                                  true,
	}
	if common[e{from, to}] {
		return true
	}
	if role == 1 { // client
		switch (e{from, to}) {
		case e{"CmiStateInitStart", "CmiStateClientSend"}, e{"SmeHelloStateOk", "SmeProtHStateClientInit"}:
			return true
		}
	} else {
		switch (e{from, to}) {
		case e{"CmiStateInitStart", "CmiStateServerWait"}, e{"SmeHelloStateOk", "SmeProtHStateServerInit"}, e{"SmeHelloState", "SmeHelloStatePendingInit"}:
			return true
		}
	}
	return false
}

func checkC04(p *core.Program, r *core.Report) {
	const R1 = "C04.R1 edge-containment"
	const R2 = "C04.R2 terminal-is-final"
	const R3 = "C04.R3 no-timer-left-armed"
	const R4 = "C04.R4 transport-closed"
	r.Explanation = "C04 (state graph, terminal outcomes final): the transition relation of the handshake is extracted from package ship by finite-domain abstract interpretation of the SSA (tracked: role, state, timer flag, reader set, close-once; every entry point - peer message, timer fire, user approve/abort, transport error, close, goroutines - from every one of the 40 states, every transport write may fail). Decided: (R1) every extracted edge is an edge of the SHIP 1.0.1 state graph for that role; (R2) no edge leaves a terminal state except into Error, no timer is armed and nothing but the closing exchange is sent in a terminal state; (R3) whenever a path enters a terminal state or Complete, or runs the close routine, the timer flag is false at its end; (R4) every path that enters a terminal state runs the close-once or spawns a goroutine that must. Not decided: timer durations / real time."
	r.Rule(R1, "Edges(extracted automaton, role) ⊆ SHIP 1.0.1 state graph (13.4.3-13.4.6) ∪ {s→Error}")
	r.Rule(R2, "no edge t→s with t terminal, s≠Error; no arm and no send other than ConnectionClose at a terminal state (SPINE data writer entry exempt: it is gated by the transport's closed check)")
	r.Rule(R3, "entry paths that enter T∪{Complete} or run the close-once end with the timer flag false; no arm in T∪{Complete}")
	r.Rule(R4, "entry paths that enter a terminal state have run the close-once or spawned a goroutine that always runs it")
	fr := getFSM(p, r, R1)
	if fr == nil {
		return
	}
	f := fr.f
	fsmCommon(fr, r)
	// R1 / R2 edges
	for _, e := range f.sortedEdges() {
		from, to := f.stateName(e.from), f.stateName(e.to)
		key := fmt.Sprintf("edge role=%s %s->%s in %s", f.roleName(e.role), from, to, shortFn(e.origin))
		path := []string{"entries: " + shortFn(strings.Join(keysOf(e.entries), ", "))}
		if f.inT(e.from) {
			if to == "SmeStateError" {
				r.OK(R2, key, p.Pos(e.pos), "terminal state to Error (absorbing)")
			} else {
				r.Fail(R2, key, p.Pos(e.pos), fmt.Sprintf("a terminal state is left: %s -> %s (set in %s)", from, to, shortFn(e.origin)), path...)
			}
			continue
		}
		if allowedEdge(e.role, from, to) {
			r.OK(R1, key, p.Pos(e.pos), "edge of the SHIP state graph")
		} else {
			r.Fail(R1, key, p.Pos(e.pos), fmt.Sprintf("transition %s -> %s (role %s, set in %s) is not an edge of the SHIP 1.0.1 state graph", from, to, f.roleName(e.role), shortFn(e.origin)), path...)
		}
		if len(r.Samples) < 12 {
			r.Sample(map[string]any{"edge": from + "->" + to, "role": f.roleName(e.role), "set_in": shortFn(e.origin), "entries": keysOf(e.entries)})
		}
	}
	r.Floor(R1, 40)
	// R2 effects at terminal states
	dataWriterEntry := ""
	if m := p.Method("ship", "ShipConnection", "WriteShipMessageWithPayload"); m != nil {
		dataWriterEntry = p.FnName(m)
	}
	var eks []string
	for k := range f.effects {
		eks = append(eks, k)
	}
	sort.Strings(eks)
	for _, k := range eks {
		e := f.effects[k]
		switch e.kind {
		case "arm":
			bad := map[string]bool{}
			for c := range e.cfgs {
				if f.inT(c.state) || f.stateName(c.state) == "SmeStateComplete" {
					bad[f.stateName(c.state)] = true
				}
			}
			key := "arm in " + shortFn(e.fn)
			if len(bad) > 0 {
				r.Fail(R2, key, p.Pos(e.pos), "the handshake timer is armed in terminal/completed state(s) "+strings.Join(keysOf(bad), ","), "entries: "+shortFn(strings.Join(keysOf(e.entry), ", ")))
			} else {
				r.OK(R2, key, p.Pos(e.pos), "timer is only armed in progress states")
			}
		case "send":
			bad := map[string]bool{}
			for c := range e.cfgs {
				if f.inT(c.state) && e.tag != "ConnectionClose" {
					bad[f.stateName(c.state)] = true
				}
			}
			onlyData := len(e.entry) == 1 && e.entry[dataWriterEntry]
			key := "send " + e.tag + " in " + shortFn(e.fn)
			if len(bad) > 0 && !onlyData {
				r.Fail(R2, key, p.Pos(e.pos), "a message other than the closing exchange is sent in terminal state(s) "+strings.Join(keysOf(bad), ","), "entries: "+shortFn(strings.Join(keysOf(e.entry), ", ")))
			} else {
				r.OK(R2, key, p.Pos(e.pos), "no handshake message is sent in a terminal state")
			}
		}
	}
	// a received close announce/confirm is handled to the end before control returns to the receive loop
	closeModel := p.Named("model", "ConnectionClose")
	runsOnce := core.NewMust(p, 3, func(in ssa.Instruction) bool {
		c := core.Common(in)
		if c == nil {
			return false
		}
		if _, isGo := in.(*ssa.Go); isGo {
			return false
		}
		return core.IsStaticCall(in, "(*sync.Once).Do") && f.connFieldAddr(c.Args[0]) == f.fOnce
	})
	nclose := 0
	for _, fn := range p.FuncsOf("ship") {
		// functions that decode a received ConnectionClose
		decodes := false
		core.EachInstr(fn, func(in ssa.Instruction) {
			c, ok := in.(*ssa.Call)
			if !ok {
				return
			}
			for _, a := range c.Call.Args {
				if mi, ok := a.(*ssa.MakeInterface); ok && closeModel != nil && core.NamedOf(mi.X.Type()) == closeModel {
					if _, isPtr := mi.X.Type().(*types.Pointer); isPtr {
						decodes = true
					}
				}
			}
		})
		if !decodes {
			continue
		}
		// every comparison of the decoded phase with announce/confirm: its taken branch must close synchronously
		for _, b := range fn.Blocks {
			iff := core.BlockIf(b)
			if iff == nil {
				continue
			}
			for idx := range b.Succs {
				v, truth := core.Truth(iff.Cond, idx)
				bo, ok := v.(*ssa.BinOp)
				if !ok || bo.Op != token.EQL || !truth {
					continue
				}
				c, isStr := strConst(bo.Y)
				if !isStr || (c != "announce" && c != "confirm") || !core.TypeIs(bo.Y.Type(), modelPath, "ConnectionClosePhaseType") {
					continue
				}
				nclose++
				first := b.Succs[idx].Instrs[0]
				key := "received close " + c + " in " + shortFn(p.FnName(fn)) + " closes before returning"
				var bad ssa.Instruction
				if !runsOnce.Instr(first) {
					bad = core.PathSearch(fn, first, core.IsReturn, runsOnce.Instr, nil)
				}
				if bad != nil {
					r.Fail(R2, key, p.Pos(first.Pos()), "after a received close "+c+" the handler returns to the receive loop without having run the close routine (e.g. it only schedules the close): messages the peer sends right after are still fed into the state machine, which reports progress states, sends handshake messages and re-arms the timer after the closing exchange")
				} else {
					r.OK(R2, key, p.Pos(first.Pos()), "the close routine runs synchronously on every path")
				}
			}
		}
	}
	if nclose < 2 {
		r.Fail(R2, "received close handling", "", "the handler of the peer's close announce/confirm was not found")
	}
	r.Floor(R2, 5)
	fsmTerminalRules(fr, r, R3, R4)
	r.Floor(R3, 4)
	r.Floor(R4, 4)

	// R6: the close routine itself closes the transport and reports the end on each of its paths (shared with C11.R1/R2)
	const R6 = "C04.R6 close-routine-closes"
	r.Rule(R6, "every path through the close-once body closes the transport and reports the connection end exactly once - also when the write of the close announce fails (rule shared with C11.R1/R2)")
	checkShipCloseOnce(p, r, R6, R6)
	const R7 = "C04.R7 transport-close-really-closes"
	r.Rule(R7, "the transport's close routine closes the stop channel and the socket on every path, and CloseDataConnection reaches it on every path (shared with C13.R1/R8): 'the transport gets closed' also when a write failed first or the close frame cannot be written")
	importRules(p, r, "C13", map[string]string{"C13.R1 close-routine-releases": R7, "C13.R8 local-close-always-closes": R7}, nil)

	// R5: the state setter reports every change upward, with this connection's SKI and the new state
	const R5 = "C04.R5 every-change-reported"
	r.Rule(R5, "in the function that stores the handshake state from its parameter, every path on which old != new invokes HandleShipHandshakeStateUpdate(remoteSKI, {State: new})")
	nset := 0
	for _, fn := range p.FuncsOf("ship") {
		var store ssa.Instruction
		var param ssa.Value
		core.EachInstr(fn, func(in ssa.Instruction) {
			if fld, _, v := core.StoredField(in); fld == f.fState {
				if pa, ok := core.Canon(v).(*ssa.Parameter); ok {
					store, param = in, pa
				}
			}
		})
		if store == nil {
			continue
		}
		nset++
		name := shortFn(p.FnName(fn))
		sameEdge := func(b *ssa.BasicBlock, idx int) bool { // edge asserting old == new
			i := core.BlockIf(b)
			if i == nil {
				return false
			}
			v, truth := core.Truth(i.Cond, idx)
			bo, ok := v.(*ssa.BinOp)
			if !ok || (bo.Op != token.EQL && bo.Op != token.NEQ) {
				return false
			}
			if core.Canon(bo.X) != param && core.Canon(bo.Y) != param {
				return false
			}
			return truth == (bo.Op == token.EQL)
		}
		isReport := func(in ssa.Instruction) bool {
			if !core.IsInvokeOf(in, f.mUpd) {
				return false
			}
			c := core.Common(in)
			if fl, _ := core.LoadedField(c.Args[0]); fl != f.fSKI {
				return false
			}
			// second argument: a ShipState whose State field was stored from the parameter
			okState := false
			if u, ok := c.Args[1].(*ssa.UnOp); ok {
				if al, ok := u.X.(*ssa.Alloc); ok {
					for _, ref := range *al.Referrers() {
						if fa, ok := ref.(*ssa.FieldAddr); ok && core.FieldVar(fa).Name() == "State" {
							for _, r2 := range *fa.Referrers() {
								if st, ok := r2.(*ssa.Store); ok && core.Canon(st.Val) == param {
									okState = true
								}
							}
						}
					}
				}
			}
			return okState
		}
		key := "setter " + name + " reports changes"
		if bad := core.PathSearch(fn, store, core.IsReturn, isReport, sameEdge); bad != nil {
			r.Fail(R5, key, p.Pos(bad.Pos()), "a path changes the handshake state without reporting HandleShipHandshakeStateUpdate(remoteSKI, new state): the reported state sequence (and the pairing state the hub derives from it) misses transitions")
		} else {
			r.OK(R5, key, p.Pos(store.Pos()), "every change is reported with the connection's SKI and the new state")
		}
	}
	if nset == 0 {
		r.Fail(R5, "state setter", "", "no function stores the handshake state from a parameter")
	}
	// R8 (kept last: C14 imports C04.R3 in turn)
	const R8 = "C04.R8 no-stale-timeout-after-the-end"
	r.Rule(R8, "a timer that was stopped or replaced cannot fire and an expiring timer touches the bookkeeping only as the armed one (shared with C14.R1/R2/R3): otherwise a replaced timer un-registers its successor, which then survives every later stop - the terminal state is reached with a timer armed that nothing can cancel")
	importRules(p, r, "C14", map[string]string{"C14.R1 per-arm-token": R8, "C14.R2 non-lossy-stop": R8, "C14.R3 fire-revalidation": R8}, nil)
}

func sortedKeys[T any](m map[string]T) []string {
	var ks []string
	for k := range m {
		ks = append(ks, k)
	}
	sort.Strings(ks)
	return ks
}

func init() {
	register("C01", checkC01)
}

func checkC01(p *core.Program, r *core.Report) {
	const R1 = "C01.R1 trust-cut"
	const R2 = "C01.R2 setup-gate"
	const R3 = "C01.R3 data-gate"
	const R4 = "C01.R4 hub-trust-writers"
	r.Explanation = "C01 (trust gate): decided as an inductive invariant over the automaton extracted from package ship (all entries x all 40 states x both roles, every write may fail): (R1) every transition from a pre-trust state into a post-trust state (ready*, hello-ok, protocol, pin, access, approved, complete) is taken on a path that passed the positive edge of a trust predicate (IsRemoteServiceForSKIPaired(remoteSKI), IsAutoAcceptEnabled(), role == client), or is the PendingListen->ReadyInit step of the user-approval entry; so 'state is post-trust' implies 'trust was granted', whatever message/timeout/error sequence the peer causes; (R2) the remote-device setup callback is only reachable in state Approved; (R3) the SPINE reader is written only with the result of that callback, payloads are delivered only through that field and only when it is set; (R4) in package hub trust is set only by RegisterRemoteSKI or on a hello-ok state report, the trust predicates return exactly the stored flags, and ApprovePendingHandshake is called only from RegisterRemoteSKI; (R6) the hub dials - and thereby creates role-trusted client connections - only behind the paired-or-queued gate; (R5) a user cancel reaches the connection: the abort entry takes both waiting states to a terminal state on every path, and cancel/unregister find the live connection under every spelling of the SKI. Not decided: the application's own AllowWaitingForTrust / UI logic."
	r.Rule(R1, "every extracted edge s->K with s pre-trust, K post-trust is on a trusted path, or is PendingListen->ReadyInit in the approve entry")
	r.Rule(R2, "SetupRemoteDevice is invoked only at state Approved")
	r.Rule(R3, "dataReader is stored only from SetupRemoteDevice's result at state Approved; HandleShipPayloadMessage is invoked only on that field and only when it is set")
	r.Rule(R4, "hub: SetTrusted(true) only in RegisterRemoteSKI or guarded by state == SmeHelloStateOk; trust predicates return the stored flags; ApprovePendingHandshake only called from RegisterRemoteSKI")
	fr := getFSM(p, r, R1)
	if fr == nil {
		return
	}
	f := fr.f
	fsmCommon(fr, r)
	approve := ""
	if m := p.Method("ship", "ShipConnection", "ApprovePendingHandshake"); m != nil {
		approve = p.FnName(m)
	} else {
		r.Unresolved(R1, "ship.ShipConnection.ApprovePendingHandshake")
	}
	nTrustEdges := 0
	for _, e := range f.sortedEdges() {
		if f.inP(e.from) || !f.inP(e.to) {
			continue
		}
		nTrustEdges++
		from, to := f.stateName(e.from), f.stateName(e.to)
		key := fmt.Sprintf("edge role=%s %s->%s in %s", f.roleName(e.role), from, to, shortFn(e.origin))
		var bad []string
		for _, ent := range keysOf(e.untrusted) {
			if ent == approve && from == "SmeHelloStatePendingListen" && to == "SmeHelloStateReadyInit" {
				continue
			}
			bad = append(bad, shortFn(ent))
		}
		if len(bad) > 0 {
			r.Fail(R1, key, p.Pos(e.pos), fmt.Sprintf("the handshake advances from pre-trust state %s to post-trust state %s without a local trust decision on the path (entry %s)", from, to, strings.Join(bad, ",")))
		} else {
			r.OK(R1, key, p.Pos(e.pos), "taken only on trusted paths / by user approval from PendingListen")
		}
		r.Sample(map[string]any{"trust_edge": from + "->" + to, "role": f.roleName(e.role), "set_in": shortFn(e.origin), "entries": keysOf(e.entries), "untrusted_entries": keysOf(e.untrusted)})
	}
	r.Counts["trust_edges"] = nTrustEdges
	r.Floor(R1, 3)
	for _, k := range sortedKeys(f.effects) {
		e := f.effects[k]
		states := map[string]bool{}
		noReader := false
		for c := range e.cfgs {
			states[f.stateName(c.state)] = true
			if !c.reader {
				noReader = true
			}
		}
		switch e.kind {
		case "setup":
			for _, fn := range p.FuncsOf("ship") {
				core.EachInstr(fn, func(in ssa.Instruction) {
					if !core.IsInvokeOf(in, f.mSetup) {
						return
					}
					c := core.Common(in)
					fl, _ := core.LoadedField(c.Args[0])
					k2 := "setup arguments in " + shortFn(p.FnName(fn))
					if fl == f.fSKI && len(fn.Params) > 0 && core.Canon(c.Args[1]) == ssa.Value(fn.Params[0]) {
						r.OK(R2, k2, p.Pos(in.Pos()), "SetupRemoteDevice(remoteSKI, this connection)")
					} else {
						r.Fail(R2, k2, p.Pos(in.Pos()), "the setup callback is not given (this connection's SKI, this connection as writer): a device is set up under another identity")
					}
				})
			}
			key := "setup in " + shortFn(e.fn)
			if len(states) == 1 && states["SmeStateApproved"] {
				r.OK(R2, key, p.Pos(e.pos), "only at state Approved")
			} else {
				r.Fail(R2, key, p.Pos(e.pos), "the remote-device setup callback is reachable in state(s) "+strings.Join(keysOf(states), ","))
			}
		case "readerstore":
			key := "reader-store in " + shortFn(e.fn)
			if e.tag == "setup" && len(states) == 1 && states["SmeStateApproved"] {
				r.OK(R3, key, p.Pos(e.pos), "reader set from SetupRemoteDevice at Approved")
			} else {
				r.Fail(R3, key, p.Pos(e.pos), fmt.Sprintf("the SPINE reader is stored from %s in state(s) %s", e.tag, strings.Join(keysOf(states), ",")))
			}
		case "deliver":
			key := "deliver in " + shortFn(e.fn)
			if e.tag != "reader-field" {
				r.Fail(R3, key, p.Pos(e.pos), "a SPINE payload is delivered to a reader that is not the connection's dataReader field")
			} else if noReader {
				r.Fail(R3, key, p.Pos(e.pos), "a SPINE payload is delivered although the reader was not set (handshake not completed)")
			} else {
				r.OK(R3, key, p.Pos(e.pos), "delivery only through the installed reader")
			}
		}
	}
	// stores to the reader anywhere in package ship (also code the interpreter did not reach)
	for _, s := range core.Sites(p.FuncsOf("ship"), func(in ssa.Instruction) bool { return core.IsFieldStore(in, f.fReader) }) {
		_, _, v := core.StoredField(s.In)
		key := "reader-write in " + shortFn(p.FnName(s.Fn))
		if c, ok := v.(*ssa.Call); ok && core.IsInvokeOf(c, f.mSetup) {
			r.OK(R3, key, p.Pos(s.In.Pos()), "written with the result of SetupRemoteDevice")
		} else {
			r.Fail(R3, key, p.Pos(s.In.Pos()), "dataReader is written with something other than the result of the setup callback")
		}
	}
	r.Floor(R2, 1)
	r.Floor(R3, 3)
	checkHubTrust(p, r, R4)
	// R6: the hub dials (client role = trusted by role) only behind the paired-or-queued gate
	const R6 = "C01.R6 dial-gate"
	r.Rule(R6, "single gated dial function; client-role construction only there; mDNS report starts attempts only for paired-or-queued SKIs; Queued only set by RegisterRemoteSKI (rule shared with C10.R1)")
	if ha := findHub(p, r, R6); ha != nil {
		q := connStateEdge(p, "ConnectionStateQueued")
		gQueuedConst = p.Const("api", "ConnectionStateQueued")
		queuedEdgeGlobal = q
		checkDialGate(p, r, ha, R6, orEdges(pairedEdge, q))
	}
	// R5: cancelling / unregistering acts on the live connection, so the handshake cannot complete later
	const R5 = "C01.R5 cancel-reaches-the-connection"
	r.Rule(R5, "the abort entry ends terminal from both waiting states (ship automaton); CancelPairingWithSKI / UnregisterRemoteSKI look the connection up under the normalised SKI (taint rule of C15 restricted to them)")
	checkAbortEntry(p, r, R5)
	if n := checkSKINormalised(p, r, R5, map[string]bool{"UnregisterRemoteSKI": true, "CancelPairingWithSKI": true}); n < 2 {
		r.Fail(R5, "entries", "", "CancelPairingWithSKI / UnregisterRemoteSKI not found")
	}
	// ... and leaves no trust or queued state behind (rule shared with C10.R2/R3)
	checkRevocation(p, r, R5, R5)
	// ... and finds the live connection: the registry entry of a connection is only removed by that connection's own end
	importRules(p, r, "C11", map[string]string{"C11.R3 registry-identity-atomic": R5}, nil)
	// R7: the SKI the trust predicates are asked about is the one the peer proved (rule shared with C02.R1)
	const R7 = "C01.R7 trusted-identity-is-proven"
	r.Rule(R7, "the SKI under which a connection is created - and the trust predicates are asked about - is the peer's proven one: extracted from the first certificate of this connection's TLS state, bound to that certificate's public key, compared with the dialled SKI on every dial attempt, with every refusing branch closing the socket (rules shared with C02.R1/R2/R4)")
	importRules(p, r, "C02", map[string]string{"C02.R1 identity-provenance": R7, "C02.R2 refusal-order": R7, "C02.R4 ski-bound-to-key": R7}, nil)
	r.Floor(R7, 10)
	const R9 = "C01.R9 only-specified-transitions"
	r.Rule(R9, "every transition of the extracted automaton is one of the SHIP state graph for that role (shared with C04.R1): an extra edge - e.g. a prolongation that re-enters ready-init - opens a state in which the user's cancel is ignored, after which the handshake of the cancelled SKI goes on to hello-ok")
	importRules(p, r, "C04", map[string]string{"C04.R1 edge-containment": R9}, nil)
	const R8 = "C01.R8 no-dial-permission-from-a-handshake-state"
	r.Rule(R8, "no handshake state other than the one a connection starts in is mapped to ConnectionStateQueued, the marker the dial filters accept like a registration (shared with C18.R3): otherwise an inbound connection of a SKI nobody registered leaves the marker behind, the hub dials that SKI in the client role - where the trust gate does not apply - completes and persists trust")
	importRules(p, r, "C18", map[string]string{"C18.R3 one-total-mapping": R8}, func(key string) bool {
		return strings.Contains(key, "maps to Queued") || strings.Contains(key, "mapping total")
	})
}

// fsmTerminalRules: (R3) timer stopped when a path enters a terminal or the
// completed state or runs the close routine; (R4) entering a terminal state
// closes the transport. R3 may be "" to skip it.
func fsmTerminalRules(fr *fsmRun, r *core.Report, R3, R4 string) {
	f := fr.f
	// R3 / R4 over entry results (connections that were open at entry)
	type agg struct {
		ok   bool
		from map[string]bool
	}
	r3, r4 := map[string]*agg{}, map[string]*agg{}
	for _, er := range fr.results {
		if er.init.closed {
			continue
		}
		for _, fin := range er.final {
			doneState := func(s int8) bool { return f.inT(s) || f.stateName(s) == "SmeStateComplete" }
			entered := !doneState(er.init.state) && doneState(fin.state)
			ranClose := fin.closed && !er.init.closed
			if entered || ranClose {
				k := shortFn(er.entry) + " ends-in " + f.stateName(fin.state)
				a := r3[k]
				if a == nil {
					a = &agg{ok: true, from: map[string]bool{}}
					r3[k] = a
				}
				if fin.timer {
					a.ok = false
					a.from[f.stateName(er.init.state)] = true
				}
			}
			if !f.inT(er.init.state) && f.inT(fin.state) {
				k := shortFn(er.entry) + " enters " + f.stateName(fin.state)
				a := r4[k]
				if a == nil {
					a = &agg{ok: true, from: map[string]bool{}}
					r4[k] = a
				}
				if !fin.closed && !fin.closing {
					a.ok = false
					a.from[f.stateName(er.init.state)] = true
				}
			}
		}
	}
	for _, k := range sortedKeys(r3) {
		if R3 == "" {
			break
		}
		a := r3[k]
		if a.ok {
			r.OK(R3, k, "", "timer flag false at the end of every such path")
		} else {
			r.Fail(R3, k, "", "the handshake timer can be left armed when the entry starts in "+strings.Join(keysOf(a.from), ","))
		}
	}
	for _, k := range sortedKeys(r4) {
		a := r4[k]
		if a.ok {
			r.OK(R4, k, "", "close-once ran or a closing goroutine was spawned")
		} else {
			r.Fail(R4, k, "", "a terminal state is entered without closing the transport when the entry starts in "+strings.Join(keysOf(a.from), ","))
		}
	}
}
