package rules

import (
	"fmt"
	"go/constant"
	"go/token"
	"go/types"
	"strings"

	"golang.org/x/tools/go/ssa"

	"shipverif/internal/core"
)

func init() {
	register("C10", checkC10)
	register("C05", checkC05)
}

const dialName = "(*github.com/gorilla/websocket.Dialer).Dial"

type hubAnchors struct {
	p       *core.Program
	fns     []*ssa.Function
	hub     *types.Named
	dialFns []*ssa.Function // functions calling websocket.Dialer.Dial
	nch     *ssa.Function   // ship.NewConnectionHandler
}

func findHub(p *core.Program, r *core.Report, rule string) *hubAnchors {
	a := &hubAnchors{p: p, fns: p.FuncsOf("hub"), hub: p.Named("hub", "Hub"), nch: p.Func("ship", "NewConnectionHandler")}
	if a.hub == nil || a.nch == nil {
		r.Unresolved(rule, "hub.Hub / ship.NewConnectionHandler")
		return nil
	}
	seen := map[*ssa.Function]bool{}
	var raw []*ssa.Function
	for _, fn := range p.RepoFuncs() {
		core.EachInstr(fn, func(in ssa.Instruction) {
			if core.IsStaticCall(in, dialName) && !seen[fn] {
				seen[fn] = true
				raw = append(raw, fn)
			}
		})
	}
	// the dial function is the one that knows which service it dials (takes the ServiceDetails); a helper that
	// only wraps the Dial calls (address variants, retries) is lifted to its callers
	ensureCallSites(p)
	gDialHelpers = map[*ssa.Function]bool{}
	hasSvc := func(fn *ssa.Function) bool {
		for _, pa := range fn.Params {
			if core.TypeIs(pa.Type(), apiPath, "ServiceDetails") {
				return true
			}
		}
		return false
	}
	eff := map[*ssa.Function]bool{}
	var lift func(fn *ssa.Function, depth int)
	lift = func(fn *ssa.Function, depth int) {
		if hasSvc(fn) || depth == 0 || len(gCallSites[fn]) == 0 {
			if !eff[fn] {
				eff[fn] = true
				a.dialFns = append(a.dialFns, fn)
			}
			return
		}
		gDialHelpers[fn] = true
		for _, cs := range gCallSites[fn] {
			lift(cs.Parent(), depth-1)
		}
	}
	for _, fn := range raw {
		lift(fn, 2)
	}
	return a
}

// gDialHelpers: functions that wrap websocket.Dialer.Dial on behalf of the dial function.
var gDialHelpers = map[*ssa.Function]bool{}

// isDialInstr: a Dial call, or a call of a helper that wraps it.
func isDialInstr(in ssa.Instruction) bool {
	if core.IsStaticCall(in, dialName) {
		return true
	}
	if c, ok := in.(*ssa.Call); ok {
		if t := c.Call.StaticCallee(); t != nil && gDialHelpers[t] {
			return true
		}
	}
	return false
}

// pairedEdge: edge on which the service was found trusted (paired) - directly or
// through a hub helper whose every true result implies paired-or-queued.
func pairedEdge(b *ssa.BasicBlock, idx int) bool {
	i := core.BlockIf(b)
	if i == nil {
		return false
	}
	v, truth := core.Truth(i.Cond, idx)
	c, ok := v.(*ssa.Call)
	if !ok || !truth {
		return false
	}
	return gateCall(c, 3)
}

// gateCall: a true result of this call implies that the service is paired or queued for pairing.
func gateCall(c *ssa.Call, depth int) bool {
	if core.CallsMethodNamed(c, apiPath, "ServiceDetails", "Trusted") {
		return true
	}
	f := c.Call.StaticCallee()
	if f == nil || f.Signature.Recv() == nil || !core.TypeIs(f.Signature.Recv().Type(), core.ModulePath+"/hub", "Hub") {
		return false
	}
	if f.Name() == "IsRemoteServiceForSKIPaired" {
		return true
	}
	if depth <= 0 || f.Blocks == nil || f.Signature.Results().Len() != 1 {
		return false
	}
	// helper: every return value is a gate value
	ok, any := true, false
	core.EachInstr(f, func(in ssa.Instruction) {
		ret, isRet := in.(*ssa.Return)
		if !isRet || ret.Block() == f.Recover {
			return
		}
		any = true
		rv := core.ResultOf(ret, 0)
		if isBoolConst(rv, true) {
			// `return true` is fine on a branch that was entered over a gate edge
			if !core.Guarded(ret, orEdges(pairedEdge, queuedEdgeGlobal)) {
				ok = false
			}
			return
		}
		if !gateValue(rv, depth-1, nil, -1) {
			ok = false
		}
	})
	return ok && any
}

var gQueuedConst *types.Const

// gateValue: v can only be true when the service is paired or queued. For a phi
// operand that is the constant true, the incoming edge itself must be a gate edge.
func gateValue(v ssa.Value, depth int, phiBlock *ssa.BasicBlock, predIdx int) bool {
	if depth < 0 {
		return false
	}
	if c := core.ConstOf(v); c != nil && c.Kind() == constant.Bool {
		if !constant.BoolVal(c) {
			return true
		}
		// constant true: only acceptable when it flows in over a gate edge
		if phiBlock != nil && predIdx >= 0 {
			pred := phiBlock.Preds[predIdx]
			for i, sblk := range pred.Succs {
				if sblk == phiBlock && (pairedEdge(pred, i) || queuedEdgeGlobal(pred, i)) {
					return true
				}
			}
		}
		return false
	}
	switch x := v.(type) {
	case *ssa.Call:
		return gateCall(x, depth)
	case *ssa.BinOp:
		if (x.Op == token.EQL) && gQueuedConst != nil {
			isQ := func(a, b ssa.Value) bool {
				k := core.ConstOf(b)
				if k == nil || !types.Identical(b.Type(), gQueuedConst.Type()) || !constant.Compare(k, token.EQL, gQueuedConst.Val()) {
					return false
				}
				call, ok := core.Canon(a).(*ssa.Call)
				return ok && core.CallsMethodNamed(call, apiPath, "ConnectionStateDetail", "State")
			}
			return isQ(x.X, x.Y) || isQ(x.Y, x.X)
		}
		return false
	case *ssa.Phi:
		for k, e := range x.Edges {
			if !gateValue(e, depth-1, x.Block(), k) {
				return false
			}
		}
		return len(x.Edges) > 0
	}
	return false
}

var queuedEdgeGlobal core.EdgeFilter = func(*ssa.BasicBlock, int) bool { return false }

// connStateEdge: edge on which a ConnectionStateDetail.State() value equals the named api constant.
func connStateEdge(p *core.Program, constName string) core.EdgeFilter {
	want := p.Const("api", constName)
	return func(b *ssa.BasicBlock, idx int) bool {
		if want == nil {
			return false
		}
		i := core.BlockIf(b)
		if i == nil {
			return false
		}
		v, truth := core.Truth(i.Cond, idx)
		bo, ok := v.(*ssa.BinOp)
		if !ok || (bo.Op != token.EQL && bo.Op != token.NEQ) {
			return false
		}
		side := func(x, y ssa.Value) bool {
			c := core.ConstOf(y)
			if c == nil || !types.Identical(y.Type(), want.Type()) || !constant.Compare(c, token.EQL, want.Val()) {
				return false
			}
			call, ok := core.Canon(x).(*ssa.Call)
			return ok && core.CallsMethodNamed(call, apiPath, "ConnectionStateDetail", "State")
		}
		if !side(bo.X, bo.Y) && !side(bo.Y, bo.X) {
			return false
		}
		return truth == (bo.Op == token.EQL)
	}
}

func orEdges(fs ...core.EdgeFilter) core.EdgeFilter {
	return func(b *ssa.BasicBlock, idx int) bool {
		for _, f := range fs {
			if f(b, idx) {
				return true
			}
		}
		return false
	}
}

// shutdownFlag finds bool fields of Hub stored true in Shutdown, their getters, and the not-shutdown edge.
func (a *hubAnchors) shutdownGate(r *core.Report, rule string) core.EdgeFilter {
	p := a.p
	sd := p.Method("hub", "Hub", "Shutdown")
	if sd == nil {
		r.Unresolved(rule, "hub.Hub.Shutdown")
		return nil
	}
	flags := map[*types.Var]bool{}
	eachInstrWithCallees(p, sd, "hub", 2, func(in ssa.Instruction) {
		if f, b, v := core.StoredField(in); f != nil && b != nil && core.NamedOf(b.Type()) == a.hub && isBoolConst(v, true) {
			flags[f] = true
		}
	})
	// the flag must not be set true or cleared anywhere else (except construction)
	for f := range flags {
		for _, s := range core.Sites(a.fns, func(in ssa.Instruction) bool { return core.IsFieldStore(in, f) }) {
			if s.Fn != sd && !withinOp(p, s.Fn, sd, 2) {
				delete(flags, f)
			}
		}
	}
	if len(flags) == 0 {
		return nil
	}
	getters := map[*ssa.Function]bool{}
	for _, fn := range a.fns {
		if fn.Signature.Results().Len() != 1 {
			continue
		}
		all, any := true, false
		core.EachInstr(fn, func(in ssa.Instruction) {
			if ret, ok := in.(*ssa.Return); ok && ret.Block() != fn.Recover {
				any = true
				if f, _ := core.LoadedField(core.ResultOf(ret, 0)); f == nil || !flags[f] {
					all = false
				}
			}
		})
		if all && any {
			getters[fn] = true
		}
	}
	return func(b *ssa.BasicBlock, idx int) bool {
		i := core.BlockIf(b)
		if i == nil {
			return false
		}
		v, truth := core.Truth(i.Cond, idx)
		if truth {
			return false
		}
		if c, ok := v.(*ssa.Call); ok {
			if f := c.Call.StaticCallee(); f != nil && getters[f] {
				return true
			}
		}
		f, _ := core.LoadedField(v)
		return f != nil && flags[f]
	}
}

func checkC10(p *core.Program, r *core.Report) {
	const R1 = "C10.R1 dial-gate"
	const R2 = "C10.R2 unregister-effects"
	const R3 = "C10.R3 cancel-effects"
	const R4 = "C10.R4 shutdown-gate"
	const R5 = "C10.R5 user-spelling-finds-connection"
	r.Explanation = "C10 (pairing follows user intent): decided clauses in package hub: (R1) websocket.Dialer.Dial is called from one hub function only, every call of that function is dominated, in the same invocation (i.e. after any delay), by the pass edge of a paired-or-queued check, and client-role connections are constructed only there; the mDNS report starts attempts only for not-connected, paired-or-queued SKIs; the queued state is set only by RegisterRemoteSKI; (R2) every path of UnregisterRemoteSKI clears trust, removes the attempt counter, resets the pairing state and closes an existing connection; (R3) every path of CancelPairingWithSKI aborts an existing connection's pending handshake, clears trust and state; in the extracted ship automaton the abort entry takes both waiting states (pending-listen, ready-listen) to a terminal state on every path, which C04.R2 makes final; (R4) every dial is guarded by a flag only Shutdown sets, read in the dialling invocation; (R5) these operations look the live connection up under the normalised SKI (C15's taint rule restricted to them). Not decided: multi-hub operation histories, what the peer observes."
	r.Rule(R1, "who-may-call Dial; paired-or-queued guard dominates each dial-function call; Queued set only under RegisterRemoteSKI")
	r.Rule(R2, "UnregisterRemoteSKI: SetTrusted(false), counter removed, state None, existing connection closed - on all paths")
	r.Rule(R3, "CancelPairingWithSKI: AbortPendingHandshake on existing connection, SetTrusted(false), state None - on all paths; ship abort entry ends terminal from both waiting states")
	r.Rule(R4, "every Dial call is guarded by the not-shut-down edge of a flag whose only writer is Shutdown")
	r.Rule(R5, "taint: ski parameter of Register/Unregister/Disconnect/Cancel reaches map keys and callbacks only through util.NormalizeSKI")
	a := findHub(p, r, R1)
	if a == nil {
		return
	}
	queued := connStateEdge(p, "ConnectionStateQueued")
	gQueuedConst = p.Const("api", "ConnectionStateQueued")
	queuedEdgeGlobal = queued
	gate := orEdges(pairedEdge, queued)
	checkDialGate(p, r, a, R1, gate)
	r.Floor(R1, 4)

	// R2 / R3
	checkRevocation(p, r, R2, R3)
	checkAbortEntry(p, r, R3)
	// R4
	sg := a.shutdownGate(r, R4)
	for _, d := range a.dialFns {
		core.EachInstr(d, func(in ssa.Instruction) {
			if !isDialInstr(in) {
				return
			}
			key := "Dial in " + p.FnName(d)
			if sg != nil && core.Guarded(in, sg) {
				r.OK(R4, key, p.Pos(in.Pos()), "guarded by the not-shut-down edge")
			} else {
				r.Fail(R4, key, p.Pos(in.Pos()), "no shutdown flag is checked in the dialling invocation: delayed attempts scheduled before Shutdown still dial after it")
			}
		})
	}
	r.Floor(R4, 1)
	// ... and Shutdown sets that flag before it closes anything: closing a connection triggers a re-announce and a
	// fresh mDNS report, which starts new dials for queued SKIs as long as the flag is not set
	if sd := p.Method("hub", "Hub", "Shutdown"); sd != nil {
		isSet := func(in ssa.Instruction) bool {
			f, b, v := core.StoredField(in)
			return f != nil && b != nil && core.NamedOf(b.Type()) == a.hub && isBoolConst(v, true)
		}
		mClose := p.IfaceMethod("api", "ShipConnectionInterface", "CloseConnection")
		mMdnsSd := p.IfaceMethod("api", "MdnsInterface", "Shutdown")
		isTearDown := func(in ssa.Instruction) bool {
			return (mClose != nil && core.IsInvokeOf(in, mClose)) || (mMdnsSd != nil && core.IsInvokeOf(in, mMdnsSd))
		}
		key := "Shutdown sets the flag before it tears anything down"
		setsFlag := core.NewMust(p, 2, isSet)
		if bad := core.PathSearch(sd, nil, isTearDown, setsFlag.Instr, nil); bad != nil {
			r.Fail(R4, key, p.Pos(bad.Pos()), "Shutdown closes connections / stops mDNS on a path on which the shut-down flag is not set yet: every closed connection makes the hub re-announce and look at the known mDNS entries again, and the dial gate still lets those attempts through")
		} else {
			r.OK(R4, key, p.Pos(sd.Pos()), "flag first")
		}
	}
	// R6 / R7: what is dialled is the registered service; trust is written by the user operations only
	const R6 = "C10.R6 dialled-service-is-the-registered-one"
	const R7 = "C10.R7 trust-writers"
	r.Rule(R6, "a connection the hub creates for a registered SKI is with the holder of that SKI's key: SKI of the first presented certificate, bound to its public key, equal to the dialled SKI, checked on every dial attempt (rules shared with C02.R1/R2/R4)")
	r.Rule(R7, "SetTrusted(true) only within RegisterRemoteSKI or under state == SmeHelloStateOk of the state-update callback; the trust predicates return the stored flags (rule shared with C01.R4): no other handshake state re-trusts a SKI the user cancelled or unregistered")
	importRules(p, r, "C02", map[string]string{"C02.R1 identity-provenance": R6, "C02.R2 refusal-order": R6, "C02.R4 ski-bound-to-key": R6}, nil)
	importRules(p, r, "C01", map[string]string{"C01.R4 hub-trust-writers": R7}, nil)
	importRules(p, r, "C13", map[string]string{"C13.R8 local-close-always-closes": R2, "C13.R1 close-routine-releases": R2}, nil)
	const R8 = "C10.R8 wanted-marker-only-from-registration"
	r.Rule(R8, "the SHIP-state mapping yields ConnectionStateQueued - which the dial filters accept like a registration - for no state other than the one a connection starts in (shared with C18.R3, exhaustive evaluation over all state constants): otherwise a connection of an unregistered peer that ends in such a state makes the hub dial that peer")
	importRules(p, r, "C18", map[string]string{"C18.R3 one-total-mapping": R8}, func(key string) bool {
		return strings.Contains(key, "maps to Queued") || strings.Contains(key, "mapping total")
	})
	const R10 = "C10.R10 every-connection-is-registered"
	r.Rule(R10, "every constructed connection is run and stored in the registry unconditionally (shared with C05.R4): a connection that is kept but never stored cannot be found by unregister, disconnect, cancel or shutdown")
	importRules(p, r, "C05", map[string]string{"C05.R4 construct-run-register": R10}, nil)
	const R9 = "C10.R9 unregister-finds-the-live-connection"
	r.Rule(R9, "a closing connection removes the registry entry only if the entry is its own (shared with C11.R3): otherwise the end of a superseded connection unregisters the surviving one, and a later unregister / disconnect cannot close it")
	importRules(p, r, "C11", map[string]string{"C11.R3 registry-identity-atomic": R9}, nil)
	// R5
	n := checkSKINormalised(p, r, R5, map[string]bool{"RegisterRemoteSKI": true, "UnregisterRemoteSKI": true, "DisconnectSKI": true, "CancelPairingWithSKI": true})
	if n < 4 {
		r.Fail(R5, "entries", "", "expected four SKI-taking pairing operations")
	}
}

// walkLookup: does v derive (through calls of hub helpers) from a lookup in field f?
func walkLookup(p *core.Program, v ssa.Value, f *types.Var, depth int, out *bool) {
	v = core.Canon(v)
	if depth < 0 || *out {
		return
	}
	switch x := v.(type) {
	case *ssa.Lookup:
		if fl, _ := core.LoadedField(x.X); fl == f {
			*out = true
		}
	case *ssa.Extract:
		walkLookup(p, x.Tuple, f, depth, out)
	case *ssa.Phi:
		for _, e := range x.Edges {
			walkLookup(p, e, f, depth-1, out)
		}
	case *ssa.Call:
		if callee := x.Call.StaticCallee(); callee != nil && p.InRepo(callee) {
			core.EachInstr(callee, func(in ssa.Instruction) {
				if ret, ok := in.(*ssa.Return); ok && len(ret.Results) > 0 {
					walkLookup(p, core.ResultOf(ret, 0), f, depth-1, out)
				}
			})
		}
	}
}

// checkAbortEntry: in the extracted ship automaton the user-abort entry takes
// both waiting states to a terminal state on every path (shared by C10.R3 and C01.R5).
func checkAbortEntry(p *core.Program, r *core.Report, rule string) {
	if fr := getFSM(p, r, rule); fr != nil {
		f := fr.f
		ab := ""
		if m := p.Method("ship", "ShipConnection", "AbortPendingHandshake"); m != nil {
			ab = p.FnName(m)
		}
		for _, st := range []string{"SmeHelloStatePendingListen", "SmeHelloStateReadyListen"} {
			okAll, n := true, 0
			var ends []string
			for _, er := range fr.results {
				if er.entry != ab || f.stateName(er.init.state) != st || er.init.closed {
					continue
				}
				for _, fin := range er.final {
					n++
					if !f.inT(fin.state) {
						okAll = false
						ends = append(ends, f.stateName(fin.state))
					}
				}
			}
			key := "ship abort entry from " + st + " ends terminal"
			if n > 0 && okAll {
				r.OK(rule, key, "", "every path of AbortPendingHandshake ends in a terminal state")
			} else {
				r.Fail(rule, key, "", fmt.Sprintf("cancelling while the connection is in %s does not end the handshake (ends in %v): it can complete later", st, ends))
			}
		}
	}
}

// checkDialGate: single gated dial function, client-role construction only there, the mDNS report starts
// attempts only behind the gate, Queued only set by RegisterRemoteSKI, registration records trust on all paths.
func checkDialGate(p *core.Program, r *core.Report, a *hubAnchors, R1 string, gate core.EdgeFilter) {
	// R1
	if len(a.dialFns) != 1 {
		r.Fail(R1, "dial functions", "", fmt.Sprintf("websocket.Dialer.Dial must be called from exactly one function, found %d", len(a.dialFns)))
	}
	for _, d := range a.dialFns {
		if p.PkgShort(d) != "hub" {
			r.Fail(R1, "dial in "+p.FnName(d), p.Pos(d.Pos()), "a websocket connection is dialled outside package hub")
			continue
		}
		n := 0
		for _, s := range core.Sites(p.RepoFuncs(), func(in ssa.Instruction) bool {
			c := core.Common(in)
			return c != nil && c.StaticCallee() == d
		}) {
			n++
			key := "call of " + p.FnName(d) + " in " + p.FnName(s.Fn)
			if core.Guarded(s.In, gate) {
				r.OK(R1, key, p.Pos(s.In.Pos()), "dominated by the paired-or-queued pass edge in the same invocation")
			} else {
				r.Fail(R1, key, p.Pos(s.In.Pos()), "a dial is started on a path that did not check, in this invocation, that the SKI is (still) paired or queued for pairing: mDNS-announced or meanwhile unregistered SKIs get dialled")
			}
		}
		if n == 0 {
			r.Fail(R1, "callers of "+p.FnName(d), "", "the dial function has no caller: registered peers are never dialled")
		}
		// the dialled SKI service and the checked one are the same value is covered by C02.R1
	}
	// client-role construction only in the dial function. The construction may sit in a helper shared by the
	// inbound and the outbound path that receives the role (or a flag selecting it): it is then judged once
	// per call chain, with the helper's parameters bound to that chain's arguments.
	roleClient := p.Const("ship", "ShipRoleClient")
	ensureCallSites(p)
	hubLocalFn := func(f *ssa.Function) bool { return p.PkgShort(f) == "hub" && f.Blocks != nil }
	isNCH := func(in ssa.Instruction) bool {
		c := core.Common(in)
		return c != nil && c.StaticCallee() == a.nch
	}
	for _, s := range core.Sites(p.RepoFuncs(), isNCH) {
		// the chains under which this construction runs: the site itself, or - for a helper - one per caller
		var ctxs []core.CtxSite
		if k := core.ConstOf(core.Common(s.In).Args[2]); k != nil || len(gCallSites[s.Fn]) == 0 {
			ctxs = []core.CtxSite{{In: s.In}}
		} else {
			for _, cs := range gCallSites[s.Fn] {
				if _, isCall := cs.(*ssa.Call); isCall {
					ctxs = append(ctxs, core.CtxSite{In: s.In, Chain: []ssa.Instruction{cs}})
				} else {
					ctxs = append(ctxs, core.CtxSite{In: s.In})
				}
			}
		}
		for _, cx := range ctxs {
			undo := cx.Bind()
			k := core.ConstUnder(core.Common(s.In).Args[2], 6)
			undo()
			root := cx.Root()
			if k == nil || roleClient == nil {
				r.Fail(R1, "role of NewConnectionHandler in "+p.FnName(s.Fn), p.Pos(s.In.Pos()), "connection role is not a constant")
				continue
			}
			if constant.Compare(k, token.EQL, roleClient.Val()) {
				key := "client-role construction in " + p.FnName(root)
				isDial := false
				for _, d := range a.dialFns {
					if root == d {
						isDial = true
					}
				}
				if isDial {
					r.OK(R1, key, p.Pos(s.In.Pos()), "only the dial function creates client-role (locally trusted) connections")
				} else {
					r.Fail(R1, key, p.Pos(s.In.Pos()), "a client-role connection (trusted by role) is constructed outside the gated dial function")
				}
			}
		}
	}
	_ = hubLocalFn
	// report -> attempt coordinator guarded by not-connected and paired-or-queued
	rep := p.Method("hub", "Hub", "ReportMdnsEntries")
	if rep == nil {
		r.Unresolved(R1, "hub.Hub.ReportMdnsEntries")
	} else {
		mayDial := core.NewMay(p, true, func(in ssa.Instruction) bool { return core.IsStaticCall(in, dialName) })
		n := 0
		core.EachInstr(rep, func(in ssa.Instruction) {
			c := core.Common(in)
			if c == nil || c.StaticCallee() == nil || !p.InRepo(c.StaticCallee()) || !mayDial.Fn(c.StaticCallee()) {
				return
			}
			n++
			key := "mDNS report starts attempt via " + p.FnName(c.StaticCallee())
			// the per-entry logic may live in a helper that applies the gate itself
			var gatedInside func(fn *ssa.Function, depth int) bool
			gatedInside = func(fn *ssa.Function, depth int) bool {
				if depth == 0 || fn.Blocks == nil || p.PkgShort(fn) != "hub" {
					return false
				}
				ok, any := true, false
				core.EachInstr(fn, func(y ssa.Instruction) {
					cy := core.Common(y)
					if cy == nil || cy.StaticCallee() == nil || !p.InRepo(cy.StaticCallee()) || !mayDial.Fn(cy.StaticCallee()) {
						return
					}
					any = true
					if !core.Guarded(y, gate) && !gatedInside(cy.StaticCallee(), depth-1) {
						ok = false
					}
				})
				return ok && any
			}
			if core.Guarded(in, gate) || gatedInside(c.StaticCallee(), 2) {
				r.OK(R1, key, p.Pos(in.Pos()), "only for paired-or-queued SKIs")
			} else {
				r.Fail(R1, key, p.Pos(in.Pos()), "an mDNS report starts a connection attempt without the paired-or-queued check")
			}
		})
		if n == 0 {
			r.Fail(R1, "mDNS report starts attempt", p.Pos(rep.Pos()), "ReportMdnsEntries no longer starts connection attempts")
		}
	}
	// Queued only under RegisterRemoteSKI
	reg := p.Method("hub", "Hub", "RegisterRemoteSKI")
	cq := p.Const("api", "ConnectionStateQueued")
	for _, s := range core.Sites(nonAPIFuncs(p), func(in ssa.Instruction) bool {
		c := core.Common(in)
		if c == nil || !core.CallsMethodNamed(in, apiPath, "ConnectionStateDetail", "SetState") || len(c.Args) != 2 {
			return false
		}
		k := core.ConstOf(c.Args[1])
		return k == nil || (cq != nil && constant.Compare(k, token.EQL, cq.Val()))
	}) {
		key := "SetState(Queued) in " + p.FnName(s.Fn)
		if reg != nil && withinOp(p, s.Fn, reg, 3) {
			r.OK(R1, key, p.Pos(s.In.Pos()), "user registration")
		} else {
			r.Fail(R1, key, p.Pos(s.In.Pos()), "a service is queued for pairing (dial allowed) outside RegisterRemoteSKI")
		}
	}
	checkRegisterTrust(p, r, R1)
}

// checkRegisterTrust: registration records the trust decision on every path (also when a connection already exists).
func checkRegisterTrust(p *core.Program, r *core.Report, rule string) {
	reg := p.Method("hub", "Hub", "RegisterRemoteSKI")
	if reg == nil {
		r.Unresolved(rule, "hub.Hub.RegisterRemoteSKI")
		return
	}
	setsTrust := func(in ssa.Instruction) bool {
		c := core.Common(in)
		return c != nil && core.CallsMethodNamed(in, apiPath, "ServiceDetails", "SetTrusted") && len(c.Args) == 2 && isBoolConst(c.Args[1], true)
	}
	key := "RegisterRemoteSKI records trust on every path"
	must := core.NewMust(p, 3, setsTrust)
	if bad := core.MustPass(reg, nil, must.Instr, nil); bad != nil {
		r.Fail(rule, key, p.Pos(bad.Pos()), "a path of RegisterRemoteSKI returns without SetTrusted(true): a registration that arrives while a connection for the SKI exists but is not (yet / any more) waiting for approval is lost - the peer is never trusted, never dialled, and its retries are denied")
	} else {
		r.OK(rule, key, p.Pos(reg.Pos()), "SetTrusted(true) on all paths")
	}
}

// checkRevocation: what unregistering a SKI (ruleUnreg) and cancelling a pairing (ruleCancel) do on every path:
// clear trust, reset the stored pairing state to None, forget the attempt counter, and end / abort the
// registered connection. Shared by C10 (R2/R3) and C01 (R5: no trust is left behind a user's revocation).
func checkRevocation(p *core.Program, r *core.Report, R2, R3 string) {
	unreg := p.Method("hub", "Hub", "UnregisterRemoteSKI")
	cancel := p.Method("hub", "Hub", "CancelPairingWithSKI")
	fCounter := p.Field("hub", "Hub", "connectionAttemptCounter")
	fConns := p.Field("hub", "Hub", "connections")
	cNone := p.Const("api", "ConnectionStateNone")
	if unreg == nil || cancel == nil || fCounter == nil || fConns == nil || cNone == nil {
		r.Unresolved(R2, "UnregisterRemoteSKI / CancelPairingWithSKI / connectionAttemptCounter / connections / ConnectionStateNone")
		return
	}
	isSetTrustedFalse := func(in ssa.Instruction) bool {
		c := core.Common(in)
		return c != nil && core.CallsMethodNamed(in, apiPath, "ServiceDetails", "SetTrusted") && len(c.Args) == 2 && isBoolConst(c.Args[1], false)
	}
	isStateNone := func(in ssa.Instruction) bool {
		c := core.Common(in)
		if c == nil || !core.CallsMethodNamed(in, apiPath, "ConnectionStateDetail", "SetState") || len(c.Args) != 2 {
			return false
		}
		k := core.ConstOf(c.Args[1])
		return k != nil && constant.Compare(k, token.EQL, cNone.Val())
	}
	delCounter := core.NewMust(p, 3, func(in ssa.Instruction) bool {
		if !isBuiltin(in, "delete") {
			return false
		}
		f, _ := core.LoadedField(core.Common(in).Args[0])
		return f == fCounter
	})
	connNilEdge := func(fn *ssa.Function) core.EdgeFilter {
		return func(b *ssa.BasicBlock, idx int) bool {
			i := core.BlockIf(b)
			if i == nil {
				return false
			}
			v, truth := core.Truth(i.Cond, idx)
			bo, ok := v.(*ssa.BinOp)
			if !ok || (bo.Op != token.EQL && bo.Op != token.NEQ) {
				return false
			}
			var other ssa.Value
			if core.IsNilConst(bo.Y) {
				other = bo.X
			} else if core.IsNilConst(bo.X) {
				other = bo.Y
			} else {
				return false
			}
			if !core.TypeIs(other.Type(), apiPath, "ShipConnectionInterface") {
				return false
			}
			return truth == (bo.Op == token.EQL) // edge asserts connection == nil
		}
	}
	effects := func(fn *ssa.Function, rule string, connMethod string) {
		name := fn.Name()
		type ob struct {
			what string
			pred func(ssa.Instruction) bool
			msg  string
		}
		obs := []ob{
			{"clears-trust", isSetTrustedFalse, "does not clear the trusted flag on every path: the SKI stays trusted and gets dialled / accepted again"},
			{"resets-pairing-state", isStateNone, "does not reset the pairing state to None on every path: a queued state keeps the dial gate open"},
			{"removes-attempt-counter", delCounter.Instr, "does not remove the connection attempt counter on every path: a pending delayed attempt still matches its counter and dials"},
		}
		for _, o := range obs {
			key := "hub.Hub." + name + " " + o.what
			mo := core.NewMust(p, 2, o.pred)
			if bad := core.MustPass(fn, nil, mo.Instr, nil); bad != nil {
				r.Fail(rule, key, p.Pos(bad.Pos()), name+" "+o.msg)
			} else {
				r.OK(rule, key, p.Pos(fn.Pos()), "on all paths")
			}
		}
		key := "hub.Hub." + name + " existing-connection " + connMethod
		m := p.IfaceMethod("api", "ShipConnectionInterface", connMethod)
		pred := func(in ssa.Instruction) bool {
			if !core.IsInvokeOf(in, m) {
				return false
			}
			// receiver derives from the registry
			recv := core.Common(in).Value
			ok := false
			walkLookup(p, recv, fConns, 3, &ok)
			return ok
		}
		// "with the registered connection do f": a hub helper that looks the connection up and applies the function
		// literal it is given, which in turn calls the method on its parameter
		direct := pred
		pred = func(in ssa.Instruction) bool {
			if direct(in) {
				return true
			}
			c, ok := in.(*ssa.Call)
			if !ok {
				return false
			}
			helper := c.Call.StaticCallee()
			if helper == nil || helper.Blocks == nil || p.PkgShort(helper) != "hub" {
				return false
			}
			for i, a := range c.Call.Args {
				cl := core.ClosureArg(a)
				if cl == nil || len(cl.Params) == 0 || i >= len(helper.Params) {
					continue
				}
				// the literal calls the method on its parameter on every path
				if core.MustPass(cl, nil, func(x ssa.Instruction) bool {
					return core.IsInvokeOf(x, m) && core.Common(x).Value == ssa.Value(cl.Params[len(cl.Params)-1])
				}, nil) != nil {
					continue
				}
				// the helper applies its function parameter to the registered connection whenever there is one
				fp := helper.Params[i]
				applies := func(x ssa.Instruction) bool {
					cc, ok := x.(*ssa.Call)
					if !ok || cc.Call.Value != ssa.Value(fp) || len(cc.Call.Args) == 0 {
						return false
					}
					ok2 := false
					walkLookup(p, cc.Call.Args[len(cc.Call.Args)-1], fConns, 3, &ok2)
					return ok2
				}
				if core.MustPass(helper, nil, applies, connNilEdge(helper)) == nil {
					return true
				}
			}
			return false
		}
		mustConn := core.NewMust(p, 2, pred)
		mustConn.Removed = connNilEdge(fn)
		if bad := core.MustPass(fn, nil, mustConn.Instr, connNilEdge(fn)); bad != nil {
			r.Fail(rule, key, p.Pos(bad.Pos()), name+" does not call "+connMethod+" on the registered connection on every path where one exists")
		} else {
			r.OK(rule, key, p.Pos(fn.Pos()), "whenever a connection is registered for the SKI")
		}
	}
	effects(unreg, R2, "CloseConnection")
	{
		mCloseC := p.IfaceMethod("api", "ShipConnectionInterface", "CloseConnection")
		key := "hub.Hub.UnregisterRemoteSKI revokes trust before it closes the connection"
		clears := core.NewMust(p, 2, isSetTrustedFalse)
		if bad := core.PathSearch(unreg, nil, func(in ssa.Instruction) bool { return mCloseC != nil && core.IsInvokeOf(in, mCloseC) }, clears.Instr, nil); bad != nil {
			r.Fail(R2, key, p.Pos(bad.Pos()), "the connection is closed while the SKI is still trusted: closing a connection that is still in its handshake is synchronous and runs the application's disconnect callback and the re-announce - an inbound reconnect of that SKI in this window is judged trusted and completes, and stays open after the unregister returns")
		} else {
			r.OK(R2, key, p.Pos(unreg.Pos()), "SetTrusted(false) precedes CloseConnection on every path")
		}
	}
	effects(cancel, R3, "AbortPendingHandshake")
}
