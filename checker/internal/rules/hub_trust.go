package rules

import (
	"go/constant"
	"go/token"
	"go/types"

	"golang.org/x/tools/go/ssa"

	"shipverif/internal/core"
)

const apiPath = core.ModulePath + "/api"
const modelPath = core.ModulePath + "/model"

// nonAPIFuncs: all repo functions outside package api (and mocks).
func nonAPIFuncs(p *core.Program) []*ssa.Function {
	var out []*ssa.Function
	for _, n := range p.RepoPkgNames() {
		if n == "api" || n == "mocks" {
			continue
		}
		out = append(out, p.FuncsOf(n)...)
	}
	return out
}

func isBoolConst(v ssa.Value, want bool) bool {
	c := core.ConstOf(v)
	return c != nil && c.Kind() == constant.Bool && constant.BoolVal(c) == want
}

// stateEqEdge: edge on which a value of the handshake state type was found
// equal to the named model constant.
func stateEqEdge(p *core.Program, constName string) core.EdgeFilter {
	want := p.Const("model", constName)
	return func(b *ssa.BasicBlock, idx int) bool {
		if want == nil {
			return false
		}
		i := core.BlockIf(b)
		if i == nil {
			return false
		}
		v, truth := core.Truth(i.Cond, idx)
		bo, ok := v.(*ssa.BinOp)
		if !ok || (bo.Op != token.EQL && bo.Op != token.NEQ) {
			return false
		}
		match := func(x, y ssa.Value) bool {
			c := core.ConstOf(y)
			if c == nil || !types.Identical(y.Type(), want.Type()) {
				return false
			}
			return constant.Compare(c, token.EQL, want.Val()) && types.Identical(x.Type(), want.Type())
		}
		if !match(bo.X, bo.Y) && !match(bo.Y, bo.X) {
			return false
		}
		return truth == (bo.Op == token.EQL)
	}
}

// withinOp: fn is the operation root itself or an unexported helper of the same package all of whose call
// sites (plain calls, no go/defer) lie within the operation - code that only ever runs as part of root.
func withinOp(p *core.Program, fn, root *ssa.Function, depth int) bool {
	ensureCallSites(p)
	fn = core.Outermost(fn)
	if fn == root {
		return true
	}
	if depth == 0 || fn.Object() == nil || fn.Object().Exported() || fn.Pkg != root.Pkg {
		return false
	}
	sites := gCallSites[fn]
	if len(sites) == 0 {
		return false
	}
	for _, s := range sites {
		if _, isCall := s.(*ssa.Call); !isCall {
			return false
		}
		if !withinOp(p, s.Parent(), root, depth-1) {
			return false
		}
	}
	return true
}

// dominatedInOp: some instruction satisfying pred is executed before site on every path from the entry of the
// operation root (site may live in a helper of the operation).
func dominatedInOp(p *core.Program, site ssa.Instruction, pred func(ssa.Instruction) bool) bool {
	return precededBy(p, site.Parent(), site, pred, 3)
}

func checkHubTrust(p *core.Program, r *core.Report, R4 string) {
	reg := p.Method("hub", "Hub", "RegisterRemoteSKI")
	upd := p.Method("hub", "Hub", "HandleShipHandshakeStateUpdate")
	paired := p.Method("hub", "Hub", "IsRemoteServiceForSKIPaired")
	auto := p.Method("hub", "Hub", "IsAutoAcceptEnabled")
	setAuto := p.Method("hub", "Hub", "SetAutoAccept")
	svc := p.Method("hub", "Hub", "ServiceForSKI")
	fAuto := p.Field("hub", "Hub", "autoaccept")
	mApprove := p.IfaceMethod("api", "ShipConnectionInterface", "ApprovePendingHandshake")
	if reg == nil || upd == nil || paired == nil || auto == nil || setAuto == nil || svc == nil || fAuto == nil || mApprove == nil {
		r.Unresolved(R4, "hub.Hub trust API (RegisterRemoteSKI, HandleShipHandshakeStateUpdate, IsRemoteServiceForSKIPaired, IsAutoAcceptEnabled, SetAutoAccept, ServiceForSKI, autoaccept)")
		return
	}
	fns := nonAPIFuncs(p)
	helloOk := stateEqEdge(p, "SmeHelloStateOk")
	// (a) SetTrusted(true)
	n := 0
	for _, s := range core.Sites(fns, func(in ssa.Instruction) bool {
		c := core.Common(in)
		return c != nil && core.CallsMethodNamed(in, apiPath, "ServiceDetails", "SetTrusted") && len(c.Args) == 2 && !isBoolConst(c.Args[1], false)
	}) {
		n++
		key := "SetTrusted(true) in " + p.FnName(s.Fn)
		switch {
		case withinOp(p, s.Fn, reg, 3):
			r.OK(R4, key, p.Pos(s.In.Pos()), "user registration")
		case core.Guarded(s.In, helloOk) && s.Fn == upd:
			r.OK(R4, key, p.Pos(s.In.Pos()), "guarded by state == SmeHelloStateOk in the state-update callback")
		default:
			r.Fail(R4, key, p.Pos(s.In.Pos()), "a service is marked trusted outside RegisterRemoteSKI and not under the state == SmeHelloStateOk guard of the state-update callback")
		}
	}
	if n < 2 {
		r.Fail(R4, "SetTrusted(true) sites", "", "expected the registration and the hello-ok trust writers")
	}
	// (a') SetTrusted(false): only the user's own revocations clear a registration
	{
		unreg := p.Method("hub", "Hub", "UnregisterRemoteSKI")
		cancel := p.Method("hub", "Hub", "CancelPairingWithSKI")
		nf := 0
		for _, s := range core.Sites(fns, func(in ssa.Instruction) bool {
			c := core.Common(in)
			return c != nil && core.CallsMethodNamed(in, apiPath, "ServiceDetails", "SetTrusted") && len(c.Args) == 2 && !isBoolConst(c.Args[1], true)
		}) {
			nf++
			key := "SetTrusted(false) in " + p.FnName(s.Fn)
			if (unreg != nil && withinOp(p, s.Fn, unreg, 3)) || (cancel != nil && withinOp(p, s.Fn, cancel, 3)) {
				r.OK(R4, key, p.Pos(s.In.Pos()), "user revocation")
			} else {
				r.Fail(R4, key, p.Pos(s.In.Pos()), "a registration is cleared outside UnregisterRemoteSKI / CancelPairingWithSKI (e.g. on a handshake state report): the SHIP layer reports every transport failure while waiting for the peer's trust as 'rejected', so a peer restart at that moment silently unregisters it and the two hubs never connect again")
			}
		}
		if nf < 2 {
			r.Fail(R4, "SetTrusted(false) sites", "", "expected the unregister and the cancel trust writers")
		}
	}
	// (b) predicates return the stored flags
	okPaired := true
	core.EachInstr(paired, func(in ssa.Instruction) {
		ret, ok := in.(*ssa.Return)
		if !ok || ret.Block() == paired.Recover {
			return
		}
		c, ok := core.Canon(core.ResultOf(ret, 0)).(*ssa.Call)
		if !ok || !core.CallsMethodNamed(c, apiPath, "ServiceDetails", "Trusted") {
			okPaired = false
			return
		}
		rc, ok := core.Canon(c.Call.Args[0]).(*ssa.Call)
		if !ok || rc.Call.StaticCallee() != svc || len(rc.Call.Args) != 2 || core.Canon(rc.Call.Args[1]) != ssa.Value(paired.Params[1]) {
			okPaired = false
		}
	})
	if okPaired {
		r.OK(R4, "hub.IsRemoteServiceForSKIPaired returns ServiceForSKI(ski).Trusted()", p.Pos(paired.Pos()), "predicate = stored trust flag of the asked SKI")
	} else {
		r.Fail(R4, "hub.IsRemoteServiceForSKIPaired returns ServiceForSKI(ski).Trusted()", p.Pos(paired.Pos()), "the paired predicate does not return exactly the trust flag stored for the asked SKI")
	}
	okAuto := true
	core.EachInstr(auto, func(in ssa.Instruction) {
		ret, ok := in.(*ssa.Return)
		if !ok || ret.Block() == auto.Recover {
			return
		}
		if f, _ := core.LoadedField(core.ResultOf(ret, 0)); f != fAuto {
			okAuto = false
		}
	})
	if okAuto {
		r.OK(R4, "hub.IsAutoAcceptEnabled returns Hub.autoaccept", p.Pos(auto.Pos()), "predicate = stored flag")
	} else {
		r.Fail(R4, "hub.IsAutoAcceptEnabled returns Hub.autoaccept", p.Pos(auto.Pos()), "the auto-accept predicate does not return the stored flag")
	}
	for _, s := range core.Sites(fns, func(in ssa.Instruction) bool { return core.IsFieldStore(in, fAuto) }) {
		_, _, v := core.StoredField(s.In)
		key := "Hub.autoaccept write in " + p.FnName(s.Fn)
		if s.Fn == setAuto && core.Canon(v) == ssa.Value(setAuto.Params[1]) {
			r.OK(R4, key, p.Pos(s.In.Pos()), "written from SetAutoAccept's argument")
		} else if c := core.ConstOf(v); c != nil && c.Kind() == constant.Bool && !constant.BoolVal(c) {
			r.OK(R4, key, p.Pos(s.In.Pos()), "cleared")
		} else {
			r.Fail(R4, key, p.Pos(s.In.Pos()), "auto-accept is enabled by something other than SetAutoAccept's argument")
		}
	}
	// (c) ApprovePendingHandshake only from RegisterRemoteSKI, after SetTrusted(true)
	na := 0
	for _, s := range core.Sites(fns, func(in ssa.Instruction) bool { return core.IsInvokeOf(in, mApprove) }) {
		na++
		key := "ApprovePendingHandshake call in " + p.FnName(s.Fn)
		if !withinOp(p, s.Fn, reg, 3) {
			r.Fail(R4, key, p.Pos(s.In.Pos()), "a pending handshake is approved outside RegisterRemoteSKI (no user trust decision)")
			continue
		}
		dom := dominatedInOp(p, s.In, func(in ssa.Instruction) bool {
			c := core.Common(in)
			return c != nil && core.CallsMethodNamed(in, apiPath, "ServiceDetails", "SetTrusted") && len(c.Args) == 2 && isBoolConst(c.Args[1], true)
		})
		if dom {
			r.OK(R4, key, p.Pos(s.In.Pos()), "in RegisterRemoteSKI after SetTrusted(true)")
		} else {
			r.Fail(R4, key, p.Pos(s.In.Pos()), "approval is not preceded by SetTrusted(true)")
		}
	}
	if na == 0 {
		r.Fail(R4, "ApprovePendingHandshake call", "", "no call site found: a pending request can never be approved")
	}
}
