// Package rules holds the per-property rule sets (see /verif/DESIGN.md §3).
package rules

import "shipverif/internal/core"

// Checks maps a property id to its check.
var Checks = map[string]func(*core.Program, *core.Report){}

func register(id string, f func(*core.Program, *core.Report)) { Checks[id] = f }
