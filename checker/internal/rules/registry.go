// Package rules holds the per-property rule sets (see /verif/DESIGN.md §3).
package rules

import (
	"golang.org/x/tools/go/ssa"

	"shipverif/internal/core"
)

// Checks maps a property id to its check.
var Checks = map[string]func(*core.Program, *core.Report){}

func register(id string, f func(*core.Program, *core.Report)) { Checks[id] = f }

// ---- sharing rules between properties ----------------------------------------------------------------------
//
// Several properties have clauses in common (the SKI a trust decision is about must be the peer's proven one:
// C01, C02, C10; a dead transport must be noticed: C05, C11, C13; ...). The rule that decides such a clause is
// written once, in the check of the property it was first needed for; the checks of the other properties import
// its instances under a rule id of their own, so that each property's check decides all of its own clauses.

var subReports = map[*core.Program]map[string]*core.Report{}

// importRules runs the check of srcProp into a scratch report (cached per program) and records the instances of
// the rules named in mapping (source rule id -> rule id in r) in r. keep, when non-nil, filters by instance key.
func importRules(p *core.Program, r *core.Report, srcProp string, mapping map[string]string, keep func(key string) bool) {
	if subReports[p] == nil {
		subReports[p] = map[string]*core.Report{}
	}
	sub := subReports[p][srcProp]
	if sub == nil {
		sub = core.NewReport(srcProp, r.Tier)
		subReports[p][srcProp] = sub // set first: guards against import cycles
		if f := Checks[srcProp]; f != nil {
			f(p, sub)
		}
	}
	n := map[string]int{}
	for _, in := range sub.Instances {
		dst, ok := mapping[in.Rule]
		if !ok {
			continue
		}
		key := in.Key
		if len(key) > len(in.Rule) && key[:len(in.Rule)] == in.Rule {
			key = key[len(in.Rule)+1:]
		}
		if keep != nil && !keep(key) {
			continue
		}
		n[dst]++
		r.Add(dst, key, in.Pos, in.OK, in.Msg, in.Path...)
	}
	for _, dst := range mapping {
		if n[dst] == 0 {
			r.Fail(dst, "imported rule matched nothing", "", "the rule shared with "+srcProp+" produced no instance: the mechanism is no longer recognisable")
		}
	}
}

// opRoot names the operation a construct belongs to, for instance keys of
// recorded findings: an unexported helper all of whose static call sites lie
// in one function is part of that function's operation (bounded ascent), so a
// finding does not change its identity when the statement it sits in is moved
// into a helper of the same operation.
func opRoot(p *core.Program, fn *ssa.Function) *ssa.Function {
	ensureCallSites(p)
	for depth := 0; depth < 3 && fn != nil; depth++ {
		if fn.Parent() != nil || fn.Object() == nil || fn.Object().Exported() {
			return fn
		}
		var caller *ssa.Function
		for _, cs := range gCallSites[fn] {
			c := cs.Parent()
			if c == fn {
				continue
			}
			if caller != nil && caller != c {
				return fn
			}
			caller = c
		}
		if caller == nil {
			return fn
		}
		fn = caller
	}
	return fn
}
