package rules

import (
	"fmt"
	"go/token"
	"go/types"
	"sort"
	"strings"

	"golang.org/x/tools/go/ssa"

	"shipverif/internal/core"
)

// wsAnchors are the constructs of package ws the C12/C13/C06 rules talk about,
// discovered from what the code does (only the struct fields named in the
// properties' state anchors are looked up by name).
type wsAnchors struct {
	p         *core.Program
	typ       *types.Named
	flag      *types.Var // closed flag
	fns       []*ssa.Function
	getters   map[*ssa.Function]bool // return a load of the flag
	setters   map[*ssa.Function]bool // store true into the flag
	onceBody  []*ssa.Function        // literals passed to sync.Once.Do on a field of typ
	closers   map[*ssa.Function]bool // functions calling Once.Do(onceBody)
	wrappers  map[*ssa.Function]bool // functions that do nothing but call a setter (their call sites are the flag-setting sites)
	writeFn   *ssa.Function          // implements WebsocketDataWriterInterface.WriteMessageToWebsocketConnection
	mReport   *types.Func            // WebsocketDataReaderInterface.ReportConnectionError
	mIncoming *types.Func            // WebsocketDataReaderInterface.HandleIncomingWebsocketMessage
}

func isBuiltin(in ssa.Instruction, name string) bool {
	c := core.Common(in)
	if c == nil {
		return false
	}
	b, ok := c.Value.(*ssa.Builtin)
	return ok && b.Name() == name
}

func chanField(v ssa.Value) *types.Var {
	f, _ := core.LoadedField(v)
	if f == nil {
		// a channel parameter that every caller binds to a load of one and the same struct field
		if pa, ok := core.Canon(v).(*ssa.Parameter); ok {
			fn := pa.Parent()
			idx := -1
			for i, q := range fn.Params {
				if q == pa {
					idx = i
				}
			}
			refs := gCallSites[fn]
			if idx < 0 || len(refs) == 0 {
				return nil
			}
			var bound *types.Var
			for _, ref := range refs {
				c := core.Common(ref)
				if c == nil || c.StaticCallee() != fn || idx >= len(c.Args) {
					return nil
				}
				g, _ := core.LoadedField(c.Args[idx])
				if g == nil || (bound != nil && bound != g) {
					return nil
				}
				bound = g
			}
			f = bound
		}
	}
	if f == nil {
		return nil
	}
	if _, ok := f.Type().Underlying().(*types.Chan); !ok {
		return nil
	}
	return f
}

// precededBy: on every path from the entry of fn to instruction at, an instruction satisfying pred is
// executed first - within fn, or (when fn is a helper) before every call of fn in its callers (depth levels up).
// Calls started with go / defer do not count as callers that precede.
func precededBy(p *core.Program, fn *ssa.Function, at ssa.Instruction, pred func(ssa.Instruction) bool, depth int) bool {
	ensureCallSites(p)
	if core.PathSearch(fn, nil, func(y ssa.Instruction) bool { return y == at }, pred, nil) == nil {
		return true
	}
	cs := gCallSites[fn]
	if depth == 0 || len(cs) == 0 {
		return false
	}
	for _, c := range cs {
		if _, isCall := c.(*ssa.Call); !isCall {
			return false
		}
		if !precededBy(p, c.Parent(), c, pred, depth-1) {
			return false
		}
	}
	return true
}

// gCallSites: static call / go / defer sites per repo function (ssa.Function has no referrers).
var gCallSites map[*ssa.Function][]ssa.Instruction
var gCallSitesFor *core.Program

func ensureCallSites(p *core.Program) {
	if gCallSitesFor == p {
		return
	}
	gCallSitesFor = p
	gCallSites = map[*ssa.Function][]ssa.Instruction{}
	for _, fn := range p.RepoFuncs() {
		core.EachInstr(fn, func(in ssa.Instruction) {
			if c := core.Common(in); c != nil {
				if t := c.StaticCallee(); t != nil {
					gCallSites[t] = append(gCallSites[t], in)
				}
			}
		})
	}
}

func findWS(p *core.Program, r *core.Report, rule string) *wsAnchors {
	ensureCallSites(p)
	a := &wsAnchors{p: p, getters: map[*ssa.Function]bool{}, setters: map[*ssa.Function]bool{}, closers: map[*ssa.Function]bool{}}
	a.fns = p.FuncsOf("ws")
	iface := p.Named("api", "WebsocketDataWriterInterface")
	if iface == nil {
		r.Unresolved(rule, "api.WebsocketDataWriterInterface")
		return nil
	}
	it := iface.Underlying().(*types.Interface)
	sc := p.Pkg("ws").Pkg.Scope()
	for _, n := range sc.Names() {
		if tn, ok := sc.Lookup(n).(*types.TypeName); ok {
			if nt, ok := tn.Type().(*types.Named); ok {
				if _, isStruct := nt.Underlying().(*types.Struct); isStruct && types.Implements(types.NewPointer(nt), it) {
					a.typ = nt
				}
			}
		}
	}
	if a.typ == nil {
		r.Unresolved(rule, "ws type implementing api.WebsocketDataWriterInterface")
		return nil
	}
	a.flag = p.Field("ws", a.typ.Obj().Name(), "connectionClosed")
	if a.flag == nil {
		r.Unresolved(rule, "closed flag field ws."+a.typ.Obj().Name()+".connectionClosed")
		return nil
	}
	a.writeFn = p.Method("ws", a.typ.Obj().Name(), "WriteMessageToWebsocketConnection")
	a.mReport = p.IfaceMethod("api", "WebsocketDataReaderInterface", "ReportConnectionError")
	a.mIncoming = p.IfaceMethod("api", "WebsocketDataReaderInterface", "HandleIncomingWebsocketMessage")
	if a.writeFn == nil || a.mReport == nil || a.mIncoming == nil {
		r.Unresolved(rule, "write entry / reader interface methods")
		return nil
	}
	for _, fn := range a.fns {
		// getter: every return yields a load of the flag
		if fn.Signature.Results().Len() == 1 && types.Identical(fn.Signature.Results().At(0).Type(), types.Typ[types.Bool]) {
			all, any := true, false
			core.EachInstr(fn, func(in ssa.Instruction) {
				if ret, ok := in.(*ssa.Return); ok {
					any = true
					if f, _ := core.LoadedField(core.ResultOf(ret, 0)); f != a.flag {
						all = false
					}
				}
			})
			if all && any {
				a.getters[fn] = true
			}
		}
		core.EachInstr(fn, func(in ssa.Instruction) {
			if f, _, v := core.StoredField(in); f == a.flag {
				if c := core.ConstOf(v); c != nil && c.String() == "true" {
					a.setters[fn] = true
				}
			}
			if core.IsStaticCall(in, "(*sync.Once).Do") {
				c := core.Common(in)
				if fa, ok := c.Args[0].(*ssa.FieldAddr); ok && core.NamedOf(fa.X.Type()) == a.typ {
					if body := core.ClosureArg(c.Args[1]); body != nil {
						a.onceBody = append(a.onceBody, body)
						a.closers[fn] = true
					}
				}
			}
		})
	}
	if len(a.getters) == 0 && false {
		r.Unresolved(rule, "closed-flag getter")
	}
	// pure wrappers of a setter (markClosed() { w.setClosed(nil) }) are setters themselves
	a.wrappers = map[*ssa.Function]bool{}
	for changed := true; changed; {
		changed = false
		for _, fn := range a.fns {
			if a.setters[fn] || len(fn.Blocks) == 0 {
				continue
			}
			all, any := true, false
			core.EachInstr(fn, func(in ssa.Instruction) {
				c := core.Common(in)
				if c == nil {
					return
				}
				if _, op, _ := core.MutexOp(in); op != 0 {
					return
				}
				if t := c.StaticCallee(); t != nil && a.setters[t] {
					any = true
					return
				}
				all = false
			})
			if all && any {
				a.setters[fn], a.wrappers[fn] = true, true
				changed = true
			}
		}
	}
	return a
}

// flagRead: v is a read of the closed flag (getter call or direct load).
func (a *wsAnchors) flagRead(v ssa.Value) bool {
	if c, ok := v.(*ssa.Call); ok {
		if f := c.Call.StaticCallee(); f != nil && a.getters[f] {
			return true
		}
	}
	f, _ := core.LoadedField(v)
	return f == a.flag
}

// notClosedEdge: CFG edge on which the closed flag was just read as false.
func (a *wsAnchors) notClosedEdge(b *ssa.BasicBlock, idx int) bool {
	i := core.BlockIf(b)
	if i == nil {
		return false
	}
	v, truth := core.Truth(i.Cond, idx)
	return a.flagRead(v) && !truth
}

func (a *wsAnchors) isFlagCheckInstr(in ssa.Instruction) bool {
	v, ok := in.(ssa.Value)
	return ok && a.flagRead(v)
}

func (a *wsAnchors) callsSetter(in ssa.Instruction) bool {
	c := core.Common(in)
	if c == nil {
		return false
	}
	f := c.StaticCallee()
	return f != nil && a.setters[f]
}

func (a *wsAnchors) callsCloser(in ssa.Instruction) bool {
	if _, ok := in.(*ssa.Go); ok {
		return false
	}
	c := core.Common(in)
	if c == nil {
		return false
	}
	f := c.StaticCallee()
	return f != nil && a.closers[f]
}

type chanUse struct {
	fn   *ssa.Function
	in   ssa.Instruction
	sel  *ssa.Select // non-nil when the use is an arm of a select
	kind string      // send, recv, close
}

func (a *wsAnchors) chanUses(fns []*ssa.Function) map[*types.Var][]chanUse {
	uses := map[*types.Var][]chanUse{}
	for _, fn := range fns {
		core.EachInstr(fn, func(in ssa.Instruction) {
			switch x := in.(type) {
			case *ssa.Send:
				if f := chanField(x.Chan); f != nil {
					uses[f] = append(uses[f], chanUse{fn, in, nil, "send"})
				}
			case *ssa.UnOp:
				if x.Op == token.ARROW {
					if f := chanField(x.X); f != nil {
						uses[f] = append(uses[f], chanUse{fn, in, nil, "recv"})
					}
				}
			case *ssa.Select:
				for _, st := range x.States {
					if f := chanField(st.Chan); f != nil {
						k := "recv"
						if st.Dir == types.SendOnly {
							k = "send"
						}
						uses[f] = append(uses[f], chanUse{fn, in, x, k})
					}
				}
			case *ssa.Call:
				if isBuiltin(in, "close") {
					if f := chanField(x.Call.Args[0]); f != nil {
						uses[f] = append(uses[f], chanUse{fn, in, nil, "close"})
					}
				}
			}
		})
	}
	return uses
}

func init() {
	register("C12", checkC12)
	register("C13", checkC13)
}

func checkC12(p *core.Program, r *core.Report) {
	r.Explanation = "C12 (write vs. close never panics/hangs): decided clauses are the channel discipline of package ws: (R1) no channel that is sent to from the write entry is ever closed by another goroutine without a common lock and closed-flag protocol; (R2) every send towards the writer pump is an arm of a select with an escape arm on a channel the close routine closes; (R3) in the write entry the closed flag is read before the enqueue and every path that does not enqueue returns a non-nil error. Not decided: what the peer receives (gap-free prefix) - needs execution."
	const R1 = "C12.R1 close-vs-send"
	const R2 = "C12.R2 send-has-escape"
	const R3 = "C12.R3 closed-implies-error"
	r.Rule(R1, "a channel with a send site is never closed (or close and send share a mutex and the send is guarded by a flag the closer sets first): Go panics on send to a closed channel")
	r.Rule(R2, "every send on a channel field is an arm of a select that also receives from a channel closed by the close routine (or has a default arm)")
	r.Rule(R3, "write entry: closed flag read dominates the enqueue; every nil-error return passes the enqueue")
	a := findWS(p, r, R1)
	if a == nil {
		return
	}
	tn := "ws." + a.typ.Obj().Name()
	uses := a.chanUses(a.fns)
	r.Counts["ws_functions"] = len(a.fns)
	// channels closed inside the once body (the close routine)
	closedByRoutine := map[*types.Var]bool{}
	for f, us := range uses {
		for _, u := range us {
			if u.kind == "close" {
				for _, ob := range a.onceBody {
					if core.NestedIn(u.fn, ob) {
						closedByRoutine[f] = true
					}
				}
			}
		}
	}
	nsend := 0
	for f, us := range uses {
		var sends, closes []chanUse
		for _, u := range us {
			switch u.kind {
			case "send":
				sends = append(sends, u)
			case "close":
				closes = append(closes, u)
			}
		}
		if len(sends) == 0 {
			continue
		}
		for _, s := range sends {
			nsend++
			if len(closes) == 0 {
				r.OK(R1, fmt.Sprintf("%s.%s send@%s never-closed", tn, f.Name(), p.FnName(s.fn)), p.Pos(s.in.Pos()), "channel has no close site")
			}
			for _, c := range closes {
				key := fmt.Sprintf("%s.%s close@%s send@%s", tn, f.Name(), p.FnName(c.fn), p.FnName(s.fn))
				if core.Outermost(c.fn) == core.Outermost(s.fn) && len(sends) == 1 {
					r.OK(R1, key, p.Pos(c.in.Pos()), "the only sender closes the channel itself")
					continue
				}
				r.Fail(R1, key, p.Pos(c.in.Pos()), fmt.Sprintf("channel %s is closed in %s while %s sends to it (send at %s): a writer between its closed-check and its send panics when the closer runs", f.Name(), p.FnName(c.fn), p.FnName(s.fn), p.Pos(s.in.Pos())))
			}
			// R2
			key := fmt.Sprintf("%s.%s send@%s", tn, f.Name(), p.FnName(s.fn))
			if s.sel == nil {
				r.Fail(R2, key, p.Pos(s.in.Pos()), "plain blocking send: once the pump has exited and the queue is full the writer blocks forever (holding the write mutex)")
				continue
			}
			esc := !s.sel.Blocking
			for _, st := range s.sel.States {
				if st.Dir == types.RecvOnly {
					if g := chanField(st.Chan); g != nil && closedByRoutine[g] {
						esc = true
					}
				}
			}
			if esc {
				r.OK(R2, key, p.Pos(s.in.Pos()), "select has an escape arm")
			} else {
				r.Fail(R2, key, p.Pos(s.in.Pos()), "select with a send arm has no arm receiving from a channel the close routine closes")
			}
		}
	}
	r.Counts["send_sites"] = nsend
	r.Floor(R1, 1)
	r.Floor(R2, 1)

	// R3 on the write entry (the enqueue itself may live in a package-local helper the entry delegates to)
	w := a.writeFn
	findEnq := func(fn *ssa.Function) []ssa.Instruction {
		var out []ssa.Instruction
		core.EachInstr(fn, func(in ssa.Instruction) {
			switch x := in.(type) {
			case *ssa.Send:
				if chanField(x.Chan) != nil {
					out = append(out, in)
				}
			case *ssa.Select:
				for _, st := range x.States {
					if st.Dir == types.SendOnly && chanField(st.Chan) != nil {
						out = append(out, in)
					}
				}
			}
		})
		return out
	}
	host := w
	var viaCall ssa.Instruction
	enq := findEnq(w)
	if len(enq) == 0 {
		core.EachInstr(w, func(in ssa.Instruction) {
			if c, ok := in.(*ssa.Call); ok && viaCall == nil {
				if t := c.Call.StaticCallee(); t != nil && p.PkgShort(t) == "ws" && t.Blocks != nil {
					if e := findEnq(t); len(e) > 0 {
						host, viaCall, enq = t, in, e
					}
				}
			}
		})
	}
	if len(enq) == 0 {
		r.Fail(R3, "write-entry "+p.FnName(w)+" enqueue", p.Pos(w.Pos()), "no enqueue (channel send) found in the write entry")
	}
	for _, e := range enq {
		key := "write-entry " + p.FnName(w) + " flag-before-enqueue"
		if core.Guarded(e, a.notClosedEdge) || (viaCall != nil && core.Guarded(viaCall, a.notClosedEdge)) {
			r.OK(R3, key, p.Pos(e.Pos()), "every path to the enqueue reads the closed flag as false")
		} else {
			r.Fail(R3, key, p.Pos(e.Pos()), "a path reaches the enqueue without having read the closed flag as false")
		}
	}
	isEnq := func(in ssa.Instruction) bool {
		if viaCall != nil && in == viaCall {
			return true
		}
		for _, e := range enq {
			if e == in {
				return true
			}
		}
		return false
	}
	// nil-error returns must pass the enqueue; for a select-enqueue the send arm must have been taken.
	nilReturns := func(fn *ssa.Function) {
		core.EachInstr(fn, func(in ssa.Instruction) {
			ret, ok := in.(*ssa.Return)
			if !ok || len(ret.Results) == 0 {
				return
			}
			res := core.ResultOf(ret, len(ret.Results)-1)
			check := func(target func(ssa.Instruction) bool, what string) {
				key := "write-entry " + p.FnName(w) + " nil-return-only-after-enqueue"
				if bad := core.PathSearch(fn, nil, target, isEnq, nil); bad != nil {
					r.Fail(R3, key, p.Pos(bad.Pos()), "a path returns a nil error without having enqueued the message ("+what+")")
				} else {
					r.OK(R3, key, p.Pos(ret.Pos()), "all nil-error returns pass the enqueue")
				}
			}
			if core.IsNilConst(res) {
				check(func(x ssa.Instruction) bool { return x == ret }, "constant nil")
			} else if phi, ok := res.(*ssa.Phi); ok {
				for k, e := range phi.Edges {
					if core.IsNilConst(e) {
						pred := phi.Block().Preds[k]
						last := pred.Instrs[len(pred.Instrs)-1]
						check(func(x ssa.Instruction) bool { return x == last }, "nil via phi")
					}
				}
			}
		})
	}
	nilReturns(w)
	if host != w {
		nilReturns(host)
	}
	// when the enqueue is a select, the nil return must be on the send arm only
	for _, e := range enq {
		sel, ok := e.(*ssa.Select)
		if !ok {
			continue
		}
		sendIdx := -1
		for i, st := range sel.States {
			if st.Dir == types.SendOnly {
				sendIdx = i
			}
		}
		// find returns reachable when index != sendIdx: the select's index is extracted and compared
		bad := selectNilReturnOffArm(host, sel, sendIdx)
		key := "write-entry " + p.FnName(w) + " select-arms"
		if bad != nil {
			r.Fail(R3, key, p.Pos(bad.Pos()), "the escape/default arm of the enqueue select returns an error that can be nil (a constant nil, or a stored value such as the close error, which is nil after a local close): the writer is told success for a message that was never queued")
		} else {
			r.OK(R3, key, p.Pos(sel.Pos()), "only the send arm returns nil")
		}
	}
	r.Floor(R3, 2)

	// R4: a writer blocked in the enqueue select holds its locks; the close routine must be able to
	// reach close(escape channel) without acquiring any of them
	const R4 = "C12.R4 escape-not-behind-writer-lock"
	const R5 = "C12.R5 transport-writes-serialised"
	r.Rule(R4, "no lock held by a writer blocked in the enqueue select is acquired on any path from an entry to the close() of its escape channel")
	r.Rule(R5, "every gorilla write call (Conn.WriteMessage/WriteControl/NextWriter/WriteJSON) holds one common mutex: gorilla allows one concurrent writer and panics otherwise")
	li := checkEscapeLocks(p, r, a, uses, closedByRoutine, R4, tn)
	r.Floor(R4, 1)
	checkTransportWrites(p, r, a, li, R5)
	r.Floor(R5, 1)

	// R6: blocked writers are released before the upper layer is called back
	const R6 = "C12.R6 release-before-report"
	r.Rule(R6, "every ReportConnectionError call of package ws is preceded on all paths by the close routine: a writer blocked on the full queue is released only by the close routine, and the upper layer's reaction to the report (CloseConnection) waits for the close-once such a writer may hold")
	for _, fn := range a.fns {
		var sites []ssa.Instruction
		core.EachInstr(fn, func(in ssa.Instruction) {
			if a.mReport != nil && core.IsInvokeOf(in, a.mReport) {
				sites = append(sites, in)
			}
		})
		for i, site := range sites {
			key := fmt.Sprintf("%s report#%d in %s after the close routine", tn, i+1, p.FnName(fn))
			site := site
			var preceded func(g *ssa.Function, at ssa.Instruction, depth int) bool
			preceded = func(g *ssa.Function, at ssa.Instruction, depth int) bool {
				if core.PathSearch(g, nil, func(y ssa.Instruction) bool { return y == at }, a.callsCloser, nil) == nil {
					return true
				}
				// a helper: every call site of it must be preceded by the close routine
				cs := gCallSites[g]
				if depth == 0 || len(cs) == 0 {
					return false
				}
				for _, c := range cs {
					if _, isGo := c.(*ssa.Go); isGo || !preceded(c.Parent(), c, depth-1) {
						return false
					}
				}
				return true
			}
			if !preceded(fn, site, 2) {
				r.Fail(R6, key, p.Pos(site.Pos()), "the error is reported to the SHIP layer before the close routine ran: writers blocked in the enqueue select are still waiting while the SHIP layer's reaction blocks on them")
			} else {
				r.OK(R6, key, p.Pos(site.Pos()), "the close routine is called on every path before the report")
			}
		}
	}
	r.Floor(R6, 2)

	// R7: one FIFO between acceptance and the wire (rule shared with C06.R3)
	const R7 = "C12.R7 one-queue-one-consumer"
	r.Rule(R7, "the outgoing queue has exactly one consumer function, started once, producers are serialised by one mutex and the consumer writes the value it dequeued: a second consumer (e.g. a close routine that drains the queue itself) puts message k+1 on the wire before k (rule shared with C06.R3)")
	checkOutgoingQueue(p, r, R7)

	// R8: no mutex of the connection is left locked when a function returns
	const R8 = "C12.R8 no-lock-left-held"
	r.Rule(R8, "in package ws no function returns on some path with a mutex it acquired still locked (unless a deferred unlock covers it): a writer that leaves with the enqueue mutex held makes every later write block forever instead of returning the closed error")
	checkLockLeaks(p, r, R8, a.fns)
	r.Floor(R8, 3)

	const R11 = "C12.R11 write-deadline-never-cleared"
	r.Rule(R11, "every SetWriteDeadline passes time.Now().Add(constant), never the zero time: the close-frame write does not arm a deadline of its own, it is bounded by the one the pump left; clearing the deadline after a successful write lets a local close on a stalled transport block for ever with the write mutex held")
	{
		nd := 0
		for _, fn := range a.fns {
			fn := fn
			core.EachInstr(fn, func(in ssa.Instruction) {
				if !core.IsStaticCall(in, "(*github.com/gorilla/websocket.Conn).SetWriteDeadline") {
					return
				}
				nd++
				arg := core.Canon(core.Common(in).Args[1])
				key := "write deadline set in " + p.FnName(fn)
				okArg := false
				if c, ok := arg.(*ssa.Call); ok && core.CalleeName(&c.Call) == "(time.Time).Add" {
					if inner, ok := core.Canon(c.Call.Args[0]).(*ssa.Call); ok && core.CalleeName(&inner.Call) == "time.Now" && core.ConstOf(core.Canon(c.Call.Args[1])) != nil {
						okArg = true
					}
				}
				if okArg {
					r.OK(R11, key, p.Pos(in.Pos()), "now + constant")
				} else {
					r.Fail(R11, key, p.Pos(in.Pos()), "the write deadline is set to something other than now + constant (e.g. cleared with the zero time): later writes that rely on it - the close frame - are unbounded and block for ever on a stalled transport")
				}
			})
		}
		if nd == 0 {
			r.Fail(R11, "write deadline", "", "no write deadline is ever armed: a stalled peer blocks the write pump for ever")
		}
	}
	// R12: no mutex of the connection is acquired while it may already be held by the same call chain
	const R12 = "C12.R12 no-reentrant-acquire"
	r.Rule(R12, "no function of the websocket connection acquires one of the connection's mutexes - in either mode - on a path on which the calling chain may already hold it: sync mutexes are not re-entrant, and a second RLock blocks as soon as a writer (the close path storing the closed flag) queues up between the two, after which every writer, the pumps and the close itself hang")
	{
		may := core.MayLocks(a.fns)
		nacq := 0
		seenK := map[string]bool{}
		for _, fn := range a.fns {
			fn := fn
			core.EachInstr(fn, func(in ssa.Instruction) {
				if _, isDefer := in.(*ssa.Defer); isDefer {
					return
				}
				id, op, _ := core.MutexOp(in)
				if op <= 0 || !strings.HasPrefix(id, "ws.") {
					return
				}
				nacq++
				key := "acquire of " + id + " in " + p.FnName(fn)
				if may[in][id] || may[in][id+"#R"] {
					r.Fail(R12, key, p.Pos(in.Pos()), id+" may already be held (by this function or a caller in the chain) when it is acquired here")
					seenK[key] = true
				} else if !seenK[key] {
					r.OK(R12, key, p.Pos(in.Pos()), "not held on any path to here")
				}
			})
		}
		if nacq == 0 {
			r.Fail(R12, "mutex acquisitions", "", "no mutex acquisition found in package ws")
		}
	}
	const R9 = "C12.R9 close-routine-always-releases"
	r.Rule(R9, "every path through the close routine closes the stop/escape channel and the socket (shared with C13.R1): an early return before close(closeChannel) leaves writers blocked on the full queue for ever")
	importRules(p, r, "C13", map[string]string{"C13.R1 close-routine-releases": R9}, nil)
	const R10 = "C12.R10 connection-fields-stable"
	r.Rule(R10, "the fields of the websocket connection obey the lockset discipline (shared with C20.R1): in particular the socket field is never reassigned after construction - the pumps check the closed flag, then take the write mutex, then use the socket, so clearing it in between is a nil dereference in the pump")
	importRules(p, r, "C20", map[string]string{"C20.R1 consistent-lockset": R10}, func(key string) bool { return strings.HasPrefix(key, "ws.WebsocketConnection.") })
}

// checkLockLeaks: may-lockset (union over paths) at every return of every function must be covered by deferred unlocks.
func checkLockLeaks(p *core.Program, r *core.Report, rule string, fns []*ssa.Function) {
	for _, fn := range fns {
		if len(fn.Blocks) == 0 {
			continue
		}
		locks := false
		core.EachInstr(fn, func(in ssa.Instruction) {
			if _, op, _ := core.MutexOp(in); op > 0 {
				if _, isDefer := in.(*ssa.Defer); !isDefer {
					locks = true
				}
			}
		})
		if !locks {
			continue
		}
		// forward may-analysis
		type set = map[string]bool
		in := map[*ssa.BasicBlock]set{fn.Blocks[0]: {}}
		work := []*ssa.BasicBlock{fn.Blocks[0]}
		deferred := set{}
		core.EachInstr(fn, func(i ssa.Instruction) {
			if d, ok := i.(*ssa.Defer); ok {
				if id, op, read := core.MutexOp(d); op < 0 {
					if read {
						id += "#R"
					}
					deferred[id] = true
				}
			}
		})
		var leakAt ssa.Instruction
		leaked := ""
		for len(work) > 0 {
			b := work[0]
			work = work[1:]
			cur := set{}
			for k := range in[b] {
				cur[k] = true
			}
			for _, i := range b.Instrs {
				switch i.(type) {
				case *ssa.Defer, *ssa.Go:
					continue
				}
				if id, op, read := core.MutexOp(i); op != 0 {
					if read {
						id += "#R"
					}
					if op > 0 {
						cur[id] = true
					} else {
						delete(cur, id)
					}
				}
				if ret, ok := i.(*ssa.Return); ok {
					for id := range cur {
						if !deferred[id] && leakAt == nil {
							leakAt, leaked = ret, id
						}
					}
				}
			}
			for _, sblk := range b.Succs {
				old, seen := in[sblk]
				changed := !seen
				if !seen {
					old = set{}
					in[sblk] = old
				}
				for k := range cur {
					if !old[k] {
						old[k] = true
						changed = true
					}
				}
				if changed {
					work = append(work, sblk)
				}
			}
		}
		// a lock wrapper (every return holds the mutex) acquires on behalf of its caller: not a leak
		if leakAt != nil {
			must := core.Locksets(fn, core.LockSet{})
			wrapper := true
			core.EachInstr(fn, func(i ssa.Instruction) {
				if _, ok := i.(*ssa.Return); ok && !must[i][leaked] {
					wrapper = false
				}
			})
			if wrapper {
				leakAt = nil
			}
		}
		key := "locks released on every return of " + p.FnName(fn)
		if leakAt != nil {
			r.Fail(rule, key, p.Pos(leakAt.Pos()), "a path returns with "+leaked+" still locked: every later acquirer of that mutex blocks forever")
		} else {
			r.OK(rule, key, p.Pos(fn.Pos()), "every acquired mutex is released (or covered by a deferred unlock) on all returning paths")
		}
	}
}

// selectNilReturnOffArm finds a nil-error return reachable from the select
// through an arm other than sendIdx.
func selectNilReturnOffArm(fn *ssa.Function, sel *ssa.Select, sendIdx int) ssa.Instruction {
	// edges that correspond to "index == sendIdx" being true are removed
	removed := func(b *ssa.BasicBlock, idx int) bool {
		i := core.BlockIf(b)
		if i == nil {
			return false
		}
		v, truth := core.Truth(i.Cond, idx)
		bo, ok := v.(*ssa.BinOp)
		if !ok || bo.Op != token.EQL {
			return false
		}
		isIdx := func(x ssa.Value) bool {
			e, ok := x.(*ssa.Extract)
			return ok && e.Tuple == sel && e.Index == 0
		}
		var other ssa.Value
		if isIdx(bo.X) {
			other = bo.Y
		} else if isIdx(bo.Y) {
			other = bo.X
		} else {
			return false
		}
		c := core.ConstOf(other)
		if c == nil {
			return false
		}
		return truth && c.String() == fmt.Sprint(sendIdx)
	}
	// a return whose value is merged from the arms (single return after the select) is judged per incoming edge:
	// the off-arm paths must not be the ones that supply a possibly-nil value
	targets := map[ssa.Instruction]bool{}
	core.EachInstr(fn, func(in ssa.Instruction) {
		ret, ok := in.(*ssa.Return)
		if !ok || len(ret.Results) == 0 {
			return
		}
		res := core.ResultOf(ret, len(ret.Results)-1)
		if phi, ok := res.(*ssa.Phi); ok {
			for k, e := range phi.Edges {
				if maybeNilError(e, 0) {
					pred := phi.Block().Preds[k]
					// the edge pred -> phi block itself may be the send arm's edge
					viaRemoved := true
					for idx, sc := range pred.Succs {
						if sc == phi.Block() && !removed(pred, idx) {
							viaRemoved = false
						}
					}
					if !viaRemoved {
						targets[pred.Instrs[len(pred.Instrs)-1]] = true
					}
				}
			}
			return
		}
		if maybeNilError(res, 0) {
			targets[ret] = true
		}
	})
	return core.PathSearch(fn, sel, func(in ssa.Instruction) bool { return targets[in] }, nil, removed)
}

// maybeNilError: the error value is not known to be non-nil (a constant nil, or anything that is not a freshly
// constructed error: e.g. the stored close error, which is nil after a local close).
func maybeNilError(v ssa.Value, depth int) bool {
	if core.IsNilConst(v) {
		return true
	}
	if neverNilError(v) {
		return false
	}
	switch x := v.(type) {
	case *ssa.MakeInterface:
		return false
	case *ssa.Call:
		// a helper of the repository that only returns freshly constructed errors
		if t := x.Call.StaticCallee(); t != nil && t.Blocks != nil && depth <= 3 && t.Signature.Results().Len() == 1 {
			for _, b := range t.Blocks {
				if ret, ok := b.Instrs[len(b.Instrs)-1].(*ssa.Return); ok {
					if maybeNilError(ret.Results[0], depth+1) {
						return true
					}
				}
			}
			return false
		}
	case *ssa.UnOp:
		// a package-level error variable initialised with errors.New (var errClosed = errors.New(...)), never reassigned
		if g, ok := x.X.(*ssa.Global); ok && x.Op == token.MUL {
			return !globalFreshError(g)
		}
	case *ssa.Phi:
		if depth > 3 {
			return true
		}
		for _, e := range x.Edges {
			if maybeNilError(e, depth+1) {
				return true
			}
		}
		return false
	}
	return true
}

func checkC13(p *core.Program, r *core.Report) {
	r.Explanation = "C13 (transport loss reported; goroutines and socket released): decided clauses in package ws: (R1) the close routine (sync.Once body) closes the pumps' stop channel and the socket on every path, and every function that marks the connection closed also runs the close routine; (R2) the read pump reports a read error exactly once, leaves the loop, never delivers a message after an error or after the closed flag was seen, and stays silent after a local close (flag is set before the socket is closed); the write-failure path reports the error; the closed-query returns a non-nil error whenever it returns closed; (R3) both pump loops have an exit on the stop channel; (R4) every path of the SHIP layer's ReportConnectionError reaches CloseConnection. Not decided: actual goroutine termination timing, gorilla/websocket internals."
	const R1 = "C13.R1 close-routine-releases"
	const R2 = "C13.R2 error-told-or-not"
	const R3 = "C13.R3 pumps-can-exit"
	const R4 = "C13.R4 ship-reaction"
	r.Rule(R1, "once body reaches close(stop channel) and conn.Close() on every path; every site that sets the closed flag also runs the close routine")
	r.Rule(R2, "read pump: error => exactly one ReportConnectionError then return; delivery guarded by no-error and not-closed; local close sets the flag before closing the socket; write failure reaches ReportConnectionError; IsDataConnectionClosed: closed => err != nil")
	r.Rule(R3, "each pump loop selects on the stop channel that the close routine closes")
	r.Rule(R4, "ship.ReportConnectionError reaches CloseConnection on all paths")
	a := findWS(p, r, R1)
	if a == nil {
		return
	}
	tn := "ws." + a.typ.Obj().Name()
	uses := a.chanUses(a.fns)

	// ---- R1
	if len(a.onceBody) == 0 {
		r.Unresolved(R1, "sync.Once close routine in package ws")
	}
	isConnClose := func(in ssa.Instruction) bool {
		return core.IsStaticCall(in, "(*github.com/gorilla/websocket.Conn).Close")
	}
	connNilEdge := func(b *ssa.BasicBlock, idx int) bool {
		// edge on which the conn field was found nil: nothing to close there
		i := core.BlockIf(b)
		if i == nil {
			return false
		}
		v, truth := core.Truth(i.Cond, idx)
		bo, ok := v.(*ssa.BinOp)
		if !ok || (bo.Op != token.EQL && bo.Op != token.NEQ) {
			return false
		}
		var fv *types.Var
		if core.IsNilConst(bo.Y) {
			fv, _ = core.LoadedField(bo.X)
		} else if core.IsNilConst(bo.X) {
			fv, _ = core.LoadedField(bo.Y)
		}
		if fv == nil || !core.TypeIs(fv.Type(), "github.com/gorilla/websocket", "Conn") {
			return false
		}
		isNil := truth == (bo.Op == token.EQL)
		return isNil
	}
	stopChans := map[*types.Var]bool{}
	for _, ob := range a.onceBody {
		var closedHere []*types.Var
		for f, us := range uses {
			for _, u := range us {
				if u.kind == "close" && core.NestedIn(u.fn, ob) {
					closedHere = append(closedHere, f)
				}
			}
		}
		if len(closedHere) == 0 {
			r.Fail(R1, tn+" once-body "+p.FnName(ob)+" closes-stop-channel", p.Pos(ob.Pos()), "the close routine closes no channel: the pumps are never told to stop")
		}
		for _, f := range closedHere {
			stopChans[f] = true
			f := f
			bad := core.MustPass(ob, nil, func(in ssa.Instruction) bool {
				return isBuiltin(in, "close") && chanField(core.Common(in).Args[0]) == f
			}, nil)
			key := fmt.Sprintf("%s once-body %s close(%s)-on-all-paths", tn, p.FnName(ob), f.Name())
			if bad != nil {
				r.Fail(R1, key, p.Pos(bad.Pos()), "a path through the close routine returns without closing "+f.Name()+" (pumps keep running, socket stays open)")
			} else {
				r.OK(R1, key, p.Pos(ob.Pos()), "every path closes the stop channel")
			}
		}
		bad := core.MustPass(ob, nil, isConnClose, connNilEdge)
		key := fmt.Sprintf("%s once-body %s conn.Close-on-all-paths", tn, p.FnName(ob))
		if bad != nil {
			r.Fail(R1, key, p.Pos(bad.Pos()), "a path through the close routine returns without closing the socket")
		} else {
			r.OK(R1, key, p.Pos(ob.Pos()), "every path closes the socket")
		}
		// flag is set before the socket is closed (so the reader's resulting error is not reported)
		var setSite, closeSite ssa.Instruction
		core.EachInstr(ob, func(in ssa.Instruction) {
			if a.callsSetter(in) || func() bool { f, _, _ := core.StoredField(in); return f == a.flag }() {
				if setSite == nil {
					setSite = in
				}
			}
			if isConnClose(in) && closeSite == nil {
				closeSite = in
			}
		})
		key = fmt.Sprintf("%s once-body %s flag-before-conn.Close", tn, p.FnName(ob))
		if setSite != nil && closeSite != nil && core.Dominates(setSite, closeSite) {
			r.OK(R2, key, p.Pos(setSite.Pos()), "closed flag is set before the socket is closed")
		} else {
			r.Fail(R2, key, p.Pos(ob.Pos()), "the close routine does not set the closed flag before closing the socket: a deliberate local close is then reported as a connection error by the read pump")
		}
	}
	// the function that wraps the once enters it on every path (the once is the only idempotence guard: a
	// shortcut "already marked closed, nothing to do" skips the release for the error paths, which mark first)
	for _, fn := range a.fns {
		if !a.closers[fn] {
			continue
		}
		key := fmt.Sprintf("%s closer %s always enters the once", tn, p.FnName(fn))
		isDo := func(in ssa.Instruction) bool {
			if !core.IsStaticCall(in, "(*sync.Once).Do") {
				return false
			}
			fa, ok := core.Common(in).Args[0].(*ssa.FieldAddr)
			return ok && core.NamedOf(fa.X.Type()) == a.typ
		}
		if bad := core.MustPass(fn, nil, isDo, nil); bad != nil {
			r.Fail(R1, key, p.Pos(bad.Pos()), "a path through the close function returns without entering the once-guarded close routine (e.g. because the connection is already marked closed): the write-error path marks the connection before it calls close, so the stop channel and the socket are never closed and blocked writers are never released")
		} else {
			r.OK(R1, key, p.Pos(fn.Pos()), "every path enters the once")
		}
	}
	// every flag-setting site outside the once body also runs the close routine
	for _, fn := range a.fns {
		inOnce := false
		for _, ob := range a.onceBody {
			if core.NestedIn(fn, ob) {
				inOnce = true
			}
		}
		if inOnce || a.setters[fn] && len(fn.Params) > 0 && false {
			continue
		}
		core.EachInstr(fn, func(in ssa.Instruction) {
			direct := false
			if f, _, v := core.StoredField(in); f == a.flag {
				if c := core.ConstOf(v); c != nil && c.String() == "true" {
					direct = true
				}
			}
			if !a.callsSetter(in) && !direct {
				return
			}
			if direct && a.setters[fn] && isPureSetter(fn, a.flag) {
				return // the setter helper itself; its call sites are checked
			}
			if a.wrappers[fn] {
				return // a pure wrapper of the setter; its call sites are checked
			}
			key := fmt.Sprintf("%s flag-set@%s runs-close-routine", tn, p.FnName(fn))
			// a closer call dominates the site, or every path from the site passes one
			dom := false
			core.EachInstr(fn, func(x ssa.Instruction) {
				if a.callsCloser(x) && core.Dominates(x, in) {
					dom = true
				}
			})
			if dom {
				r.OK(R1, key, p.Pos(in.Pos()), "close routine runs before the flag is set")
				return
			}
			if bad := core.MustPass(fn, in, a.callsCloser, nil); bad != nil {
				r.Fail(R1, key, p.Pos(in.Pos()), "the connection is marked closed but the close routine (stop channel + socket close) is not run on every path from here; the later close() call then returns early or never happens")
			} else {
				r.OK(R1, key, p.Pos(in.Pos()), "every path from the flag store runs the close routine")
			}
		})
	}
	r.Floor(R1, 3)

	// ---- R2 read pump
	var readPump *ssa.Function
	var deliver ssa.Instruction
	for _, fn := range a.fns {
		core.EachInstr(fn, func(in ssa.Instruction) {
			if core.IsInvokeOf(in, a.mIncoming) {
				readPump, deliver = fn, in
			}
		})
	}
	if readPump == nil {
		r.Unresolved(R2, "read pump (function invoking HandleIncomingWebsocketMessage)")
	} else {
		// the read: the call whose tuple result provides the delivered message
		var read *ssa.Call
		msg := core.Canon(core.Common(deliver).Args[0])
		if ex, ok := msg.(*ssa.Extract); ok {
			read, _ = ex.Tuple.(*ssa.Call)
		}
		if read == nil {
			r.Unresolved(R2, "read call feeding HandleIncomingWebsocketMessage")
		} else {
			errEdge := func(wantErr bool) core.EdgeFilter {
				return func(b *ssa.BasicBlock, idx int) bool {
					i := core.BlockIf(b)
					if i == nil {
						return false
					}
					v, truth := core.Truth(i.Cond, idx)
					bo, ok := v.(*ssa.BinOp)
					if !ok || (bo.Op != token.EQL && bo.Op != token.NEQ) {
						return false
					}
					var other ssa.Value
					if core.IsNilConst(bo.Y) {
						other = bo.X
					} else if core.IsNilConst(bo.X) {
						other = bo.Y
					} else {
						return false
					}
					ex, ok := other.(*ssa.Extract)
					if !ok || ex.Tuple != read {
						return false
					}
					isErr := truth == (bo.Op == token.NEQ)
					return isErr == wantErr
				}
			}
			fnn := p.FnName(readPump)
			if core.Guarded(deliver, errEdge(false)) {
				r.OK(R2, tn+" "+fnn+" deliver-guarded-by-no-error", p.Pos(deliver.Pos()), "delivery only on the err == nil edge of the read")
			} else {
				r.Fail(R2, tn+" "+fnn+" deliver-guarded-by-no-error", p.Pos(deliver.Pos()), "a message can be delivered although the read reported an error")
			}
			if bad := core.PathSearch(readPump, read, func(in ssa.Instruction) bool { return in == deliver }, a.isFlagCheckInstr, nil); bad != nil {
				r.Fail(R2, tn+" "+fnn+" closed-check-between-read-and-deliver", p.Pos(deliver.Pos()), "no closed-flag check between the read and the delivery: a message is delivered after the connection was closed")
			} else {
				r.OK(R2, tn+" "+fnn+" closed-check-between-read-and-deliver", p.Pos(deliver.Pos()), "closed flag re-read after every read")
			}
			// report sites in the pump
			// the report may be made by a helper the pump calls on its error branch (one that always reports)
			mustRepRP := core.NewMust(p, 2, func(in ssa.Instruction) bool { return core.IsInvokeOf(in, a.mReport) })
			isRepRP := func(in ssa.Instruction) bool {
				if core.IsInvokeOf(in, a.mReport) {
					return true
				}
				_, isCall := in.(*ssa.Call)
				return isCall && mustRepRP.Instr(in)
			}
			var reports []ssa.Instruction
			core.EachInstr(readPump, func(in ssa.Instruction) {
				if isRepRP(in) {
					reports = append(reports, in)
				}
			})
			if len(reports) == 0 {
				r.Fail(R2, tn+" "+fnn+" read-error-reported", p.Pos(readPump.Pos()), "the read pump never calls ReportConnectionError")
			}
			for _, rep := range reports {
				if bad := core.PathSearch(readPump, read, func(in ssa.Instruction) bool { return in == rep }, a.isFlagCheckInstr, nil); bad != nil {
					r.Fail(R2, tn+" "+fnn+" no-report-after-local-close", p.Pos(rep.Pos()), "the error report is not preceded by a closed-flag check after the read: a deliberate local close is reported as an error")
				} else {
					r.OK(R2, tn+" "+fnn+" no-report-after-local-close", p.Pos(rep.Pos()), "closed flag checked between read and report")
				}
			}
			// from the error edge: must report, exactly once, and leave the loop
			var errBlocks []*ssa.BasicBlock
			for _, b := range readPump.Blocks {
				for i := range b.Succs {
					if errEdge(true)(b, i) {
						errBlocks = append(errBlocks, b.Succs[i])
					}
				}
			}
			if len(errBlocks) == 0 {
				r.Fail(R2, tn+" "+fnn+" read-error-branch", p.Pos(read.Pos()), "the read's error result is never tested")
			}
			for _, eb := range errBlocks {
				first := eb.Instrs[0]
				isRep := isRepRP
				startsWithRep := isRep(first)
				var bad ssa.Instruction
				if !startsWithRep {
					bad = core.PathSearch(readPump, first, core.IsReturn, isRep, nil)
					if _, isRet := first.(*ssa.Return); isRet {
						bad = first
					}
				}
				if bad != nil {
					r.Fail(R2, tn+" "+fnn+" read-error-reported", p.Pos(first.Pos()), "a path from the failed read returns without ReportConnectionError")
				} else {
					r.OK(R2, tn+" "+fnn+" read-error-reported", p.Pos(first.Pos()), "every path from the failed read reports the error")
				}
				// leaves the loop: the read must not be reachable again
				again := core.PathSearch(readPump, first, func(in ssa.Instruction) bool { return in == read || in == deliver }, nil, nil)
				if again != nil || first == ssa.Instruction(read) {
					r.Fail(R2, tn+" "+fnn+" read-error-leaves-loop", p.Pos(first.Pos()), "after a failed read the pump can read or deliver again")
				} else {
					r.OK(R2, tn+" "+fnn+" read-error-leaves-loop", p.Pos(first.Pos()), "pump returns after a failed read")
				}
				// exactly once: no second report reachable after a report
				for _, rep := range reports {
					if eb.Dominates(rep.Block()) || eb == rep.Block() {
						if second := core.PathSearch(readPump, rep, isRep, nil, nil); second != nil {
							r.Fail(R2, tn+" "+fnn+" read-error-reported-once", p.Pos(second.Pos()), "the error can be reported twice")
						} else {
							r.OK(R2, tn+" "+fnn+" read-error-reported-once", p.Pos(rep.Pos()), "single report")
						}
					}
				}
			}
		}
	}
	// write failure path: from the pump's dequeue the failing conn.WriteMessage reaches ReportConnectionError
	checkWriteFailureReported(p, r, a, R2, tn)
	// IsDataConnectionClosed: closed => err != nil
	checkClosedQuery(p, r, a, R2, tn)
	r.Floor(R2, 6)

	// ---- R5 close routine reachable while a writer is blocked
	const R5 = "C13.R5 close-not-behind-blocked-writer"
	r.Rule(R5, "the close routine reaches close(stop channel) without acquiring a lock that a goroutine blocked on that channel holds (else error report, pump exit and socket close never happen)")
	closedByRoutine := map[*types.Var]bool{}
	for f := range stopChans {
		closedByRoutine[f] = true
	}
	checkEscapeLocks(p, r, a, uses, closedByRoutine, R5, tn)
	r.Floor(R5, 1)

	// ---- R3 pumps can exit
	npump := 0
	for _, fn := range a.fns {
		// a pump: has a loop containing a select / receive, is started by `go`
		started := false
		for _, g := range a.fns {
			core.EachInstr(g, func(in ssa.Instruction) {
				if gi, ok := in.(*ssa.Go); ok && gi.Call.StaticCallee() == fn {
					started = true
				}
			})
		}
		if !started {
			continue
		}
		npump++
		okExit := false
		core.EachInstr(fn, func(in ssa.Instruction) {
			if sel, ok := in.(*ssa.Select); ok && core.InLoop(sel.Block()) {
				for _, st := range sel.States {
					if st.Dir == types.RecvOnly && stopChans[chanField(st.Chan)] {
						okExit = true
					}
				}
			}
		})
		key := tn + " pump " + p.FnName(fn) + " exits-on-stop-channel"
		if okExit {
			r.OK(R3, key, p.Pos(fn.Pos()), "loop selects on the stop channel")
		} else {
			r.Fail(R3, key, p.Pos(fn.Pos()), "the pump loop has no receive on the channel the close routine closes: it cannot be told to stop")
		}
	}
	r.Counts["pumps"] = npump
	r.Floor(R3, 2)

	// ---- R4 ship reaction
	checkShipReaction(p, r, R4)

	// ---- R6 liveness: only received traffic extends the read deadline
	const R6 = "C13.R6 liveness-deadline"
	r.Rule(R6, "the read deadline of the socket is set only by the read pump itself and by the pong handler it installs: a peer that vanished silently is detected solely by that deadline expiring, so extending it from the sending side (e.g. after each ping, whose period is shorter than the pong wait) means the loss is never reported, the pumps never end and the socket is never closed")
	nrd := 0
	var pongHandlers []*ssa.Function
	for _, fn := range a.fns {
		core.EachInstr(fn, func(in ssa.Instruction) {
			if core.IsStaticCall(in, "(*github.com/gorilla/websocket.Conn).SetPongHandler") {
				if cl := core.ClosureArg(core.Common(in).Args[1]); cl != nil {
					pongHandlers = append(pongHandlers, cl)
				}
			}
		})
	}
	isReadPump := func(fn *ssa.Function) bool {
		// the function that reads from the socket in a loop (directly or through a helper)
		mayRead := core.NewMay(p, false, func(in ssa.Instruction) bool {
			return core.IsStaticCall(in, "(*github.com/gorilla/websocket.Conn).ReadMessage") || core.IsStaticCall(in, "(*github.com/gorilla/websocket.Conn).NextReader")
		})
		return mayRead.Fn(fn)
	}
	for _, fn := range a.fns {
		fn := fn
		core.EachInstr(fn, func(in ssa.Instruction) {
			if !core.IsStaticCall(in, "(*github.com/gorilla/websocket.Conn).SetReadDeadline") {
				return
			}
			nrd++
			key := "read deadline set in " + p.FnName(fn)
			var recvSide func(g *ssa.Function, depth int) bool
			recvSide = func(g *ssa.Function, depth int) bool {
				if isReadPump(core.Outermost(g)) {
					return true
				}
				for _, ph := range pongHandlers {
					if g == ph || core.NestedIn(g, ph) {
						return true
					}
				}
				sites := gCallSites[g]
				if depth == 0 || len(sites) == 0 {
					return false
				}
				for _, cs := range sites {
					if !recvSide(cs.Parent(), depth-1) {
						return false
					}
				}
				return true
			}
			okSite := recvSide(fn, 2)
			if okSite {
				r.OK(R6, key, p.Pos(in.Pos()), "on the receiving side (read pump / pong handler)")
			} else {
				r.Fail(R6, key, p.Pos(in.Pos()), "the read deadline is extended from a function that is not on the receiving side: a silently dead peer is never detected")
			}
		})
	}
	if nrd == 0 || len(pongHandlers) == 0 {
		r.Fail(R6, "read deadline / pong handler", "", "no read deadline or no pong handler is installed: a silently dead transport is never noticed")
	}

	// ---- R7 the local close path does not call back upward
	const R7 = "C13.R7 no-report-from-local-close"
	r.Rule(R7, "no ReportConnectionError is reachable from CloseDataConnection: the SHIP layer calls it from inside its close-once, and a report from there re-enters CloseConnection (sync.Once is not re-entrant: the close never finishes and the end is never reported)")
	if cdc := p.Method("ws", a.typ.Obj().Name(), "CloseDataConnection"); cdc != nil {
		wsLocal := func(f *ssa.Function) bool { return p.PkgShort(f) == "ws" && f.Blocks != nil }
		if core.MayReachCtx(cdc, wsLocal, func(in ssa.Instruction) bool { return core.IsInvokeOf(in, a.mReport) }, 4) {
			r.Fail(R7, tn+" CloseDataConnection never reports", p.Pos(cdc.Pos()), "a path from CloseDataConnection reaches ReportConnectionError (e.g. the close frame is written with the error-handling writer): when that write fails the SHIP layer's close-once is re-entered and deadlocks")
		} else {
			r.OK(R7, tn+" CloseDataConnection never reports", p.Pos(cdc.Pos()), "no upward callback on the local close path")
		}
	} else {
		r.Unresolved(R7, "CloseDataConnection of the websocket connection")
	}

	// ---- R9 no transport write error is dropped
	const R9w = "C13.R9 write-results-used"
	r.Rule(R9w, "the error result of every gorilla write call (WriteMessage, WriteControl, WriteJSON, NextWriter) is used, and the result of a package function that wraps such a write is discarded only on the local close path: a keep-alive ping whose failure is ignored leaves a dead transport unreported until the pong deadline, with both pumps alive and the socket open")
	{
		isIO := func(in ssa.Instruction) bool {
			switch core.CalleeName(core.Common(in)) {
			case "(*github.com/gorilla/websocket.Conn).WriteMessage", "(*github.com/gorilla/websocket.Conn).WriteControl",
				"(*github.com/gorilla/websocket.Conn).WriteJSON", "(*github.com/gorilla/websocket.Conn).NextWriter", "(*github.com/gorilla/websocket.Conn).WritePreparedMessage":
				return true
			}
			return false
		}
		mayIO := core.NewMay(p, false, isIO)
		cdc := p.Method("ws", a.typ.Obj().Name(), "CloseDataConnection")
		nres := 0
		for _, fn := range a.fns {
			fn := fn
			core.EachInstr(fn, func(in ssa.Instruction) {
				call, ok := in.(*ssa.Call)
				if !ok {
					return
				}
				direct := isIO(in)
				wrapper := false
				if t := call.Call.StaticCallee(); !direct && t != nil && p.PkgShort(t) == "ws" && t.Blocks != nil && mayIO.Fn(t) {
					res := t.Signature.Results()
					// a wrapper that returns the error leaves the handling to its caller (one that returns a bool
					// has handled - reported - the failure itself, see R2)
					if res.Len() > 0 && types.TypeString(res.At(res.Len()-1).Type(), nil) == "error" {
						wrapper = true
					}
				}
				if !direct && !wrapper {
					return
				}
				nres++
				used := call.Referrers() != nil && len(*call.Referrers()) > 0
				key := "result of transport write in " + p.FnName(fn)
				switch {
				case used:
					r.OK(R9w, key, p.Pos(in.Pos()), "the outcome of the write is examined or handed on")
				case wrapper && cdc != nil && withinOp(p, fn, cdc, 2):
					r.OK(R9w, key, p.Pos(in.Pos()), "local close: nothing to report")
				default:
					r.Fail(R9w, key, p.Pos(in.Pos()), "the result of a transport write is discarded: when this write fails (e.g. the keep-alive ping on a dead transport) nothing is reported, the closed query stays (false, nil) and pumps and socket live on")
				}
			})
		}
		if nres == 0 {
			r.Fail(R9w, "transport write results", "", "no transport write found")
		}
	}
	// ---- R8 a local close always runs the close routine
	const R8 = "C13.R8 local-close-always-closes"
	r.Rule(R8, "every path of CloseDataConnection calls the close routine - also when the close frame cannot be written (a write deadline that expired during a quiet period is enough): otherwise the socket and the read pump stay alive after the SHIP layer considers the connection ended")
	if cdc := p.Method("ws", a.typ.Obj().Name(), "CloseDataConnection"); cdc != nil {
		must := core.NewMust(p, 2, a.callsCloser)
		if bad := core.MustPass(cdc, nil, must.Instr, nil); bad != nil {
			r.Fail(R8, tn+" CloseDataConnection always closes", p.Pos(bad.Pos()), "a path of CloseDataConnection returns without running the close routine: the socket stays open and the pumps keep running although the connection was closed locally")
		} else {
			r.OK(R8, tn+" CloseDataConnection always closes", p.Pos(cdc.Pos()), "the close routine is called on every path")
		}
	} else {
		r.Unresolved(R8, "CloseDataConnection of the websocket connection")
	}
	// ---- R2 (cont.): what the read pump calls to get a message never closes the connection itself
	{
		mayCloseLocally := core.NewMay(p, false, func(in ssa.Instruction) bool {
			if a.callsCloser(in) || a.callsSetter(in) {
				return true
			}
			f, _, _ := core.StoredField(in)
			return f != nil && f == a.flag
		})
		nrd := 0
		for _, fn := range a.fns {
			pump := false
			core.EachInstr(fn, func(in ssa.Instruction) {
				if core.IsInvokeOf(in, a.mIncoming) {
					pump = true
				}
			})
			if !pump {
				continue
			}
			fn := fn
			core.EachInstr(fn, func(in ssa.Instruction) {
				c, ok := in.(*ssa.Call)
				if !ok {
					return
				}
				t := c.Call.StaticCallee()
				if t == nil || t.Blocks == nil || p.PkgShort(t) != "ws" {
					return
				}
				res := t.Signature.Results()
				if res.Len() == 0 || types.TypeString(res.At(res.Len()-1).Type(), nil) != "error" {
					return
				}
				nrd++
				key := tn + " read step " + p.FnName(t) + " leaves the closing to the pump"
				if mayCloseLocally.Fn(t) {
					r.Fail(R2, key, p.Pos(in.Pos()), "the function the read pump calls to obtain a message can mark / close the connection itself before it returns the error (e.g. for a frame it rejects): the pump then takes the error for the echo of a local close and stays silent - the SHIP layer is never told, the hub keeps the dead connection registered")
				} else {
					r.OK(R2, key, p.Pos(in.Pos()), "only returns the error")
				}
			})
		}
		if nrd == 0 {
			r.Fail(R2, tn+" read step", "", "the read pump's message source is not recognisable")
		}
	}
	// ---- R12 a failed read delivers nothing
	const R12c = "C13.R12 failed-read-delivers-nothing"
	r.Rule(R12c, "what the read pump delivers is the complete result of one successful library read (shared with C06.R7): a body that is assembled by hand with the read error dropped hands the truncated prefix of a message to the SHIP layer after the read that failed")
	importRules(p, r, "C06", map[string]string{"C06.R7 no-message-size-limit": R12c}, func(key string) bool { return strings.Contains(key, "delivered message") })
	// ---- R10 callbacks into the SHIP layer are open calls
	const R10 = "C13.R10 callbacks-hold-no-transport-lock"
	r.Rule(R10, "every call of the data-processing callbacks (ReportConnectionError, HandleIncomingWebsocketMessage) is made with no mutex of the websocket connection held on any path: the SHIP layer reacts to a reported error by calling back into the transport (CloseDataConnection with a reason writes a close frame and takes the write mutex), so a report made under that mutex blocks the reporting pump for ever and the end of the connection is never told")
	checkOpenCalls(p, r, R10, a.fns, "ws.", func(in ssa.Instruction) string {
		c := core.Common(in)
		if c == nil || !c.IsInvoke() {
			return ""
		}
		if core.IsInvokeOf(in, a.mReport) || core.IsInvokeOf(in, a.mIncoming) {
			return c.Method.Name()
		}
		return ""
	})
	r.Floor(R10, 2)
	// ---- R11 the error is stored and the close routine has run before the SHIP layer is told
	const R11 = "C13.R11 closed-before-told"
	r.Rule(R11, "every report of a connection error is preceded by the close routine (shared with C12.R6): while the SHIP layer handles the report the read pump must not deliver further messages and the closed-query must already answer with the error")
	importRules(p, r, "C12", map[string]string{"C12.R6 release-before-report": R11}, nil)
}

// checkOpenCalls: the calls selected by foreign (returns a name, "" = not selected) in fns are made with no
// mutex whose id starts with ownPrefix held on any path (interprocedural may-locksets, callers within fns).
func checkOpenCalls(p *core.Program, r *core.Report, rule string, fns []*ssa.Function, ownPrefix string, foreign func(ssa.Instruction) string) {
	may := core.MayLocks(fns)
	seen := map[string]bool{}
	for _, fn := range fns {
		fn := fn
		core.EachInstr(fn, func(in ssa.Instruction) {
			name := foreign(in)
			if name == "" {
				return
			}
			var held []string
			for id := range may[in] {
				if strings.HasPrefix(id, ownPrefix) {
					held = append(held, id)
				}
			}
			sort.Strings(held)
			key := name + " in " + p.FnName(fn) + " is an open call"
			if len(held) > 0 {
				r.Fail(rule, key, p.Pos(in.Pos()), fmt.Sprintf("%s is called while %v may be held: the callee calls back into this object (or waits for a goroutine that does) and needs the same mutex", name, held))
				seen[key] = true
			} else if !seen[key] {
				r.OK(rule, key, p.Pos(in.Pos()), "no own mutex held on any path")
			}
		})
	}
}

// checkShipReaction: the SHIP layer's ReportConnectionError reaches CloseConnection on every path (C13.R4, C03.R8).
func checkShipReaction(p *core.Program, r *core.Report, R4 string) {
	rce := p.Method("ship", "ShipConnection", "ReportConnectionError")
	cc := p.Method("ship", "ShipConnection", "CloseConnection")
	if rce == nil || cc == nil {
		r.Unresolved(R4, "ship.ShipConnection.ReportConnectionError / CloseConnection")
	} else {
		m := core.NewMust(p, 3, func(in ssa.Instruction) bool {
			c := core.Common(in)
			_, isGo := in.(*ssa.Go)
			return c != nil && !isGo && c.StaticCallee() == cc
		})
		if m.Fn(rce) {
			r.OK(R4, "ship.ShipConnection.ReportConnectionError reaches CloseConnection", p.Pos(rce.Pos()), "all paths close the connection")
		} else {
			r.Fail(R4, "ship.ShipConnection.ReportConnectionError reaches CloseConnection", p.Pos(rce.Pos()), "a path through ReportConnectionError returns without CloseConnection: the transport error leaves the SHIP connection registered")
		}
	}
}

// isPureSetter: fn only stores (under a lock) - the helper whose call sites are the real flag-setting sites.
func isPureSetter(fn *ssa.Function, flag *types.Var) bool {
	pure := true
	core.EachInstr(fn, func(in ssa.Instruction) {
		if c := core.Common(in); c != nil {
			if _, op, _ := core.MutexOp(in); op == 0 {
				pure = false
			}
		}
	})
	return pure
}

func checkWriteFailureReported(p *core.Program, r *core.Report, a *wsAnchors, rule, tn string) {
	isIOWrite := func(in ssa.Instruction) bool {
		return core.IsStaticCall(in, "(*github.com/gorilla/websocket.Conn).WriteMessage")
	}
	mayWrite := core.NewMay(p, false, isIOWrite)
	isRep := func(in ssa.Instruction) bool { return core.IsInvokeOf(in, a.mReport) }
	// a helper that handles the failed write may itself skip the report when the connection was closed meanwhile
	closedEdgeG := func(b *ssa.BasicBlock, idx int) bool {
		i := core.BlockIf(b)
		if i == nil {
			return false
		}
		v, truth := core.Truth(i.Cond, idx)
		return truth && a.flagRead(v)
	}
	mustRep := core.NewMust(p, 3, isRep)
	mustRep.Removed = closedEdgeG
	mustRepUncond := core.NewMust(p, 3, isRep)
	// reportsUnchecked: the instruction reports on every path without the closed flag being re-read on the way
	// (directly, or inside a helper of the package)
	reportsUnchecked := func(in ssa.Instruction) bool {
		if mustRepUncond.Instr(in) {
			return true
		}
		if c, ok := in.(*ssa.Call); ok {
			if h := c.Call.StaticCallee(); h != nil && h.Blocks != nil && p.PkgShort(h) == "ws" && mustRep.Instr(in) {
				return core.PathSearch(h, nil, mustRepUncond.Instr, a.isFlagCheckInstr, nil) != nil
			}
		}
		return false
	}
	// functions in ws that test the error of a call that may reach conn.WriteMessage
	n := 0
	for _, fn := range a.fns {
		core.EachInstr(fn, func(in ssa.Instruction) {
			call, ok := in.(*ssa.Call)
			if !ok {
				return
			}
			callee := call.Call.StaticCallee()
			if !(isIOWrite(in) || (callee != nil && p.InRepo(callee) && mayWrite.Fn(callee))) {
				return
			}
			if !types.Identical(call.Type(), types.Universe.Lookup("error").Type()) {
				return
			}
			// find If on call != nil
			for _, b := range fn.Blocks {
				i := core.BlockIf(b)
				if i == nil {
					continue
				}
				v, _ := core.Truth(i.Cond, 0)
				bo, ok := v.(*ssa.BinOp)
				if !ok || (bo.Op != token.NEQ && bo.Op != token.EQL) {
					continue
				}
				if !((bo.X == ssa.Value(call) && core.IsNilConst(bo.Y)) || (bo.Y == ssa.Value(call) && core.IsNilConst(bo.X))) {
					continue
				}
				errIdx := 0
				if bo.Op == token.EQL {
					errIdx = 1
				}
				eb := b.Succs[errIdx]
				n++
				key := tn + " write-error@" + p.FnName(fn) + " reported"
				first := eb.Instrs[0]
				bad := ssa.Instruction(nil)
				closedEdge := func(b *ssa.BasicBlock, idx int) bool {
					i := core.BlockIf(b)
					if i == nil {
						return false
					}
					v, truth := core.Truth(i.Cond, idx)
					return truth && a.flagRead(v) // the connection was closed meanwhile: nothing to report
				}
				// a return that hands the very error to the caller delegates the handling (the caller's own test
				// of it is an obligation of its own)
				delegates := func(in ssa.Instruction) bool {
					ret, ok := in.(*ssa.Return)
					if !ok {
						return false
					}
					for i := range ret.Results {
						rv := core.ResultOf(ret, i)
						if rv == ssa.Value(call) {
							return true
						}
						if phi, ok := rv.(*ssa.Phi); ok {
							for _, e := range phi.Edges {
								if e == ssa.Value(call) {
									return true
								}
							}
						}
					}
					return false
				}
				notDelegating := func(in ssa.Instruction) bool { return core.IsReturn(in) && !delegates(in) }
				if !mustRep.Instr(first) {
					bad = core.PathSearch(fn, first, notDelegating, mustRep.Instr, closedEdge)
					if notDelegating(first) {
						bad = first
					}
				}
				if bad != nil {
					r.Fail(rule, key, p.Pos(first.Pos()), "a failed transport write is not reported to the SHIP layer (ReportConnectionError) on every path")
				} else {
					r.OK(rule, key, p.Pos(first.Pos()), "write failure reaches ReportConnectionError")
				}
				// a write that fails because the connection was closed locally must not be reported
				key2 := tn + " write-error@" + p.FnName(fn) + " not-reported-after-local-close"
				if unchecked := core.PathSearch(fn, call, reportsUnchecked, a.isFlagCheckInstr, nil); unchecked != nil {
					r.Fail(rule, key2, p.Pos(unchecked.Pos()), "the write error is reported without re-reading the closed flag after the write: a deliberate local close racing the pump's write is reported as a connection error")
				} else {
					r.OK(rule, key2, p.Pos(first.Pos()), "closed flag re-read between the failed write and the report")
				}
			}
		})
	}
	if n == 0 {
		r.Fail(rule, tn+" write-error reported", "", "no error test of a transport write found: write failures are dropped silently")
	}
	// the pump's dequeued message goes through a function that handles the error
	_ = mustRep
}

func checkClosedQuery(p *core.Program, r *core.Report, a *wsAnchors, rule, tn string) {
	q := p.Method("ws", a.typ.Obj().Name(), "IsDataConnectionClosed")
	if q == nil {
		r.Unresolved(rule, "IsDataConnectionClosed")
		return
	}
	key := tn + " IsDataConnectionClosed closed=>err!=nil"
	// enumerate paths; literals: C (closed read true), N (err value == nil)
	violated := false
	pos := p.Pos(q.Pos())
	complete := core.EnumPaths(q, 256, func(path []*ssa.BasicBlock, taken []int) {
		ret, ok := path[len(path)-1].Instrs[len(path[len(path)-1].Instrs)-1].(*ssa.Return)
		if !ok || len(ret.Results) != 2 {
			return
		}
		resolve := func(v ssa.Value) ssa.Value {
			for i := 0; i < 8; i++ {
				if phi, ok := v.(*ssa.Phi); ok {
					if nv := core.PhiOnPath(phi, path); nv != nil {
						v = nv
						continue
					}
				}
				break
			}
			return v
		}
		closedV := resolve(core.ResultOf(ret, 0))
		errV := resolve(core.ResultOf(ret, 1))
		// literals
		closedKnown, closedVal := false, false
		errNilKnown, errNil := false, false
		for i, b := range path[:len(path)-1] {
			ifi := core.BlockIf(b)
			if ifi == nil {
				continue
			}
			v, truth := core.Truth(ifi.Cond, taken[i])
			if v == closedV {
				closedKnown, closedVal = true, truth
			}
			if bo, ok := v.(*ssa.BinOp); ok && (bo.Op == token.EQL || bo.Op == token.NEQ) {
				if (bo.X == errV && core.IsNilConst(bo.Y)) || (bo.Y == errV && core.IsNilConst(bo.X)) {
					errNilKnown = true
					errNil = truth == (bo.Op == token.EQL)
				}
			}
		}
		if c := core.ConstOf(closedV); c != nil {
			closedKnown, closedVal = true, c.String() == "true"
		}
		if core.IsNilConst(errV) {
			errNilKnown, errNil = true, true
		}
		if call, ok := errV.(*ssa.Call); ok {
			if n := core.CalleeName(&call.Call); n == "errors.New" || n == "fmt.Errorf" {
				errNilKnown, errNil = true, false
			}
		}
		// violation: path may have closed==true and err==nil
		mayClosed := !closedKnown || closedVal
		mayNil := !errNilKnown || errNil
		if mayClosed && mayNil {
			violated = true
			pos = p.Pos(ret.Pos())
		}
	})
	if !complete {
		r.Fail(rule, key, pos, "too many paths to enumerate")
	} else if violated {
		r.Fail(rule, key, pos, "a path returns closed == true together with a possibly nil error")
	} else {
		r.OK(rule, key, pos, "every path that may return closed returns a non-nil error")
	}
}

// checkEscapeLocks: a goroutine blocked in a select on an escape channel
// keeps its locks; the close routine must reach close(escape) without
// acquiring any of them. Shared by C12.R4 and C13.R5.
func checkEscapeLocks(p *core.Program, r *core.Report, a *wsAnchors, uses map[*types.Var][]chanUse, closedByRoutine map[*types.Var]bool, R4, tn string) *core.LockInfo {
	li := core.AnalyzeLocks(a.fns, func(fn *ssa.Function) bool {
		return fn.Object() != nil && fn.Object().Exported()
	})
	for f, us := range uses {
		for _, s := range us {
			if s.kind != "send" || s.sel == nil {
				continue
			}
			held := li.Must[s.in]
			for _, st := range s.sel.States {
				g := chanField(st.Chan)
				if st.Dir != types.RecvOnly || g == nil || !closedByRoutine[g] {
					continue
				}
				for _, c := range uses[g] {
					if c.kind != "close" {
						continue
					}
					key := fmt.Sprintf("%s.%s send@%s escape %s closed@%s", tn, f.Name(), p.FnName(s.fn), g.Name(), p.FnName(c.fn))
					conflict := held.Intersect(li.AcqBefore[c.in])
					if len(conflict) > 0 {
						r.Fail(R4, key, p.Pos(c.in.Pos()), fmt.Sprintf("the writer waits in its select holding %s, and the close routine acquires %s before it closes %s: with a full queue and a stalled pump both wait for each other forever", held, conflict, g.Name()))
					} else {
						r.OK(R4, key, p.Pos(c.in.Pos()), fmt.Sprintf("writer holds %s; path to close(%s) acquires only %s", held, g.Name(), li.AcqBefore[c.in]))
					}
				}
			}
		}
	}
	return li
}

// checkTransportWrites: every gorilla write call holds one common mutex (shared by C12.R5 and C08.R4).
func checkTransportWrites(p *core.Program, r *core.Report, a *wsAnchors, li *core.LockInfo, R5 string) {
	var common core.LockSet
	nw := 0
	for _, fn := range a.fns {
		core.EachInstr(fn, func(in ssa.Instruction) {
			switch core.CalleeName(core.Common(in)) {
			case "(*github.com/gorilla/websocket.Conn).WriteMessage", "(*github.com/gorilla/websocket.Conn).WriteControl",
				"(*github.com/gorilla/websocket.Conn).NextWriter", "(*github.com/gorilla/websocket.Conn).WriteJSON", "(*github.com/gorilla/websocket.Conn).WritePreparedMessage",
				"(*github.com/gorilla/websocket.Conn).SetWriteDeadline", "(*github.com/gorilla/websocket.Conn).EnableWriteCompression", "(*github.com/gorilla/websocket.Conn).SetCompressionLevel":
				// gorilla: "no more than one goroutine calls the write methods (NextWriter, SetWriteDeadline, WriteMessage, WriteJSON, EnableWriteCompression, SetCompressionLevel) concurrently"
			default:
				return
			}
			nw++
			ls := li.Must[in]
			key := "transport write in " + p.FnName(fn)
			if len(ls) == 0 {
				r.Fail(R5, key, p.Pos(in.Pos()), "a websocket write is made without holding the write mutex: the pump's frame write and a close frame / ping written from another goroutine can run concurrently (gorilla panics: concurrent write to websocket connection)")
			} else {
				r.OK(R5, key, p.Pos(in.Pos()), "holds "+ls.String())
			}
			if common == nil {
				common = ls.Clone()
			} else {
				common = common.Intersect(ls)
			}
		})
	}
	if nw > 1 && len(common) == 0 {
		r.Fail(R5, "transport writes common mutex", "", "the websocket write sites do not share a mutex")
	}
}

// globalFreshError: the package-level variable is stored exactly once (in the package initialiser) and the stored
// value is a freshly constructed error.
func globalFreshError(g *ssa.Global) bool {
	if gCallSitesFor == nil {
		return false
	}
	n, fresh := 0, false
	visit := func(f *ssa.Function, isInit bool) {
		core.EachInstr(f, func(in ssa.Instruction) {
			if st, ok := in.(*ssa.Store); ok && st.Addr == ssa.Value(g) {
				n++
				fresh = isInit && neverNilError(st.Val)
			}
		})
	}
	if ini := g.Pkg.Func("init"); ini != nil {
		visit(ini, true)
	}
	for _, f := range gCallSitesFor.RepoFuncs() {
		if f.Name() != "init" || f.Synthetic == "" {
			visit(f, false)
		}
	}
	return n == 1 && fresh
}
