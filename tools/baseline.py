#!/usr/bin/env python3
"""Runs the repository's test suite (guard off) in a given tree and compares with BASELINE.json's stable_pass list."""
import json, subprocess, sys, os
repo = sys.argv[1] if len(sys.argv) > 1 else "/repo"
env = dict(os.environ, GOFLAGS="-mod=mod", GOPROXY="off", GOSUMDB="off", GOTOOLCHAIN="local")
p = subprocess.run(["go","test","-json","-vet=off","-count=1","-timeout","25m","./..."], cwd=repo, env=env, capture_output=True, text=True)
passed, failed = set(), set()
for l in p.stdout.splitlines():
    try: e = json.loads(l)
    except Exception: continue
    if e.get("Test") and e.get("Action") in ("pass","fail"):
        (passed if e["Action"]=="pass" else failed).add(e["Package"]+"::"+e["Test"])
base = json.load(open("/root/.vp/BASELINE.json"))["stable_pass"]
missing = [t for t in base if t not in passed]
print(f"passed={len(passed)} failed={len(failed)} baseline={len(base)} baseline_missing={len(missing)}")
for t in missing: print("  MISSING", t)
extra_fail = sorted(failed)
for t in extra_fail: print("  failed", t)
sys.exit(1 if missing else 0)
