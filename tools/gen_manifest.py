#!/usr/bin/env python3
"""Generates /verif/MANIFEST.json from the table below (kept next to the checker so
that claims, techniques and not_applicable reasons stay in one place)."""
import json, os
D = os.path.dirname(os.path.dirname(os.path.abspath(__file__)))

NOTE = ("Trusted base: go/types + go/ssa (x/tools v0.29.0), CHA/VTA call-graph over-approximation, contracts of stdlib / "
        "gorilla/websocket / go-avahi / zeroconf. The check decides the named structural clauses (necessary conditions) on the "
        "resolved program of /repo's working tree; it does not execute the code and does not prove the behavioural property.")

# id -> (technique, level text, design ref)
CLAIMS = {
 "C02": ("value-provenance and guarded-by rules at both construction sites, must-close on refusing paths, constant evaluation of the server tls.Config, flag-sensitive path search for the SKI<->key binding",
         "Structural necessary conditions of 'identity bound to the presented certificate': SKI taken from PeerCertificates[0] of this connection only, construction reachable only through the pass edges of sub-protocol / certificate / SKI-extraction / SKI-equality checks, refusing paths close the socket, server config requires client cert + TLS>=1.2 + the SHIP suites + a callback that succeeds only with a valid SKI, SkiFromCertificate succeeds only on the SHA-1(public key)==SubjectKeyId edge, generator uses the same derivation. TLS negotiation outcomes are not decided. Upgrader and Dialer are configured with the 'ship' sub-protocol. Checks that were moved into package-local verification helpers are followed (calling contexts, lifted guard edges). The generator hashes a library-produced fixed-length key encoding.",
         "DESIGN.md §3 C02"),
 "C07": ("def-use taint of document bytes into Replace/Trim/regexp sites, type rules on decode targets, structural rules on the recursive tree rewrite, idiom rules on the inverse scanner's string-literal handling",
         "Structural necessary conditions of the lossless round trip: no context-free structural rewriting of document bytes, order/number-preserving decode with single-member maps, the rewrite recurses into every child of both container kinds and emits the rewritten child, the envelope splice never searches payload bytes, the inverse scanner skips string literals and escape pairs. Semantic equality over all documents and the []/{} ambiguity of the wire form are not decided. Rewritten containers are created non-nil; the inverse transform returns memory no later call can write. The rewrite converts no scalar (number literals keep their text); known finding C07.R7: the inverse maps the wire token [] to {} (empty arrays do not survive; inherent ambiguity of the wire form).",
         "DESIGN.md §3 C07"),
 "C08": ("panic-obligation enumeration over VTA-reachable code with a dominating-guard prover; blocking-operation rule on the receive path; lock-order graph (interprocedural must-locksets + acquire summaries) cycle check",
         "Every may-panic instruction (index, slice, optional JSON pointer deref, unchecked type assertion, integer division, explicit panic) in repo code reachable from peer-driven entries is discharged by a dominating guard or a reviewed exception; blocking channel operations on the receive path have timeout/escape arms; the lock-order graph is acyclic. Panics inside dependencies and resource exhaustion are not decided. Every gorilla write, including the close frame, holds the write mutex. Waits on the receive path have constant durations; the map handed to the report goroutine is a copy (imported from C17.R3).",
         "DESIGN.md §3 C08"),
 "C16": ("writer/reader table extraction and agreement over resolved constants and field provenance; idiom rules for TXT splitting and rune-safe truncation; taint rule for the QR text",
         "Structural necessary conditions of 'announced TXT = what a ship-go browser reads back': key/value tables of announce routine and resolver callback agree with each other and with SHIP 7.3.2, TXT items split at the first '=', descriptive fields cut at a rune boundary within 32 bytes, every interpolated QR value passes the ';' remover, a changed auto-accept flag is re-announced. Round-trip equality over all strings is not decided. Also decided: the rune-boundary loop is left only on RuneStart(s[cut]) or cut <= 0; the TXT parser stores the bytes after the first '=' unchanged. The re-announce after a reconnect passes the currently stored TXT list (shared with C19.R1). Textual TXT values are stored verbatim; loops assembling the QR text have no early exit.",
         "DESIGN.md §3 C16"),
 "C17": ("guarded-by (path-sensitive for repeated conditions) on insert/delete sites, loop early-exit check, lockset + freshness rules for snapshots, flag-sensitive change=>report search, async-ordering rule",
         "Structural necessary conditions of 'visible-services view tracks the mDNS history': validity filter dominates every modification, address hygiene and complete merge loops, snapshot copies under the mutex, every change dispatches a report. The per-change report goroutines (ordering) are a recorded known finding. History equivalence is not decided. Also decided: merged and new-entry addresses are drawn from the list the link-local filter built (value provenance). Lookup, store and delete of one event use one key value. The own-service test compares the SKI only.",
         "DESIGN.md §3 C17"),
 "C18": ("async-ordering rule on notification call sites, value-provenance rule (notified = stored), exhaustive constant evaluation of the state mapping function",
         "Which notification arrives last is a scheduling question; decided: notifications are not issued from per-event goroutines (the one existing site is a recorded known finding), the notified detail is the stored object, query and update share one total mapping whose four stable outcomes are distinct (evaluated for all 40 states). Also decided: a notification issued from a per-change goroutine waits one constant delay shared by all such sites and is skipped only on a condition of that SKI's own record. Every modification of a stored pairing detail is followed by a notification on every path; a cancel that was announced ends the pending handshake (shared with C10.R3). The update callback stores every state that differs from the stored one; the detail cell stores the pointer it is given.",
         "DESIGN.md §3 C18"),
 "C19": ("provenance + lockset + dominance rules on the avahi reconnect path, who-may-write for the manual-shutdown flag, must-pass bookkeeping rules, hand-over lock rule",
         "Structural necessary conditions of 'reconnect without stale or lost announcements': re-announce reads the stored data under the mutex after the restart, the reconnect goroutine cannot clear the manual-shutdown flag and re-checks it in the restart's critical section, Announce/Unannounce/Shutdown bookkeeping on all paths, single listener, the Shutdown hand-over cannot deadlock on the provider mutex. Fault sequences as such are not decided. Also decided: channels handed to the once-started listener are made only when nil and reset only after the listener was marked stopped. The service browser is freed before the listener is told to stop. The announced flag is cleared only together with the provider's Unannounce.",
         "DESIGN.md §3 C19"),
 "C20": ("Eraser-style static lockset analysis (interprocedural must-locksets, read/write lock modes) over all fields and map contents of the eight shared structs; snapshot deep-copy rule",
         "Lockset consistency per field: all post-construction writes share a mutex in exclusive mode and every read holds it; fields written only during construction are immutable; a reviewed table names fields confined by hand-over. Two unlocked writers of MdnsManager.mdnsProvider are recorded known findings. Races only the dynamic detector can observe are not decided. Package-level variables written after initialisation hold a common mutex; no by-value load of a struct that contains a mutex. SetWriteDeadline and the other gorilla write methods hold the write mutex.",
         "DESIGN.md §3 C20"),

 "C01": ("finite-domain abstract interpretation of package ship's SSA (handshake automaton extraction, all entries x 40 states x both roles) + who-may-call/guarded-by rules in package hub",
         "Inductive invariant over the extracted automaton: every transition from a pre-trust into a post-trust state is on a path that passed the positive edge of a trust predicate or is the user-approval step; setup callback only in state Approved; SPINE reader only from that callback, delivery only through it; hub sets trust only on registration or hello-ok and approves pending handshakes only from RegisterRemoteSKI. This is the universally quantified reachability clause (no message/timeout/error sequence advances an untrusted peer) decided on an over-approximation of the code; application callback logic is not decided. The dial gate may be a boolean helper; it is accepted only when every true result implies paired-or-queued. Revocation (unregister / cancel) clears trust, resets the stored state and ends the connection on every path; the inbound connection is created under the SKI of PeerCertificates[0] (rules shared with C10, C02). Identity rules of C02 (first certificate, key binding, every dial attempt checked) are imported.",
         "DESIGN.md §3 C01"),
 "C03": ("table agreement over resolved constants (sent vs. compared wire enums, versions, model types, member-name literals vs. JSON tags) + automaton rules (trust decision edges, DAG check, terminal => close)",
         "Necessary conditions of two ship-go endpoints agreeing: both roles of the same code speak the same alphabet, a trusted/approving server takes the ready path, the progress graph is acyclic with the setup callback in state Approved, a side that gives up closes. Agreement under delays and timer interleavings of two processes is not decided. The hello handlers re-arm the wait-for-ready timer on the allowed edge of AllowWaitingForTrust; RegisterRemoteSKI records trust on every path. A timer armed from the partner's announced waiting time is that time minus a positive constant; a failed transport write is reported and the SHIP layer reacts with CloseConnection (shared with C13). The abort entry ends both waiting states for both roles; the lock-order graph is acyclic (imported from C08.R3).",
         "DESIGN.md §3 C03"),
 "C04": ("finite-domain abstract interpretation of package ship's SSA: extracted transition relation compared with the SHIP 1.0.1 state graph; finality, timer and close rules over all entry paths",
         "The whole reachable edge relation (every entry point from every state, both roles, every transport write may fail) is contained in the specification graph; terminal states are only left into Error, no arm / no non-closing send in a terminal state, timer flag false and transport closed when a terminal or the completed state is entered. Timer durations are not decided. A received close announce is answered and closed on the reader goroutine itself. Every path of the close-once body closes the transport and reports the end once (shared with C11).",
         "DESIGN.md §3 C04"),
 "C05": ("path enumeration with exhaustive abstract-input evaluation of the double-connection decision; must-pass-through rules (attempt flag, reconnect trigger, construct=>run=>register, end report)",
         "Necessary conditions of convergence to one connection: the keep/drop decision is antisymmetric between initiator and acceptor and order-dependent (exhaustive over its finite abstraction), the attempt-running flag is always released, a closed trusted/completed connection always triggers re-announce+request, every constructed connection is run and registered unconditionally, every connection end is reported. Convergence in bounded time under disturbances is not decided. The attempt counter advances only on the scheduling path; registration records trust on every path. On the way to the dial the stored pairing state is compared with no constant other than Queued. Imports the registry-atomicity rule (C11.R3) and the transport-liveness rules (C13.R2/R6).",
         "DESIGN.md §3 C05"),
 "C06": ("path enumeration of the incoming-frame entry, lockset and provenance rules for the pre-completion buffer, channel-discipline rules for the outgoing queue",
         "Necessary conditions of exactly-once in-order delivery: deliver xor buffer on every data path with the right guards and provenance, fresh decode target, buffer accessed under its mutex, tail appends, in-order flush that empties the buffer and is called synchronously after the reader is installed, single consumer / serialised producers of the outgoing queue, delivery only through the installed reader. End-to-end histories are not decided. The routing predicate consults exactly the datagram marker; the enqueue select has only the send arm and the close escape. The data-writer entry reaches the transport enqueue on every path except transform-error and closed-transport exits. The flush of held-back datagrams is preceded by the state change to Complete.",
         "DESIGN.md §3 C06"),
 "C09": ("path enumeration with literals (decision table) of the access-methods handler + automaton state rules + who-may-write + provenance at hub construction sites",
         "The SHIP-ID decision table of the handler is decided on all its feasible paths (pin, first-time report exactly once before approval, rejection), the stored id has two writers only, and both hub construction sites pass the stored id of the same stored service. Behaviour over later inputs rests on C04's finality. The hub forwards the SHIP-ID report synchronously. The hub forwards the report on every path (no per-SKI memo). Get-or-create of the service record is atomic; the library never writes the stored SHIP ID.",
         "DESIGN.md §3 C09"),
 "C10": ("who-may-call / guarded-by / must-pass-through rules in package hub, automaton rule for the abort entry, SKI taint rule",
         "Necessary conditions of 'pairing follows user intent': single gated dial function (paired-or-queued check in the dialling invocation, shutdown flag), unregister/cancel effects on all paths, abort entry ends terminal from both waiting states, user SKI spelling normalised before lookups. Multi-hub operation histories are not decided. Imports the identity rules of C02 (the dialled service is the registered one) and the trust-writer rule of C01.",
         "DESIGN.md §3 C10"),
 "C11": ("who-may-call (close-once ownership), exactly-once path counting, lockset + guarded-by for the registry delete, re-entrancy detection by the automaton interpreter",
         "Necessary conditions of 'every connection end accounted for exactly once': all end reports and transport closes of package ship are inside the shutdownOnce body, that body reports exactly once on every path and is never re-entered, the hub deletes a registry entry only under an identity check made in the same critical section, the hub notifies the application exactly once per end. The settled notification sequence of real runs is not decided. Also decided: the connection that loses the double-connection decision is closed with safe=false (no deferred end report). Every path of HandleConnectionClosed examines the registry. Every way the transport can end is reported (imported from C13.R2/R4/R7).",
         "DESIGN.md §3 C11"),
 "C14": ("channel/typestate discipline of the timer mechanism over go/ssa: per-arm token and time source, close-based cancellation on all stop paths, lock-protected identity re-validation on fire, no loop; reachability over the extracted handshake automaton (E1) for phase-local timers",
         "The schedule property is not static; decided is that the cancellation protocol is not lossy by construction (the lost-stop, stale-goroutine and stale-tick windows do not exist structurally). Real timing is not decided. Also decided: every path of the arming function starts its timer goroutine, and - over the reachable quiescent configurations of the extracted handshake automaton - no run leaves a handshake phase with a timer it neither stopped nor re-armed. A timer goroutine writes the connection's timer bookkeeping only behind its identity check.",
         "DESIGN.md §3 C14"),
 "C15": ("interprocedural taint (source: HubInterface ski parameters, sanitiser: util.NormalizeSKI, sinks: keys of Hub's map[string] fields and ski arguments of reader callbacks)",
         "The metamorphic property rests on every SKI-keyed access and callback seeing the canonical form; that clause is decided for all public entry points through all hub helpers; construction sites use ServiceDetails.SKI(). Equality of all other effects is not decided.",
         "DESIGN.md §3 C15"),

 "C12": ("channel close/send discipline, escape-arm, must-pass path rules, interprocedural lock analysis (blocked-writer vs. close routine, serialised transport writes) over go/ssa of package ws; interprocedural precedes-rule",
         "Structural necessary conditions of 'write vs. close never panics or hangs': no sent-to channel is closed by another goroutine, every enqueue is a select with an escape arm on a channel the close routine closes, closed flag read dominates the enqueue and only the enqueue path returns nil, the close routine never needs a lock a blocked writer holds, all transport writes hold one mutex. The racing interleaving the property quantifies over exists exactly when one of these is broken; the prefix property at the peer is not decided. Also decided: every ReportConnectionError of package ws is preceded by the close routine, so writers blocked on the full queue are released before the SHIP layer reacts. One queue, one consumer (shared with C06.R3); no function of package ws returns with a mutex it acquired still locked. Close routine releases on every path (imported from C13.R1); connection fields obey the lockset discipline (imported from C20.R1).",
         "DESIGN.md §3 C12"),
 "C13": ("must-pass-through / guarded-by / exactly-once path rules over go/ssa CFG of package ws and ship",
         "Structural necessary conditions of 'transport loss is reported and releases goroutines and socket': the sync.Once close routine closes stop channel and socket on every path, every flag-setting site runs it, read-error path reports exactly once and leaves the loop, delivery is guarded by no-error and not-closed, write failure reaches ReportConnectionError, closed-query returns non-nil error when closed, pumps select on the stop channel, ship.ReportConnectionError always closes, write errors caused by a local close are not reported, the close routine is not blocked behind a writer's lock. Real termination timing is not decided. Only the receiving side extends the read deadline; no upward report is reachable from CloseDataConnection.",
         "DESIGN.md §3 C13"),
}
NA = {}

# clauses added in seeding round 8 (DESIGN.md 9.5 "Round 8")
ROUND8 = {
 "C01": "Every extracted transition is an edge of the SHIP state graph (imported from C04.R1).",
 "C02": "The SKI canonicalisation applies nothing but separator removal and case folding (imported from C15.R2).",
 "C08": "No receive-side message size limit (imported from C06.R7).",
 "C10": "UnregisterRemoteSKI revokes trust before it closes the connection; every constructed connection is registered (imported from C05.R4).",
 "C11": "HandleConnectionClosed examines the registry before it tells the application; no approval after a decode error (imported from C09.R1).",
 "C13": "What the read pump delivers is the complete result of one successful library read (imported from C06.R7).",
 "C15": "The normaliser calls no trimming or other case function.",
 "C17": "No byte-wise comparison of net.IP values.",
}

# clauses added in seeding round 7 (DESIGN.md 9.5 "Round 7")
ROUND7 = {
 "C01": "Only UnregisterRemoteSKI / CancelPairingWithSKI clear the trusted flag; no handshake state but the initial one maps to the dial permission Queued (imported from C18.R3).",
 "C03": "The hub calls into connections with no hub mutex held (imported from C08.R8); the learned SHIP ID is reported with the stored value (imported from C09.R1).",
 "C05": "Registry access under the normalised SKI (imported from C15.R1); trust writers (imported from C01.R4).",
 "C08": "Hub calls CloseConnection / AbortPendingHandshake / ApprovePendingHandshake as open calls (interprocedural may-locksets); write failures end the connection (imported from C13.R2); hand-over counterpart never takes the held mutex (imported from C19.R5).",
 "C09": "A path on which decoding the access-methods message failed never approves; the reported id is loaded after the store.",
 "C10": "Shutdown sets its flag before it closes anything; registry delete under the identity check (imported from C11.R3).",
 "C12": "No mutex of the websocket connection is acquired while the calling chain may already hold it.",
 "C13": "The read pump's message source never marks or closes the connection itself.",
 "C15": "A strings.Map normaliser is evaluated for every ASCII rune by an SSA interpreter; RegisterRemoteSKI records trust on every path (imported from C10.R1).",
 "C16": "No element of the TXT list is overwritten after the list was built.",
 "C17": "The visible-services list is built by ranging over the reported snapshot.",
 "C19": "Shutdown clears the stored request before the daemon connection is torn down; a timer waited on inside a loop is created or reset in that loop.",
}

# clauses added in seeding round 6 (DESIGN.md 9.5 "Round 6")
ROUND6 = {
 "C03": "The setup callback is reached only by the run that entered Approved (E1 path flag: exactly once, also against a timer expiry during the callback); the trust predicate returns exactly the stored flag (imported from C01.R4).",
 "C04": "A replaced timer cannot fire or touch the timer bookkeeping (imported from C14.R1-R3).",
 "C05": "IPv4 link-local addresses survive the address filter (imported from C17.R2).",
 "C06": "The bytes delivered to the SHIP layer are the whole message as returned by the websocket library (no limiting reader, no sub-slice).",
 "C07": "Every iteration of the member/element loops emits its child (no value-dependent skip).",
 "C08": "A local close never reports upward (imported from C11.R7) and the close routine is entered and releases on every path (imported from C13.R1).",
 "C09": "Every access to the per-SKI record uses the normalised SKI (imported from C15.R1).",
 "C10": "Only the initial state maps to ConnectionStateQueued (imported from C18.R3, exhaustive over all state constants).",
 "C12": "The escape arm of the enqueue select returns a provably non-nil error.",
 "C13": "The wrapper of the close-once enters it on every path; callbacks into the SHIP layer are made with no transport mutex held on any path (interprocedural may-locksets); the connection is marked and closed before the error is told (imported from C12.R6).",
 "C14": "Every run of the close routine stops the timer (imported from C04.R3).",
 "C16": "Every parsed category is kept; the TXT list handed to the provider is a literal extended by appends only.",
 "C17": "TXT items are split at the first '=' only (imported from C16.R2); the visible-services and known-entries lists take every reported entry; IPv4 link-local addresses are kept.",
 "C18": "Only the initial state maps to Queued; every access to the per-SKI record uses the normalised SKI (imported from C15.R1).",
 "C19": "Provider methods are called with no manager mutex held on any path.",
 "C20": "Standard-library objects that are not safe for concurrent use, stored in shared structs, have all method calls under one mutex.",
}

# clauses added in seeding round 5 (DESIGN.md 9.5 "Round 5")
ROUND5 = {
 "C01": "Registry deletes are made under an identity check in the same critical section (imported from C11.R3).",
 "C03": "A replaced or stopped timer cannot fire, the expiring timer unregisters itself in the critical section of its identity check, timer phases are local (imported from C14.R1/R2/R3/R5).",
 "C04": "The transport close routine performs every step on every path and a local close always reaches it (imported from C13.R1/R8).",
 "C05": "The loop over reported mDNS entries has no early exit; dial targets keep the bracketed form of IPv6 literals (no net.JoinHostPort on a pre-bracketed host); no receive-side message size limit (imported from C06.R7).",
 "C06": "A failed transport write ends the connection (imported from C13.R2); every call of a gorilla connection method is listed and none limits the size of a received message.",
 "C07": "Any textual Replace on document bytes counts as a structural rewrite, also through regexp; the rewrite returns its argument unchanged only behind both failed container type tests (no depth cut-off).",
 "C08": "No function of the repository returns with a mutex it acquired still locked (may-lockset at returns; lock wrappers exempt).",
 "C09": "Nothing deletes from the hub's service registry; the decode path performs no context-free byte removal (imported from C07.R1).",
 "C10": "A local close always closes the transport, also when the close frame cannot be written (imported from C13.R8/R1).",
 "C11": "A handler that moves to an end state handles it (imported from C04.R4); every constructed connection is registered unconditionally (imported from C05.R4).",
 "C12": "The write deadline is armed before every write and never cleared; the close handler performs no unsynchronised write.",
 "C13": "A local close reaches the close routine on every path; the error result of every transport write wrapper is acted on.",
 "C14": "The timer stop/start that belongs to a state change happens in the critical section that publishes the state; a handled waiting value stops or replaces the running timer on every path.",
 "C15": "Every exported Hub method with a SKI parameter reaches map accesses - its own and those inside ServiceForSKI - only behind an unconditional normalisation of that value.",
 "C16": "An optional TXT key or QR field is conditional on its own announced value only; mandatory QR fields are emitted unconditionally.",
 "C17": "Every report from the mDNS layer reaches the application callback on every path; the reader demands every mandatory key the writer emits (imported from C16.R1).",
 "C18": "Registry entries of closed connections are removed under the identity check (imported from C11.R3); the close path stops the handshake timer (imported from C04.R3).",
 "C19": "A successful start leaves auto-reconnect enabled; a resolved service reaches the callback on every path of the add handler.",
 "C20": "Fields of the websocket connection that are confined to the pumps are stored before the pumps start.",
}

props = [json.loads(l) for l in open(os.path.join(D, "properties.jsonl"))]
checks, na = [], []
for p in props:
    i = p["id"]
    if i in CLAIMS:
        tech, text, ref = CLAIMS[i]
        if i in ROUND5:
            text = text + " Round 5: " + ROUND5[i]
        if i in ROUND6:
            text = text + " Round 6: " + ROUND6[i]
        if i in ROUND7:
            text = text + " Round 7: " + ROUND7[i]
        if i in ROUND8:
            text = text + " Round 8: " + ROUND8[i]
        checks.append({
            "property_id": i,
            "quick_cmd": f"./check.sh {i} quick",
            "thorough_cmd": f"./check.sh {i} thorough",
            "evidence_file": f"evidence/{i}.json",
            "replay_cmd_template": "cat {path}",
            "engine": "shipverif",
            "level_claimed": {"category": "other", "text": text, "design_ref": ref},
            "level_note": NOTE,
            "technique": "static analysis: " + tech,
        })
    else:
        na.append({"property_id": i, "reason": NA.get(i, "static rules for this property are not armed yet (work in progress; see DESIGN.md §3 for the planned structural clauses)")})

m = {
 "version": 1,
 "setup_cmd": "cd /verif/checker && GOFLAGS=-mod=mod GOPROXY=off GOSUMDB=off GOTOOLCHAIN=local GOWORK=off go build -o /verif/bin/shipverif ./cmd/shipverif",
 "hooks": {"guard": "verif", "enable": "none needed: the checker reads source only; no hook code exists in /repo", "baseline_off_cmd": "cd /repo && GOFLAGS=-mod=mod GOPROXY=off GOSUMDB=off go test -json -vet=off -count=1 -timeout 25m ./...", "source_commits": [], "add_only": True},
 "engines": [{"name": "shipverif", "path": "checker/", "serves_properties": [c["property_id"] for c in checks], "kind_free_text": "repo-specific static analyser over go/packages + go/ssa (+VTA call graph): finite-domain abstract interpretation of the handshake automaton, CFG path rules, lockset/channel discipline, taint, panic obligations, table agreement"}],
 "checks": checks,
 "not_applicable": na,
 "notes": "All checks are static (technique family: static analysis). quick = rules on the default build configuration; thorough = same rules additionally under linux/386, darwin/arm64, windows/amd64 (fresh process each) plus deeper path bounds. Known genuine findings that are recorded rather than repaired are listed in known_findings.json.",
}
json.dump(m, open(os.path.join(D, "MANIFEST.json"), "w"), indent=1)
print("checks:", [c["property_id"] for c in checks], "na:", len(na))
