#!/usr/bin/env python3
"""Generates /verif/MANIFEST.json from the table below (kept next to the checker so
that claims, techniques and not_applicable reasons stay in one place)."""
import json, os
D = os.path.dirname(os.path.dirname(os.path.abspath(__file__)))

NOTE = ("Trusted base: go/types + go/ssa (x/tools v0.29.0), CHA/VTA call-graph over-approximation, contracts of stdlib / "
        "gorilla/websocket / go-avahi / zeroconf. The check decides the named structural clauses (necessary conditions) on the "
        "resolved program of /repo's working tree; it does not execute the code and does not prove the behavioural property.")

# id -> (technique, level text, design ref)
CLAIMS = {
 "C12": ("channel close/send discipline + escape-arm + must-pass path rules over go/ssa CFG of package ws",
         "Structural necessary conditions of 'write vs. close never panics or hangs': no sent-to channel is closed by another goroutine, every enqueue is a select with an escape arm on a channel the close routine closes, closed flag read dominates the enqueue and only the enqueue path returns nil. The racing interleaving the property quantifies over exists exactly when one of these is broken; the prefix property at the peer is not decided.",
         "DESIGN.md §3 C12"),
 "C13": ("must-pass-through / guarded-by / exactly-once path rules over go/ssa CFG of package ws and ship",
         "Structural necessary conditions of 'transport loss is reported and releases goroutines and socket': the sync.Once close routine closes stop channel and socket on every path, every flag-setting site runs it, read-error path reports exactly once and leaves the loop, delivery is guarded by no-error and not-closed, write failure reaches ReportConnectionError, closed-query returns non-nil error when closed, pumps select on the stop channel, ship.ReportConnectionError always closes. Real termination timing is not decided.",
         "DESIGN.md §3 C13"),
}
NA = {}

props = [json.loads(l) for l in open(os.path.join(D, "properties.jsonl"))]
checks, na = [], []
for p in props:
    i = p["id"]
    if i in CLAIMS:
        tech, text, ref = CLAIMS[i]
        checks.append({
            "property_id": i,
            "quick_cmd": f"./check.sh {i} quick",
            "thorough_cmd": f"./check.sh {i} thorough",
            "evidence_file": f"evidence/{i}.json",
            "replay_cmd_template": "cat {path}",
            "engine": "shipverif",
            "level_claimed": {"category": "other", "text": text, "design_ref": ref},
            "level_note": NOTE,
            "technique": "static analysis: " + tech,
        })
    else:
        na.append({"property_id": i, "reason": NA.get(i, "static rules for this property are not armed yet (work in progress; see DESIGN.md §3 for the planned structural clauses)")})

m = {
 "version": 1,
 "setup_cmd": "cd /verif/checker && GOFLAGS=-mod=mod GOPROXY=off GOSUMDB=off GOTOOLCHAIN=local GOWORK=off go build -o /verif/bin/shipverif ./cmd/shipverif",
 "hooks": {"guard": "verif", "enable": "none needed: the checker reads source only; no hook code exists in /repo", "baseline_off_cmd": "cd /repo && GOFLAGS=-mod=mod GOPROXY=off GOSUMDB=off go test -json -vet=off -count=1 -timeout 25m ./...", "source_commits": [], "add_only": True},
 "engines": [{"name": "shipverif", "path": "checker/", "serves_properties": [c["property_id"] for c in checks], "kind_free_text": "repo-specific static analyser over go/packages + go/ssa (+VTA call graph): finite-domain abstract interpretation of the handshake automaton, CFG path rules, lockset/channel discipline, taint, panic obligations, table agreement"}],
 "checks": checks,
 "not_applicable": na,
 "notes": "All checks are static (technique family: static analysis). quick = rules on the default build configuration; thorough = same rules additionally under linux/386, darwin/arm64, windows/amd64 (fresh process each) plus deeper path bounds. Known genuine findings that are recorded rather than repaired are listed in known_findings.json.",
}
json.dump(m, open(os.path.join(D, "MANIFEST.json"), "w"), indent=1)
print("checks:", [c["property_id"] for c in checks], "na:", len(na))
