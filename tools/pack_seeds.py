#!/usr/bin/env python3
"""Copies confirmed seeds (verified by verify_seeds.py) into /verif/seeded/<id>/ with meta.json."""
import json, os, shutil, sys, re
ROOT, RES, DEST = sys.argv[1], sys.argv[2], "/verif/seeded"
SUFFIX = sys.argv[3] if len(sys.argv) > 3 else ""   # e.g. "2" for the second seeding round -> ids like C04a2
for f in sorted(os.listdir(RES)):
    if not f.endswith(".json"): continue
    r = json.load(open(os.path.join(RES, f)))
    if not r.get("confirmed"): 
        print("skip (not confirmed)", r["id"], r.get("error","")); continue
    prop, var = r["id"].split("/")
    src = os.path.join(ROOT, prop, var)
    dst = os.path.join(DEST, f"{prop}{var}{SUFFIX}")
    os.makedirs(dst, exist_ok=True)
    shutil.copy(os.path.join(src, "patch.diff"), dst)
    for root, _, files in os.walk(src):
        for x in files:
            if x.endswith("_test.go") or x in ("demo_cmd.txt", "notes.md"):
                rel = os.path.relpath(root, src)
                os.makedirs(os.path.join(dst, rel), exist_ok=True)
                shutil.copy(os.path.join(root, x), os.path.join(dst, rel))
    notes = open(os.path.join(src, "notes.md")).read() if os.path.exists(os.path.join(src, "notes.md")) else ""
    needs = ""
    m = re.search(r"(?is)(what it needs[^\n]*\n.*?)(\n#|\n\*\*|\Z)", notes)
    if m: needs = m.group(1).strip()[:1200]
    meta = {
        "id": f"{prop}{var}{SUFFIX}", "property": prop, "round": int(SUFFIX or 1), "origin": "independent sub-agent given only the property text and a scratch worktree",
        "repo_head_verified_against": r["head"],
        "needs_to_manifest": needs or "see notes.md",
        "what_i_ran": [
            "git worktree add --detach /tmp/v/<id> <HEAD>; git apply patch.diff; go build ./...",
            "demonstration with the change: `" + str(r.get("demo_cmd")) + "` -> exit " + str(r.get("demo_with_change_exit")) + " (fails)",
            "full suite with the change (demonstration file removed): python3 /verif/tools/baseline.py -> " + str(r.get("baseline_line")),
            "git apply -R patch.diff; demonstration without the change -> exit " + str(r.get("demo_without_change_exit")) + " (passes)",
            "SHIPVERIF_REPO=<worktree with change> /verif/check.sh " + prop + " quick -> exit " + str(r.get("check_exit")),
        ],
        "detected_by_check": bool(r.get("detected")),
        "detected_by_rules": r.get("check_rules"),
        "violation_keys": r.get("check_keys"),
    }
    json.dump(meta, open(os.path.join(dst, "meta.json"), "w"), indent=1)
    print("packed", meta["id"], "detected" if meta["detected_by_check"] else "MISSED", meta["detected_by_rules"])
