#!/usr/bin/env python3
"""Re-runs only the detection step of verify_seeds.py (the check of the seed's own property on a scratch worktree
with the patch applied) for results that are already confirmed, after rules were added.
usage: redetect_seeds.py <seedout-root> <result-dir> [--missed]"""
import json, os, re, subprocess, sys
ROOT, OUT = sys.argv[1], sys.argv[2]
only_missed = "--missed" in sys.argv
ENV = dict(os.environ, GOFLAGS="-mod=mod", GOPROXY="off", GOSUMDB="off", GOTOOLCHAIN="local", GOWORK="off")
wt = "/tmp/v/redetect"
subprocess.run(["git","-C","/repo","worktree","remove","--force",wt], capture_output=True)
subprocess.run(["git","-C","/repo","worktree","prune"], capture_output=True)
subprocess.check_call(["git","-C","/repo","worktree","add","-q","--detach",wt,"HEAD"])
try:
    for f in sorted(os.listdir(OUT)):
        if not f.endswith(".json"): continue
        p = os.path.join(OUT, f); r = json.load(open(p))
        if not r.get("confirmed") or (only_missed and r.get("detected")): continue
        prop, var = r["id"].split("/")
        subprocess.check_call("git checkout -q -- . && git clean -fdq", shell=True, cwd=wt)
        subprocess.check_call(["git","apply",os.path.join(ROOT,prop,var,"patch.diff")], cwd=wt)
        q = subprocess.run(["/verif/check.sh", prop, "quick"], cwd="/verif", env=dict(ENV, SHIPVERIF_REPO=wt), capture_output=True, text=True)
        out = q.stdout + q.stderr
        r["check_exit"] = q.returncode
        r["check_rules"] = sorted(set(re.findall(r"rule=(\S+)", out)))
        r["check_keys"] = re.findall(r'key="([^"]+)"', out)[:6]
        r["detected"] = q.returncode == 1
        json.dump(r, open(p, "w"), indent=1)
        print(r["id"], "detected" if r["detected"] else "MISSED", r["check_rules"], flush=True)
finally:
    subprocess.run(["git","-C","/repo","worktree","remove","--force",wt], capture_output=True)
