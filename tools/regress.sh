#!/bin/sh
# Full development regression: (1) all 20 checks silent on /repo (regenerates evidence), (2) every seeded change
# reported, (3) every reverted fix reported again, (4) every benign refactoring silent.
cd /verif || exit 2
rc=0
echo "== checks on /repo"
for c in C01 C02 C03 C04 C05 C06 C07 C08 C09 C10 C11 C12 C13 C14 C15 C16 C17 C18 C19 C20; do
  out=$(./check.sh $c quick 2>&1); e=$?
  echo "$out" | tail -1 | cut -c1-100
  [ $e -ne 0 ] && { rc=1; echo "$out" | grep -A1 '^VIOLATION' | head -6; }
done
echo "== seeded changes"; tools/selftest.sh 2>&1 | grep -v ": detected" ; [ $? -eq 0 ] && true
echo "== reverted fixes"; tools/selftest_reverts.sh 2>&1 | grep -v "reported again"
echo "== refactorings"; tools/tryrefactors.sh /verif/selftest/refactors/*.diff 2>&1 | grep -B1 -A3 "violations: [1-9]\|DOES NOT APPLY"
echo "== done rc=$rc"
