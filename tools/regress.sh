#!/bin/sh
# Full development regression, four stages in parallel (each with its own scratch worktree and scratch evidence dir):
# (1) all 20 checks silent on /repo (regenerates evidence), (2) every seeded change reported, (3) every reverted
# fix reported again, (4) every benign refactoring silent. Output: /tmp/regress.<stage>.out, summary on stdout.
cd /verif || exit 2
export GOFLAGS=-mod=mod GOPROXY=off GOSUMDB=off GOTOOLCHAIN=local GOWORK=off
./check.sh C15 quick >/dev/null 2>&1   # make sure the binary is current before the stages start
(
  rc=0
  for c in C01 C02 C03 C04 C05 C06 C07 C08 C09 C10 C11 C12 C13 C14 C15 C16 C17 C18 C19 C20; do
    out=$(./check.sh $c quick 2>&1); e=$?
    echo "$out" | tail -1 | cut -c1-100
    [ $e -ne 0 ] && { rc=1; echo "$out" | grep -A1 '^VIOLATION' | head -6; }
  done
  echo "rc=$rc"
) > /tmp/regress.repo.out 2>&1 &
# seeds in 3 shards, refactorings in 3 shards (each shard has its own scratch worktree and scratch evidence dir)
for i in 0 1 2; do
  (TMPDIR=/tmp/rg-seeds$i; mkdir -p $TMPDIR; export TMPDIR; SELFTEST_SCR=/tmp/selftest-scr$i SHARD=$i/3 tools/selftest.sh) > /tmp/regress.seeds.$i.out 2>&1 &
done
(TMPDIR=/tmp/rg-rev; mkdir -p $TMPDIR; export TMPDIR; tools/selftest_reverts.sh) > /tmp/regress.reverts.out 2>&1 &
ls /verif/selftest/refactors/*.diff > /tmp/regress.reflist
for i in 0 1 2; do
  (TMPDIR=/tmp/rg-ref$i; mkdir -p $TMPDIR; export TMPDIR; REF_SCR=/tmp/ref-scr$i tools/tryrefactors.sh $(awk -v i=$i 'NR%3==i' /tmp/regress.reflist)) > /tmp/regress.refactors.$i.out 2>&1 &
done
wait
cat /tmp/regress.seeds.[012].out > /tmp/regress.seeds.out; cat /tmp/regress.refactors.[012].out > /tmp/regress.refactors.out
echo "== checks on /repo"; grep -v "violations=0" /tmp/regress.repo.out
echo "== seeded changes (not detected)"; grep -v ": detected" /tmp/regress.seeds.out
echo "== reverted fixes (not reported)"; grep -v "reported again" /tmp/regress.reverts.out
echo "== refactorings (alarms)"; awk '/^== /{n=$2} /rule=/{print n": "$0} /DOES NOT APPLY/{print}' /tmp/regress.refactors.out | cut -c1-260
echo "== counts: seeds $(grep -c ': detected' /tmp/regress.seeds.out)/$(ls -d /verif/seeded/*/ | wc -l) reverts $(grep -c 'reported again' /tmp/regress.reverts.out)/$(ls /verif/selftest/reverts/*.diff | wc -l) refactors-silent $(grep -c 'violations: 0' /tmp/regress.refactors.out)/$(ls /verif/selftest/refactors/*.diff | wc -l)"
rm -rf /tmp/rg-seeds[012] /tmp/rg-rev /tmp/rg-ref[012]
