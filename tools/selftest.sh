#!/bin/sh
# Development self-test (not a registered check): every seeded change under /verif/seeded must be reported by
# the check of its property, and the unchanged tree must be silent. Uses one scratch worktree at a time.
set -u
S=${SELFTEST_SCR:-/tmp/selftest-scr}
# optional sharding: SHARD=i/n handles every n-th seed starting at i (0-based)
SH_I=${SHARD%/*}; SH_N=${SHARD#*/}; [ -z "${SHARD:-}" ] && { SH_I=0; SH_N=1; }
k=0
git -C /repo worktree remove --force "$S" 2>/dev/null; rm -rf "$S"
git -C /repo worktree add -q --detach "$S" HEAD || exit 2
fail=0
for d in /verif/seeded/*/; do
  k=$((k+1)); [ $(( (k-1) % SH_N )) -eq "$SH_I" ] || continue
  id=$(basename "$d"); prop=$(python3 -c "import json;print(json.load(open('$d/meta.json'))['property'])")
  exp=$(python3 -c "import json;print(json.load(open('$d/meta.json'))['detected_by_check'])")
  git -C "$S" checkout -q -- . && git -C "$S" clean -fdq
  if ! git -C "$S" apply "$d/patch.diff" 2>/dev/null; then echo "$id: patch no longer applies to HEAD"; continue; fi
  out=$(SHIPVERIF_REPO="$S" /verif/check.sh "$prop" quick 2>&1); rc=$?
  rules=$(echo "$out" | grep -o 'rule=[^ ]*' | sort -u | tr '\n' ' ')
  if [ "$rc" = 1 ]; then echo "$id: detected ($rules)"; else echo "$id: NOT detected (rc=$rc) expected_detected=$exp"; [ "$exp" = True ] && fail=1; fi
done
git -C "$S" checkout -q -- .; git -C /repo worktree remove --force "$S"; rm -rf "$S"
exit $fail
