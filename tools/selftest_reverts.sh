#!/bin/sh
# Development self-test: each repaired defect, re-introduced by reverting its fix on a scratch worktree, must be
# reported again by the check of its property ("a fixed entry suppresses nothing").
S=/tmp/selftest-rev
git -C /repo worktree remove --force "$S" 2>/dev/null; rm -rf "$S"
git -C /repo worktree add -q --detach "$S" HEAD || exit 2
fail=0
for f in /verif/selftest/reverts/*.diff; do
  b=$(basename "$f" .diff); prop=${b%%-*}
  git -C "$S" checkout -q -- . && git -C "$S" clean -fdq
  git -C "$S" apply "$f" 2>/dev/null || { echo "$b: revert patch no longer applies"; continue; }
  out=$(SHIPVERIF_REPO="$S" /verif/check.sh "$prop" quick 2>&1); rc=$?
  rules=$(echo "$out" | grep -o 'rule=[^ ]*' | sort -u | tr '\n' ' ')
  if [ "$rc" = 1 ]; then echo "$b: reported again ($rules)"; else echo "$b: NOT reported (rc=$rc)"; fail=1; fi
done
git -C /repo worktree remove --force "$S"; rm -rf "$S"
exit $fail
