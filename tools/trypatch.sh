#!/bin/sh
# usage: trypatch.sh <patch.diff> <Cxx> [more props...]  -- applies the patch to a scratch worktree of /repo HEAD and runs the checks there
set -u
P="$1"; shift
S=/tmp/scr
[ -d "$S" ] || git -C /repo worktree add -q --detach "$S" HEAD
git -C "$S" checkout -q -- . && git -C "$S" clean -fdq
git -C "$S" checkout -q --detach "$(git -C /repo rev-parse HEAD)" 2>/dev/null
git -C "$S" apply "$P" || { echo "PATCH DOES NOT APPLY"; exit 3; }
for c in "$@"; do SHIPVERIF_REPO="$S" /verif/check.sh "$c" quick 2>&1 | grep -v "^    " | cut -c1-400 | tail -${TAILN:-6}; done
git -C "$S" checkout -q -- . && git -C "$S" clean -fdq
