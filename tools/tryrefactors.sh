#!/bin/sh
# Runs all 20 checks against each behaviour-preserving refactoring patch; any VIOLATION is a false alarm.
S=${REF_SCR:-/tmp/ref-scr}
git -C /repo worktree remove --force "$S" 2>/dev/null; rm -rf "$S"
git -C /repo worktree add -q --detach "$S" HEAD || exit 2
V="${TMPDIR:-/tmp}/shipverif-scratch"; mkdir -p "$V"; cp /verif/known_findings.json "$V/"
for f in "$@"; do
  git -C "$S" checkout -q -- . && git -C "$S" clean -fdq
  if ! git -C "$S" apply "$f" 2>/dev/null; then echo "== $f: DOES NOT APPLY"; continue; fi
  echo "== $f"
  out=$(SHIPVERIF_REPO="$S" /verif/bin/shipverif check all --repo "$S" --verif "${TMPDIR:-/tmp}/shipverif-scratch" 2>&1)
  echo "$out" | grep -A1 "^VIOLATION" | grep "rule=" | cut -c1-300
  echo "$out" | grep -c "^VIOLATION" | sed 's/^/   violations: /'
done
git -C /repo worktree remove --force "$S"; rm -rf "$S"
