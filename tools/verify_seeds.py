#!/usr/bin/env python3
"""Re-verifies sub-agent seeds: patch applies to /repo HEAD, builds, baseline suite passes with it, the
demonstration fails with it and passes without it; records which of our checks report it.
usage: verify_seeds.py <seedout-root> <result-dir> [ids...]   (ids like C04/a)"""
import json, os, re, shutil, subprocess, sys, concurrent.futures as cf
ROOT, OUT = sys.argv[1], sys.argv[2]
ENV = dict(os.environ, GOFLAGS="-mod=mod", GOPROXY="off", GOSUMDB="off", GOTOOLCHAIN="local")
os.makedirs(OUT, exist_ok=True)
HEAD = subprocess.check_output(["git","-C","/repo","rev-parse","HEAD"], text=True).strip()

def sh(cmd, cwd, timeout=900, env=ENV):
    try:
        p = subprocess.run(cmd, cwd=cwd, shell=isinstance(cmd,str), env=env, capture_output=True, text=True, timeout=timeout)
        return p.returncode, (p.stdout + p.stderr)
    except subprocess.TimeoutExpired as e:
        return 124, "TIMEOUT " + str(e)

def verify(sid):
    prop, var = sid.split("/")
    d = os.path.join(ROOT, prop, var)
    res = {"id": sid, "property": prop, "head": HEAD}
    wt = f"/tmp/v/{prop}{var}"
    shutil.rmtree(wt, ignore_errors=True)
    subprocess.run(["git","-C","/repo","worktree","prune"], capture_output=True)
    rc, out = sh(["git","-C","/repo","worktree","add","-q","--detach",wt,HEAD], "/")
    if rc: res["error"] = "worktree: "+out; return res
    try:
        rc, out = sh(["git","apply",os.path.join(d,"patch.diff")], wt)
        res["applies"] = rc == 0
        if rc:
            res["error"] = "apply: " + out[-400:]; return res
        rc, out = sh("go build ./...", wt)
        res["builds"] = rc == 0
        if rc: res["error"] = "build: "+out[-400:]; return res
        # demonstration files: top level (placed by their package clause) or in a sub-directory named like the package dir
        demos = []  # (source path, package dir)
        for root, _, files in os.walk(d):
            for f in files:
                if f.endswith("_test.go"):
                    src = os.path.join(root, f)
                    rel = os.path.relpath(root, d)
                    if rel != ".":
                        demos.append((src, rel)); continue
                    pk = re.search(r"^package\s+(\w+)", open(src).read(), re.M).group(1)
                    demos.append((src, pk[:-5] if pk.endswith("_test") else pk))
        cmdline = None
        for l in open(os.path.join(d,"demo_cmd.txt")):
            if "go test" in l and not l.strip().startswith("#"):
                cmdline = l.split(" #")[0].strip(); break
        m = re.search(r"(go test[^&;|]*)", cmdline or "")
        gocmd = m.group(1).strip() if m else None
        pkg = gocmd.split()[-1] if gocmd else None
        def put():
            for src, pd in demos: shutil.copy(src, os.path.join(wt, pd, os.path.basename(src)))
        def unput():
            for src, pd in demos: os.remove(os.path.join(wt, pd, os.path.basename(src)))
        res["demo_cmd"] = gocmd
        if not gocmd or not pkg.startswith("./"):
            res["error"] = "no demo command"; return res
        if "-timeout" not in gocmd: gocmd = gocmd.replace("go test", "go test -timeout 300s", 1)
        if "-vet" not in gocmd: gocmd = gocmd.replace("go test", "go test -vet=off", 1)
        # our checks on the patched tree
        rc, out = sh(["/verif/check.sh", prop, "quick"], "/verif", env=dict(ENV, SHIPVERIF_REPO=wt))
        res["check_exit"] = rc
        res["check_rules"] = sorted(set(re.findall(r"rule=(\S+)", out)))
        res["check_keys"] = re.findall(r'key="([^"]+)"', out)[:6]
        put()
        rc, out = sh(gocmd, wt, timeout=600)
        res["demo_with_change_exit"] = rc
        res["demo_with_change_tail"] = out[-600:]
        unput()
        rc, out = sh(["python3","/verif/tools/baseline.py",wt], wt, timeout=1500)
        res["baseline_ok"] = rc == 0
        res["baseline_line"] = out.splitlines()[0] if out else ""
        rc, out = sh(["git","apply","-R",os.path.join(d,"patch.diff")], wt)
        put()
        rc, out = sh(gocmd, wt, timeout=600)
        res["demo_without_change_exit"] = rc
        res["demo_without_tail"] = out[-300:]
        res["confirmed"] = bool(res["applies"] and res["builds"] and res["baseline_ok"] and res["demo_with_change_exit"] != 0 and res["demo_without_change_exit"] == 0)
        res["detected"] = res["check_exit"] == 1
    finally:
        subprocess.run(["git","-C","/repo","worktree","remove","--force",wt], capture_output=True)
        shutil.rmtree(wt, ignore_errors=True)
    return res

ids = sys.argv[3:] or sorted(f"{p}/{v}" for p in os.listdir(ROOT) if p.startswith("C") for v in os.listdir(os.path.join(ROOT,p)) if os.path.isfile(os.path.join(ROOT,p,v,"patch.diff")))
with cf.ThreadPoolExecutor(max_workers=int(os.environ.get("JOBS","3"))) as ex:
    for r in ex.map(verify, ids):
        json.dump(r, open(os.path.join(OUT, r["id"].replace("/","")+".json"),"w"), indent=1)
        print(r["id"], "confirmed" if r.get("confirmed") else "NOT-CONFIRMED", "detected" if r.get("detected") else "MISSED", r.get("check_rules"), r.get("error",""), flush=True)
